"""Explicit-state search over real OggVorbis_File states (SEQ explorer).

A state is identified by the operation history that reaches it; every expansion replays the
history on a fresh handle inside the vfx executor, which returns the canonical state hash."""
import os, sys, json, subprocess, random
import vlib, zoo

OV_EINVAL = -131


def parse_out(line):
    """vfx output line -> dict"""
    if line is None:
        return {'err': 'NOOUTPUT'}
    if line.startswith('DIED') or line.startswith('TIMEOUT') or line.startswith('BAD'):
        return {'err': line}
    d = {}
    for tok in line.split(' '):
        if '=' in tok:
            k, v = tok.split('=', 1)
            d[k] = v
    r = []
    if d.get('R', '-') != '-':
        for x in d['R'].split(','):
            a, b = x.split(':')
            r.append((int(a), int(b)))
    d['R'] = r
    d['O'] = int(d.get('O', '-999'))
    d['T'] = int(d.get('T', '-1'))
    return d


class FileModel:
    """Ground truth about one zoo file from construction + our own page parse."""

    def __init__(self, idx, name, path, meta, desc):
        self.idx, self.name, self.path, self.meta, self.desc = idx, name, path, meta, desc
        self.data, self.pages = zoo.fileinfo(path)
        self.links = meta['links']
        self.nl = len(self.links)
        self.start = []
        s = 0
        for l in self.links:
            self.start.append(s)
            s += l['n']
        self.L = s
        self.start.append(s)
        self.size = len(self.data)
        # time starts as vorbisfile would compute them (double arithmetic, link by link)
        self.tstart = []
        t = 0.0
        for l in self.links:
            self.tstart.append(t)
            t += float(l['n']) / l['rate']
        self.duration = t
        # fence posts: global positions of granule-bearing pages of each link's own serial
        self.fence = []          # per link sorted list of global positions
        self.tailonly = []       # per link: fence posts of pages that hold nothing but the tail of a packet begun on an earlier page
        self.page_offsets = []   # raw offsets of all pages
        lt = zoo.link_table(self.pages)
        assert len(lt) == self.nl, (len(lt), self.nl)
        self.lt = lt
        for k, l in enumerate(lt):
            posts = set([self.start[k]])
            tails = set()
            for p in self.pages[l['first']:l['last'] + 1]:
                if p.serial == self.links[k]['serial'] and p.gran != -1:
                    g = p.gran - self.links[k].get('goff', 0)
                    g = max(0, min(g, self.links[k]['n']))
                    posts.add(self.start[k] + g)
                    if (p.flags & 1) and p.lacing and p.lacing[-1] < 255 and all(x == 255 for x in p.lacing[:-1]):
                        tails.add(self.start[k] + g)
            self.fence.append(sorted(posts))
            self.tailonly.append(tails)
        self.page_offsets = [p.offset for p in self.pages]
        self.chunks = desc['chunks'] if desc.get('open') else []

    def link_of_pos(self, p):
        """link containing sample position p as vorbisfile's seek selects it (last link with start<=p)."""
        k = 0
        for i in range(self.nl):
            if self.start[i] <= p:
                k = i
        return k

    def page_floor(self, p):
        """F(p): greatest fence post strictly below p in p's link, or the link start."""
        k = self.link_of_pos(p)
        best = self.start[k]
        for f in self.fence[k]:
            if f < p and f > best:
                best = f
        return best

    def page_floor_decodable(self, p):
        """greatest fence post strictly below p that does not belong to a tail-only page (known finding
        page_seek_behind_tail_only_page_lands_one_page_early: the library restarts one page earlier there)."""
        k = self.link_of_pos(p)
        f = self.page_floor(p)
        while f in self.tailonly[k] and f > self.start[k]:
            f = self.page_floor(f)
        return f

    def time_target(self, t):
        """(link, sample position) for a time t in [0,duration); None if out of range."""
        if t < 0:
            return None
        tt = 0.0
        pt = 0
        for i, l in enumerate(self.links):
            add = float(l['n']) / l['rate']
            if t < tt + add:
                return i, pt + int((t - tt) * l['rate'])
            tt += add
            pt += l['n']
        return None

    # ------------------------------------------------------------ alphabets
    def sample_targets(self, rich=False):
        P = set([0, 1, self.L - 1, self.L])
        for k in range(self.nl):
            s, e = self.start[k], self.start[k + 1]
            P.update([s - 1, s, s + 1, e - 1, e])
            fp = self.fence[k]
            sel = fp if (rich or len(fp) <= 6) else fp[:3] + fp[-3:]
            for f in sel:
                P.update([f - 1, f, f + 1])
            mid = (s + e) // 2
            P.update([mid, s + (e - s) // 3 + 7])
        ch = self.chunks
        sel = ch if rich else ch[:3] + ch[-3:]
        for c in sel:
            P.update([c - 1, c, c + 1])
        return sorted(p for p in P if 0 <= p <= self.L)

    def raw_targets(self, rich=False):
        R = set([0, self.size])
        po = self.page_offsets
        sel = po if (rich or len(po) <= 10) else po[:4] + po[-4:] + po[len(po) // 2:len(po) // 2 + 2]
        for k, l in enumerate(self.lt):
            first, last = self.pages[l['first']], self.pages[l['last']]
            sel = list(sel) + [first.offset, last.offset]
            R.update([last.offset + 1, l['end'] - 1, l['end'] - 30])
            R.add((l['offset'] + l['end']) // 2)
        for o in sel:
            R.update([o - 1, o, o + 1])
        return sorted(o for o in R if 0 <= o <= self.size)

    def time_targets(self, rich=False):
        T = set()
        for k, l in enumerate(self.links):
            if l['n'] == 0:
                continue
            r = float(l['rate'])
            pts = [0, 1, l['n'] // 2, l['n'] - 1]
            if rich:
                pts += [f - self.start[k] for f in self.fence[k]][:8]
            for p in pts:
                if 0 <= p < l['n']:
                    T.add(repr(self.tstart[k] + (p + 0.25) / r))
        return sorted(T, key=float)


def describe(exe, listfile):
    out = subprocess.run([exe, '--files', listfile, '--describe'], stdout=subprocess.PIPE, stderr=subprocess.PIPE, env=vlib.run_env(), text=True)
    if out.returncode != 0:
        sys.stderr.write(out.stderr)
        raise SystemExit(2)
    return json.loads(out.stdout)


def load_models(files, flavour='plain'):
    """files: dict name->(path, meta). Returns (exe, listfile, [FileModel])."""
    exe = vlib.harness(flavour, 'vfx')
    names = list(files.keys())
    listfile = vlib.write_file('files_%s.txt' % '_'.join(names)[:60], ('\n'.join(files[n][0] for n in names) + '\n').encode())
    desc = describe(exe, listfile)
    models = [FileModel(i, n, files[n][0], files[n][1], desc[i]) for i, n in enumerate(names)]
    return exe, listfile, models


class Explorer:
    """BFS over histories with hash-based state identification."""

    def __init__(self, exe, listfile, fm, sigma, judge, first_ops=(), probe='plin', depth_cap=99, state_cap=200000, deadline=None, bisim_every=64):
        self.exe, self.listfile, self.fm = exe, listfile, fm
        self.sigma, self.judge = sigma, judge
        self.first_ops = list(first_ops)
        self.probe = probe
        self.depth_cap, self.state_cap, self.deadline = depth_cap, state_cap, deadline
        self.states = {}        # hash -> dict(hist, depth, rec)
        self.trans = 0
        self.fixpoint = False
        self.max_depth = 0
        self.merges = []
        self.bisim_every = bisim_every
        self.bisim_checked = 0
        self.machinery_errors = []
        self.outcomes = set()
        self.cut = None

    def _run(self, hists):
        cases = [f"{self.fm.idx} s - {self.probe} " + ' '.join(h) for h in hists]
        res = vlib.run_cases(self.exe, cases, ['--files', self.listfile], tag='bfs')
        return [parse_out(r) for r in res]

    def explore(self):
        import time
        root = self._run([self.first_ops])[0]
        if 'err' in root:
            raise RuntimeError('root failed: %s' % root)
        self.states[root['H']] = {'hist': list(self.first_ops), 'depth': 0, 'rec': root, 'succ': {}}
        self.judge(self, None, None, root, list(self.first_ops))
        frontier = [root['H']]
        depth = 0
        while frontier:
            if depth >= self.depth_cap:
                self.cut = 'depth'
                break
            if self.deadline and time.time() > self.deadline:
                self.cut = 'deadline'
                break
            if len(self.states) > self.state_cap:
                self.cut = 'states'
                break
            depth += 1
            todo = []
            for h in frontier:
                st = self.states[h]
                for op in self.sigma(self.fm, st):
                    todo.append((h, op))
            if vlib.SEED:
                random.Random(vlib.SEED + depth).shuffle(todo)
            # a level is executed in slices so that the deadline is honoured inside a level as well (an overloaded machine used to overshoot
            # by a whole level); a level cut short leaves every recorded state and transition valid, only the fix-point claim is withdrawn
            res = []
            SL = 6000
            for k in range(0, len(todo), SL):
                if k and self.deadline and time.time() > self.deadline:
                    self.cut = 'deadline'
                    break
                res += self._run([self.states[h]['hist'] + [op] for h, op in todo[k:k + SL]])
            todo = todo[:len(res)]
            nxt = []
            for (h, op), r in zip(todo, res):
                self.trans += 1
                parent = self.states[h]
                hist = parent['hist'] + [op]
                if 'err' in r:
                    self.judge(self, parent, op, r, hist)
                    continue
                # replay determinism: the prefix must have behaved exactly as when first recorded
                if r['R'][:-1] != parent['rec']['R']:
                    self.machinery_errors.append(('replay divergence', hist, r['R'], parent['rec']['R']))
                parent['succ'][op] = (r['R'][-1], r['H'], r.get('P'))
                self.outcomes.add((op[:2], r['R'][-1][0], (r.get('P') or '')[:3]))
                self.judge(self, parent, op, r, hist)
                if r['H'] not in self.states:
                    self.states[r['H']] = {'hist': hist, 'depth': depth, 'rec': r, 'succ': {}}
                    nxt.append(r['H'])
                    self.max_depth = depth
                else:
                    self.merges.append((hist, r['H']))
            frontier = nxt
            if self.cut:
                break
        else:
            self.fixpoint = True
        return self

    def validate_merges(self):
        """Bisimulation spot check: a merged history continued with every op must behave like the representative."""
        picks = self.merges[::self.bisim_every][:40]
        todo = []
        for hist, h in picks:
            st = self.states[h]
            if not st['succ']:
                continue
            for op in st['succ']:
                todo.append((hist, h, op))
        res = self._run([hist + [op] for hist, h, op in todo])
        bad = []
        for (hist, h, op), r in zip(todo, res):
            if 'err' in r:
                bad.append((hist, op, r))
                continue
            exp = self.states[h]['succ'][op]
            got = (r['R'][-1], r['H'], r.get('P'))
            if exp != got:
                bad.append((hist, self.states[h]['hist'], op, exp, got))
        self.bisim_checked = len(todo)
        return bad
