"""C02: the codebook SIZE lattice.  For every lookup type x codeword-length transmission x (dim, entries) lattice point one set-up header
whose codebook declares exactly that size with a COMPLETE prefix code (so that nothing but the size decides acceptance), placed in every
role a book can have.  Bits are produced with big-integer arithmetic (a 2^24-entry book costs milliseconds, not a Python loop)."""
import vspec, vsynth

DIMS = (1, 2, 16, 255, 256, 4095, 4096, 65535)
ENTRIES = (1, 2, 255, 256, 65535, 65536, 1 << 20, (1 << 24) - 1)
# thorough tier: a finer lattice (in-between sizes on both sides of the 24-bit budget)
DIMS_T = tuple(sorted(DIMS + (3, 25, 1024, 32768)))
ENTRIES_T = tuple(sorted(ENTRIES + (3, 4096, 1 << 22)))
LOOKUPS = (0, 1, 2)
KINDS = ('ordered', 'flat', 'sparse2', 'sparsehalf')      # length-ordered / one length per entry / 2 used entries / every second entry used
PLACES = ('res', 'last', 'only', 'floor1', 'floor0', 'class')
OPS = 'I Hb0 H1 H2 S B Y3 N O Ra Y4 N O Ra Y5 N O Ra Y3 N O'
JUNK = bytes([0x00, 0xff, 0x55, 0xaa, 0x12, 0x34])


def rep(v, width, count):
    """the integer holding `count` copies of the `width`-bit value v (LSb first)"""
    if count <= 0 or v == 0:
        return 0
    return v * (((1 << (width * count)) - 1) // ((1 << width) - 1))


def iroot_values(entries, dim):
    """largest r with r**dim <= entries (the spec's lookup1_values), by bisection"""
    if dim == 1:
        return entries
    if dim > entries.bit_length():
        return 1                              # 2**dim > entries
    lo, hi = 1, entries + 1                   # lo**dim <= entries < hi**dim
    while hi - lo > 1:
        mid = (lo + hi) // 2
        if mid.bit_length() - 1 > entries.bit_length() // dim + 1:
            hi = mid                          # mid**dim certainly too large (keeps the powers small)
        elif mid ** dim <= entries:
            lo = mid
        else:
            hi = mid
    return lo


def split(n):
    """complete prefix code over n >= 1 symbols with ascending lengths: (length, count) runs"""
    if n == 1:
        return [(1, 1)]
    k = vspec.ilog(n - 1)
    a = (1 << k) - n
    return ([(k - 1, a)] if a else []) + [(k, n - a)]


class Bits:
    def __init__(self):
        self.v, self.n = 0, 0

    def w(self, val, bits):
        assert bits >= 0 and val >= 0 and val.bit_length() <= bits
        self.v |= val << self.n
        self.n += bits


def book_bits(dim, entries, kind, lookup, table_cap):
    """-> (value, nbits, info).  info: used (entries with a codeword), declared (quant values the header promises), written (values present)"""
    b = Bits()
    b.w(0x564342, 24)
    b.w(dim, 16)
    b.w(entries, 24)
    used = entries
    if kind == 'ordered':
        runs = split(entries)
        b.w(1, 1)
        b.w(runs[0][0] - 1, 5)
        cur = 0
        for (_, cnt) in runs:
            b.w(cnt, vspec.ilog(entries - cur))
            cur += cnt
    elif kind == 'flat':
        b.w(0, 1)
        b.w(0, 1)
        for (ln, cnt) in split(entries):
            b.w(rep(ln - 1, 5, cnt), 5 * cnt)
    elif kind == 'sparse2':
        used = min(2, entries)
        b.w(0, 1)
        b.w(1, 1)
        for _ in range(used):
            b.w(1, 1)
            b.w(0, 5)
        b.w(0, entries - used)
    else:
        used = (entries + 1) // 2
        b.w(0, 1)
        b.w(1, 1)
        for (ln, cnt) in split(used):
            b.w(rep(1 | ((ln - 1) << 1), 7, cnt), 7 * cnt)      # used flag, length, then one unused entry
        if entries & 1:
            b.n -= 1                                              # the last used entry has no unused neighbour
    b.w(lookup, 4)
    declared = written = 0
    if lookup in (1, 2):
        b.w(vsynth.fpack(-1.0), 32)
        b.w(vsynth.fpack(1.0), 32)
        b.w(0, 4)               # 1-bit values
        b.w(0, 1)
        declared = iroot_values(entries, dim) if lookup == 1 else entries * dim
        written = declared if declared <= table_cap else 0
        if written:
            b.w(rep(2, 2, written // 2), 2 * (written // 2))     # 0,1,0,1,...
            if written & 1:
                b.w(0, 1)
    return b.v, b.n, {'used': used, 'declared': declared, 'written': written}


def make_book(dim, entries, kind, lookup, table_cap):
    v, n, info = book_bits(dim, entries, kind, lookup, table_cap)
    bk = vspec.Codebook(2, [1, 1], 1)
    bk.raw = lambda w, p: w.w(v, n)
    return bk, info


def place(X, where):
    """-> (setup with X in the named role, sibling setup without X that produces the audio packets)"""
    def base():
        return vsynth.base_setup(channels=1, bs0=64, bs1=64, restype=1, floortype=0 if where == 'floor0' else 1, psize=2, vqdim=2)
    s, sib = base(), base()
    if where == 'res':
        s.books[2] = X                       # residue stage (value) book
    elif where == 'last':
        s.books = s.books + [X]              # unused, last in the header
        sib.books = sib.books + [vsynth.flat_book(2, 1, 0)]
    elif where == 'floor1':
        s.books[1] = X                       # floor 1 Y book
    elif where == 'floor0':
        s.books[3] = X                       # floor 0 LSP book
    elif where == 'class':
        s.books[0] = X                       # residue classification book (2 classes: needs 2**dim <= entries)
    else:                                    # the only book: classification book of a one-class residue without stages, floor 1 without books
        for t, bk in ((s, X), (sib, vspec.Codebook(1, [1, 1], 0))):
            t.books = [bk]
            f = t.floors[0]
            t.floors = [vspec.Floor1(f.partition_class, f.class_dim, [0], [0], [[-1]], f.mult, f.rangebits, f.xs)]
            r = t.residues[0]
            t.residues = [vspec.Residue(r.type, r.begin, r.end, r.psize, 1, 0, [0], [[-1] * 8])]
    return s, sib


def over_budget(dim, entries):
    return vspec.ilog(dim) + vspec.ilog(entries) > 24


def lattice_sets(tier, packets_for):
    """yields (name, [packets], info) - complete within the stated bound:
    quick: flat/sparsehalf for entries <= 65536, sparse2 <= 2^20, value tables present up to 2^20 values; thorough adds, in the 'res' and 'last'
    roles, flat/sparsehalf up to 2^20 and sparse2 up to 2^24-1 entries, and value tables up to 2^24 values (headers of at most ~4 MiB)."""
    table_cap = (1 << 20) if tier == 'quick' else (1 << 24)
    pk = {}
    idc = {}
    for where in PLACES:
        _, sib = place(None, where)
        pk[where] = packets_for(sib, 2)
        idc[where] = (vspec.pack_id(sib)[0], vspec.pack_comment()[0])
    for lookup in LOOKUPS:
        for kind in KINDS:
            for entries in (ENTRIES if tier == 'quick' else ENTRIES_T):
                if kind == 'sparsehalf' and entries == 1:
                    continue                 # identical to sparse2
                for dim in (DIMS if tier == 'quick' else DIMS_T):
                    for where in PLACES:
                        qmax = {'ordered': 1 << 24, 'sparse2': 1 << 20}.get(kind, 65536)     # header bytes grow with entries for the unordered kinds
                        tmax = {'ordered': 1 << 24, 'sparse2': 1 << 24}.get(kind, 1 << 20)
                        if entries > qmax and (tier == 'quick' or entries > tmax or where not in ('res', 'last')):
                            continue
                        X, info = make_book(dim, entries, kind, lookup, table_cap)
                        s, _ = place(X, where)
                        info.update({'dim': dim, 'entries': entries, 'kind': kind, 'lookup': lookup, 'place': where, 'over': over_budget(dim, entries)})
                        yield (f'lat_{where}_l{lookup}_{kind}_d{dim}_e{entries}', [idc[where][0], idc[where][1], vspec.pack_setup(s)[0]] + pk[where] + [JUNK, b''], info)
