"""C15 bitrate scaling family: managed set-ups whose bitrate triple is built from PER-CHANNEL values multiplied by the channel count
(executor case 'B' of harness/c15_setup.c, which holds the per-channel alphabet PERCH, the absolute values ABSV and the roles).

The template lookup of stage one (vorbis_encode_setup_managed) divides the nominal bitrate by the channel count, so with ordinary bitrates every
channel count above a handful is refused there (OV_EIMPL).  Scaling the request by the channel count takes every channel count of the grid through
stage one, so that the channel-range validation of stage two (vorbis_encode_setup_init) is what refuses -1, 0 (where reachable) and > 255 - inside
the one-step call vorbis_encode_init, on the two-step path, and with a control request between the two stages.
Pure enumeration, fixed order.  One case line = one (call path, channel count, rate); the executor enumerates values x roles."""
import re

CH = {'quick': [-1, 0, 1, 2, 6, 255, 256, 257, 300, 1000, 65536],
      'thorough': [-1, 0, 1, 2, 3, 5, 6, 7, 8, 27, 128, 254, 255, 256, 257, 300, 1000, 32767, 32768, 65535, 65536, 2147483647]}
RATES = {'quick': [8000, 11025, 16000, 22050, 32000, 44100, 48000, 64000, 96000],          # one per template band (64000: 5.1 only; 96000: the unmanaged X template)
         'thorough': [1, 7999, 8000, 8999, 9000, 9001, 11025, 14999, 15000, 15001, 16000, 18999, 19000, 22050, 25999, 26000, 32000, 39999, 40000, 44100, 48000, 50000, 50001,
                      64000, 70000, 70001, 96000, 200000]}
NPATHS = 6            # 0 vorbis_encode_init; 1 setup_managed + setup_init; 2..5 setup_managed + one request + setup_init


def cases(tier):
    """-> [(case line, meta)]; the pipeline (analysis_init, headerout, headerin, encode ns samples) runs on every stride-th successful set-up of a line"""
    out = []
    if tier != 'quick':
        # thorough: the quick members first (they always run), then the members only thorough has (run within a time slice)
        first = cases('quick')
        have = {(m['path'], m['ch'], m['rate']) for l, m in first}
        out = list(first)
    else:
        have = set()
    for path in range(NPATHS):
        for ch in CH[tier]:
            for rate in RATES[tier]:
                if (path, ch, rate) in have:
                    continue
                if ch > 8:
                    # >= 27 channels: an encode costs 0.03 .. 0.2 s and more; header stage + 1 sample on a thinned subset of the one-step path
                    pl, ns, stride = (2, 1, 64 if tier == 'quick' else 32) if path == 0 else (0, 0, 1)
                else:
                    pl, ns, stride = 2, 1100, (4 if path == 0 else 16)
                out.append(('B %d %d %d %d %d %d' % (path, ch, rate, pl, ns, stride), {'path': path, 'ch': ch, 'rate': rate}))
    return out


RE_ONE_STEP_STAGE2 = re.compile(r'^M:init:(-\d+):probe_setup_managed:0:probe_setup_init:(-\d+):')
RE_ONE_STEP_STAGE1 = re.compile(r'^M:init:(-\d+):probe_setup_managed:(-\d+):')
RE_TWO_STEP = re.compile(r'^M:setup_managed:(-?\d+)(?::ctl_([^:]+):(-?\d+))?:setup_init:(-?\d+):')


class Summary:
    def __init__(self):
        self.lines = 0
        self.one_step_stage2_fail = {}      # ch -> tuples refused by stage two inside vorbis_encode_init
        self.one_step_stage1_fail = 0
        self.one_step_ok = {}               # ch -> successes
        self.two_step_stage2_fail = {}      # ch -> tuples: setup_managed 0, setup_init < 0 (no request)
        self.ctl_stage2_fail = {}           # request -> tuples: setup_managed 0, request answered, setup_init < 0
        self.ctl_ok = {}                    # request -> successes
        self.ctl_rc = {}                    # request:rc -> count
        self.ok_by_ch = {}

    def absorb(self, meta, r):
        self.lines += 1
        ch = meta['ch']
        for k, v in r['cls'].items():
            m = RE_ONE_STEP_STAGE2.match(k)
            if m:
                self.one_step_stage2_fail[ch] = self.one_step_stage2_fail.get(ch, 0) + v
                continue
            if RE_ONE_STEP_STAGE1.match(k):
                self.one_step_stage1_fail += v
                continue
            if k.startswith('M:init:0:'):
                self.one_step_ok[ch] = self.one_step_ok.get(ch, 0) + v
                self.ok_by_ch[ch] = self.ok_by_ch.get(ch, 0) + v
                continue
            m = RE_TWO_STEP.match(k)
            if m:
                r1, req, rq, r2 = int(m.group(1)), m.group(2), m.group(3), int(m.group(4))
                if req is not None:
                    self.ctl_rc['%s:%s' % (req, rq)] = self.ctl_rc.get('%s:%s' % (req, rq), 0) + v
                if r1 == 0 and r2 < 0:
                    if req is None:
                        self.two_step_stage2_fail[ch] = self.two_step_stage2_fail.get(ch, 0) + v
                    else:
                        self.ctl_stage2_fail[req] = self.ctl_stage2_fail.get(req, 0) + v
                elif r1 == 0 and r2 == 0:
                    self.ok_by_ch[ch] = self.ok_by_ch.get(ch, 0) + v
                    if req is not None:
                        self.ctl_ok[req] = self.ctl_ok.get(req, 0) + v

    def coverage(self, tier, T, ncases, done):
        return {
            'what': 'managed set-ups with max/nominal/min built from per-channel values x channel count: v = p*ch for p in the per-channel alphabet, through %d roles %s, the neighbours v-1 / v+1 as nominal, '
                    'the absolute values %s through the same roles and as max / min beside a scaled nominal (p in %s); 64-bit saturating arithmetic'
                    % (len(T['roles']), T['roles'], T['absv'], T['psel']),
            'per_channel_alphabet': T['perch'],
            'channel_counts': CH[tier], 'rates': RATES[tier],
            'call_paths': ['vorbis_encode_init', 'setup_managed + setup_init'] + ['setup_managed + %s + setup_init' % x for x in T['sctl']],
            'case_lines': ncases, 'case_lines_run': done,
            'one_step_refused_by_stage_two(vorbis_encode_setup_init)_by_channels': {str(k): v for k, v in sorted(self.one_step_stage2_fail.items())},
            'one_step_refused_by_stage_one': self.one_step_stage1_fail,
            'one_step_successes_by_channels': {str(k): v for k, v in sorted(self.one_step_ok.items())},
            'two_step_refused_by_setup_init_by_channels': {str(k): v for k, v in sorted(self.two_step_stage2_fail.items())},
            'request_then_setup_init_refused': self.ctl_stage2_fail, 'request_then_setup_init_ok': self.ctl_ok, 'request_return_codes': self.ctl_rc,
            'successes_by_channels(all paths)': {str(k): v for k, v in sorted(self.ok_by_ch.items())},
        }

    def guards(self, chk, tier, vbr_stage2, enc_by):
        g = chk.guard
        big = [c for c in CH[tier] if c > 255]
        n2 = sum(self.one_step_stage2_fail.values())
        g(n2 >= 5000, 'scaling: >= 5000 vorbis_encode_init calls passed stage one (template found) and were refused by stage two (%d)' % n2)
        g(all(self.one_step_stage2_fail.get(c, 0) >= 300 for c in big), 'scaling: every channel count > 255 of the grid has >= 300 vorbis_encode_init calls refused only by stage two (%s)'
          % {c: self.one_step_stage2_fail.get(c, 0) for c in big})
        g(self.one_step_stage2_fail.get(-1, 0) >= 1, 'scaling: channel count -1 reached stage two inside vorbis_encode_init (%d)' % self.one_step_stage2_fail.get(-1, 0))
        g(vbr_stage2 >= 1000, 'vorbis_encode_init_vbr: >= 1000 calls of the VBR grid passed stage one and were refused by stage two (%d)' % vbr_stage2)
        g(all(self.two_step_stage2_fail.get(c, 0) >= 300 for c in big), 'scaling: two-step path: setup_managed succeeded and setup_init refused, >= 300 per channel count > 255')
        g(self.one_step_stage1_fail >= 5000, 'scaling: stage-one refusals are present as well (%d)' % self.one_step_stage1_fail)
        g(all(self.one_step_ok.get(c, 0) >= 300 for c in (1, 2, 6, 255)), 'scaling: >= 300 successful vorbis_encode_init calls for each of 1, 2, 6, 255 channels (%s)' % self.one_step_ok)
        g(all(self.ctl_stage2_fail.get(x, 0) >= 1000 and self.ctl_ok.get(x, 0) >= 300 for x in ('RM2_SET(NULL)', 'RM2_SET(typ)', 'CP_SET(0)', 'LP_SET(20)')),
          'scaling: with each request between the stages: >= 1000 set-ups refused by setup_init and >= 300 successful (%s / %s)' % (self.ctl_stage2_fail, self.ctl_ok))
        npk = {c: sum(v for (p, ch, k), v in enc_by.items() if p == 'scale' and ch == str(c) and k.endswith('/packets')) for c in (1, 2, 6, 255)}
        g(all(npk[c] >= 100 for c in (1, 2, 6)) and npk[255] >= 5, 'scaling: successful set-ups were encoded from (packets): %s' % npk)
