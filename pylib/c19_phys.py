"""C19 physical-layout axis: the lap oracle must hold on every valid physical layout of the same logical audio.

A *logical stream* is a list of encoder-made links (their header packets, audio packets and granule positions, taken from the
one-packet-per-page encoding of the real encoder).  A *layout* lays the very same packets out physically:
  paging   p1 p2 p3 p5 (packets per page), big (two big pages), one (all audio in ONE page), s1 s3 (fixed number of lacing segments per
           page: packets >= 255 bytes straddle pages, pages on which no packet ends carry granule -1)
  mux      none | e1 (a foreign page after every Vorbis audio page) | e3 (after every 3rd) | run3 (a run of three foreign pages after every
           2nd) | first (one foreign page directly after the first audio page) | prelast (one directly before the last Vorbis page of the
           link) | hdr (foreign pages between the header pages and directly before the first audio page, then after every 2nd)
  F        1..2 foreign logical streams (own serial number, own BOS page inside the BOS group - the 2nd one in front of the Vorbis BOS
           page -, data pages round robin, own EOS flag on their last page, consecutive page numbers, correct CRCs, non-Vorbis payloads)
  cap      read-callback chunking: 0 (as much as asked for), 61, 1 byte per callback
for single links and independently for every link of a 2-3 link chain.  Every layout is re-parsed independently (self_check) and must
carry exactly the packets of the logical stream.

Oracles on every layout file:
  1. the complete C19 oracle of checks/c19.py (same judge, same keys) on the (old position) x (target) x 5 variants (+ ov_crosslap) sweep;
  2. differential, no hand-written expectation: the audio "that would have been read next at the old position" and the new audio are
     properties of the LOGICAL stream, so for an old position reached by layout-independent operations (sample/time seeks, reads) and a
     lapped call that lands on sample position t, the first n samples delivered afterwards are bit-identical to those delivered by
     ov_pcm_seek_lap(t) from the same old position on the reference layout (plain single stream, one packet per page) of the same
     packets - for all five variants (page/raw variants are compared through the position they landed on) and for ov_crosslap.
"""
import json
import vlib, zoo, seekgraph
from vlib import Page, parse_pages, packets_of, pages_from_packets, write_file

FSERIAL0 = 0x7100
INVARIANT_OPS = ('ps', 'ts', 'rf', 'rx', 'h1', 'PS', 'TS')     # history ops whose meaning does not depend on the physical layout

# logical streams: name -> [(link kind of zoo.LINK_KINDS, overrides)]
LOGICAL = {
    'a': [('A', {})],                                   # mono 8 kHz 512/512, 13 audio packets of ~90 bytes
    'e': [('E', dict(n=5000, q=0.8))],                  # stereo 16 kHz 512/1024, packets of 340..460 bytes (2 lacing segments: can straddle pages)
    'abc': [('A', {}), ('B', {}), ('C', {})],           # the links of F2: channel count, rate and short block size change at the boundaries
    'ea': [('E', dict(n=4000, q=0.8)), ('A', {})],
}
SERIAL0 = {'a': 1910, 'e': 1920, 'abc': 1930, 'ea': 1940}


def lace(n):
    l = []
    while n >= 255:
        l.append(255)
        n -= 255
    l.append(n)
    return l


_logical_cache = {}


def logical_link(kind, serial, over):
    """(header pages, audio packets, granule position after each audio packet, meta) of an encoder-made link"""
    key = (kind, serial, tuple(sorted(over.items())))
    if key not in _logical_cache:
        p, m = zoo.link(kind, serial, 'flush', **over)
        pg = parse_pages(open(p, 'rb').read())
        pk = packets_of(pg, m['serial'])
        first_audio = pk[3][3]
        hdr = pg[:first_audio]
        aud = [b for b, _, _, _ in pk[3:]]
        grans = [g for _, g, _, _ in pk[3:]]
        assert all(g != -1 for g in grans) and len(pg) - first_audio == len(aud), 'flush layout is expected to hold one packet per page'
        _logical_cache[key] = (hdr, aud, grans, m)
    return _logical_cache[key]


def audio_pages(aud, grans, serial, paging, seq0):
    if paging[0] == 'p':
        return pages_from_packets(aud, serial, grans, int(paging[1:]), bos=False, eos=True, seq0=seq0)
    if paging == 'big':
        return pages_from_packets(aud, serial, grans, (len(aud) + 1) // 2, bos=False, eos=True, seq0=seq0)
    if paging == 'one':
        return pages_from_packets(aud, serial, grans, len(aud), bos=False, eos=True, seq0=seq0)
    if paging[0] == 's':
        return zoo.pages_spanning(aud, serial, grans, int(paging[1:]), seq0=seq0)
    raise ValueError(paging)


def slots_of(mux, m):
    """(foreign pages in front of the first audio page / between header pages, [foreign pages after audio page i, i in 0..m-2])"""
    s = [0] * max(0, m - 1)
    pre = 0
    if mux == 'none':
        pass
    elif mux == 'e1':
        s = [1] * len(s)
    elif mux == 'e3':
        s = [1 if i % 3 == 2 else 0 for i in range(len(s))]
    elif mux == 'run3':
        s = [3 if i % 2 == 0 else 0 for i in range(len(s))]
    elif mux == 'first':
        if s:
            s[0] = 1
        else:
            pre = 1
    elif mux == 'prelast':
        if s:
            s[-1] = 1
        else:
            pre = 1
    elif mux == 'hdr':
        pre = 1
        s = [1 if i % 2 == 1 else 0 for i in range(len(s))]
    else:
        raise ValueError(mux)
    if mux != 'none' and not pre and not any(s):
        pre = 1
    return pre, s


def build_link(kind, serial, over, paging, mux, F, fserial0):
    """page list of one link in the given layout"""
    hdr, aud, grans, m = logical_link(kind, serial, over)
    ap = audio_pages(aud, grans, serial, paging, seq0=len(hdr))
    if mux == 'none':
        return [p.copy() for p in hdr] + ap
    pre, slots = slots_of(mux, len(ap))
    # where the foreign data pages go: list of (position key, count)
    seqs = [1] * F
    made = []                               # foreign data pages in file order (to flag the last one of each stream EOS)
    t = [0]

    def fpages(cnt):
        out = []
        for _ in range(cnt):
            j = t[0] % F
            body = bytes([0x80 | ((t[0] * 7 + j * 31) & 0x7f)]) * (60 + 97 * (t[0] % 7))
            p = Page(0, 1000 * (t[0] + 1), fserial0 + j, seqs[j], lace(len(body)), body)
            seqs[j] += 1
            t[0] += 1
            out.append(p)
            made.append(p)
        return out
    body_pages = []
    if mux == 'hdr':
        for h in hdr[1:]:
            body_pages.append(h.copy())
            body_pages += fpages(1)
    else:
        body_pages += [h.copy() for h in hdr[1:]]
        body_pages += fpages(pre)
    for i, p in enumerate(ap):
        body_pages.append(p)
        if i < len(slots):
            body_pages += fpages(slots[i])
    last = {}
    for p in made:
        last[p.serial] = p
    for p in last.values():
        p.flags |= 4
    bos = []
    for j in range(F):
        payload = (b'fishead\0' + bytes(56), b'\x80theora' + bytes(35))[j % 2]
        b = Page(2, 0, fserial0 + j, 0, lace(len(payload)), payload)
        if fserial0 + j not in last:
            b.flags |= 4                    # a one-page logical stream
        bos.append(b)
    # BOS group: the 2nd foreign stream's BOS page in front of ours, the 1st behind it
    group = bos[1:2] + [hdr[0].copy()] + bos[0:1] + bos[2:]
    return group + body_pages


def self_check(data, logical, name):
    """independent re-parse: CRCs, per-stream page numbers, BOS/EOS discipline, and the Vorbis packets are exactly those of the logical stream"""
    import struct
    pages = parse_pages(data)
    if sum(p.size() for p in pages) != len(data):
        return 'trailing bytes'
    seqs = {}
    for p in pages:
        raw = bytearray(data[p.offset:p.offset + p.size()])
        stored = struct.unpack('<I', bytes(raw[22:26]))[0]
        raw[22:26] = b'\0\0\0\0'
        if vlib.ogg_crc(bytes(raw)) != stored:
            return 'crc'
        if p.flags & 2:
            if p.serial in seqs or p.seq != 0:
                return 'bos'
            seqs[p.serial] = 0
        else:
            if p.serial not in seqs:
                return 'page before bos'
            seqs[p.serial] += 1
            if p.seq != seqs[p.serial]:
                return 'page number gap'
    for i, (kind, over) in enumerate(LOGICAL[logical]):
        serial = SERIAL0[logical] + i
        hdr, aud, grans, m = logical_link(kind, serial, over)
        got = packets_of(pages, serial)
        want = [b for b, _, _, _ in packets_of(hdr, serial)] + aud
        if [b for b, _, _, _ in got] != want:
            return 'packets of link %d differ from the logical stream' % i
        own = [p for p in pages if p.serial == serial]
        if not (own[0].flags & 2) or not (own[-1].flags & 4) or any(p.flags & 4 for p in own[:-1]):
            return 'bos/eos flags of link %d' % i
        if own[-1].gran != grans[-1]:
            return 'final granule of link %d' % i
    return None


_built = {}


def build_file(logical, spec):
    """spec: per link (paging, mux, F).  Returns (path, chain meta) as seekgraph.load_models wants it."""
    key = (logical, tuple(spec))
    if key in _built:
        return _built[key]
    links = []
    blob_all = b''
    name = 'c19p_%s_%s' % (logical, '+'.join('%s.%s.%d' % s for s in spec))
    for i, ((kind, over), (paging, mux, F)) in enumerate(zip(LOGICAL[logical], spec)):
        serial = SERIAL0[logical] + i
        pages = build_link(kind, serial, over, paging, mux, F, FSERIAL0 + 16 * i)
        blob = b''.join(p.encode() for p in pages)
        m = dict(logical_link(kind, serial, over)[3])
        path = write_file('%s.l%d.ogg' % (name, i), blob)
        m.update({'file': path, 'bytes': len(blob), 'pages': len(pages), 'foreign': F if mux != 'none' else 0})
        links.append((path, m))
        blob_all += blob
    err = self_check(blob_all, logical, name)
    if err:
        raise RuntimeError('c19_phys: generated layout %s is not a valid physical stream: %s' % (name, err))
    _built[key] = vlib.chain(name, links)
    return _built[key]


def ref_spec(logical):
    return tuple(('p1', 'none', 0) for _ in LOGICAL[logical])


# ------------------------------------------------------------------ the enumerated layout sets
def layouts(tier):
    """[(logical, spec, cap)] - enumerated completely.  quick: a covering subset; thorough: the product paging x mux x F on the single links,
    a larger covering set on the chains, every cap."""
    out = []
    if tier == 'quick':
        A = [('p1', 'e1', 1), ('p1', 'e1', 2), ('p1', 'e3', 1), ('p1', 'run3', 2), ('p1', 'first', 1), ('p1', 'prelast', 1), ('p1', 'hdr', 2),
             ('p2', 'e1', 1), ('p3', 'e1', 2), ('p3', 'prelast', 1), ('p5', 'first', 1), ('big', 'e1', 1), ('one', 'first', 1),
             ('p2', 'none', 0), ('p3', 'none', 0), ('big', 'none', 0)]
        caps = (0, 61, 1)
        for i, s in enumerate(A):
            out.append(('a', (s,), caps[i % 3]))
        E = [('p1', 'e1', 1), ('s3', 'e1', 2), ('s1', 'e1', 1), ('s3', 'none', 0), ('p2', 'run3', 2), ('s1', 'prelast', 1)]
        for i, s in enumerate(E):
            out.append(('e', (s,), caps[(i + 1) % 3]))
        C3 = [(('p1', 'e1', 1), ('p1', 'e1', 1), ('p1', 'e1', 1)),
              (('p2', 'run3', 2), ('p1', 'prelast', 1), ('p3', 'e1', 2)),
              (('p1', 'none', 0), ('p1', 'first', 1), ('p5', 'e3', 1))]
        for i, s in enumerate(C3):
            out.append(('abc', s, caps[(i + 2) % 3]))
        out.append(('ea', (('s3', 'e1', 1), ('p1', 'e1', 2)), 61))
    else:
        pagings = ('p1', 'p2', 'p3', 'p5', 'big', 'one')
        muxes = ('none', 'e1', 'e3', 'run3', 'first', 'prelast', 'hdr')
        n = 0
        for pg in pagings:
            for mx in muxes:
                for F in ((0,) if mx == 'none' else (1, 2)):
                    if (pg, mx) == ('p1', 'none'):
                        continue            # the reference layout itself
                    for cap in ((0, 61, 1) if pg in ('p1', 'p3') and mx in ('e1', 'run3') else ((0, 61, 1)[n % 3],)):
                        out.append(('a', ((pg, mx, F),), cap))
                    n += 1
        for pg in ('p1', 'p2', 's1', 's2', 's3', 's5', 'big'):
            for mx in ('none', 'e1', 'run3', 'first', 'prelast', 'hdr'):
                for F in ((0,) if mx == 'none' else (1, 2)):
                    if (pg, mx) == ('p1', 'none'):
                        continue
                    out.append(('e', ((pg, mx, F),), (0, 61, 1)[n % 3]))
                    n += 1
        C3 = [(('p1', 'e1', 1),) * 3, (('p1', 'e1', 2),) * 3, (('p2', 'run3', 2), ('p1', 'prelast', 1), ('p3', 'e1', 2)),
              (('p1', 'none', 0), ('p1', 'first', 1), ('p5', 'e3', 1)), (('p3', 'e1', 1), ('p1', 'none', 0), ('p1', 'run3', 2)),
              (('p1', 'prelast', 1), ('p2', 'hdr', 2), ('p1', 'prelast', 2)), (('big', 'e1', 1), ('big', 'e1', 1), ('p5', 'e1', 1)),
              (('p1', 'first', 1), ('p1', 'e3', 1), ('p2', 'none', 0))]
        for i, s in enumerate(C3):
            out.append(('abc', s, (0, 61, 1)[i % 3]))
        C2 = [(('s3', 'e1', 1), ('p1', 'e1', 2)), (('p1', 'prelast', 1), ('p1', 'first', 1)), (('s1', 'run3', 2), ('p2', 'none', 0)), (('p2', 'none', 0), ('p3', 'hdr', 2))]
        for i, s in enumerate(C2):
            out.append(('ea', s, (61, 1, 0)[i % 3]))
    return out


# ------------------------------------------------------------------ running the family
class Recorder:
    """hands violations through to the real Check and remembers which keys the standard oracle raised for the current case"""

    def __init__(self, chk):
        self.chk, self.keys = chk, []

    def violation(self, key, desc, replay):
        self.keys.append(key)
        return self.chk.violation(key, desc, replay)


def foreign_bos_offsets(fm):
    """offsets of the BOS pages of foreign logical streams (own parse of the physical stream)"""
    own = set(l['serial'] for l in fm.links)
    return set(p.offset for p in fm.pages if (p.flags & 2) and p.serial not in own)


# old-position class 'bosgroup': the handle stands on the first byte of a link (raw seek), i.e. inside the BOS group of a multiplexed link, without a
# decoder.  On the tree of 2026-09-29 the lapped calls report OV_EOF from there (key eof_before_foreign_bos_page_of_own_link, genuine, see
# docs/c19_bosgroup_eof_fix.diff); the class is swept in the thorough tier only until that is repaired - then set this to True.
BOSGROUP_IN_QUICK = True


def bosgroup_positions(fm):
    return [('bosgroup', ['rs%d' % l['offset']]) for l in fm.lt]


def invariant_hist(hist):
    return all(o[:2] in INVARIANT_OPS for o in hist)


def case_line(m, idx, idx2=None):
    k = '%s@%d' % (m['kind'], m['cap']) if m.get('cap') else m['kind']
    if m['kind'] == 'S':
        return f'{k} {idx} {m["half"]} {m["op"]} | ' + ' '.join(m['hist'])
    return f'{k} {idx} {idx2} {m["half"]} | ' + ' '.join(m['hist']) + ' | ' + ' '.join(m['hist2'])


def run_family(chk, c19, tier, exe_p, exe_a, st, sigs, t_end):
    """Executes the layout family; returns the coverage dict.  c19 = the checks/c19.py module (old_positions, targets, judge, parse)."""
    import time
    rich = tier == 'thorough'
    L = layouts(tier)
    # thorough: the layouts of the quick set come first and get the rich old-position / target sets, the rest of the product the standard ones
    Q = layouts('quick')
    richset = set((l, tuple(sp), c) for l, sp, c in Q if len(sp) == 1) if rich else set()       # (single links; the chains keep the standard sets, all targets)
    if rich:
        L = Q + [x for x in L if x not in Q]
    files = {}
    lay_of = {}                                 # file name -> (logical, spec)
    for logical, spec, cap in L:
        for sp in (spec, ref_spec(logical)):
            nm = 'c19p_%s_%s' % (logical, '+'.join('%s.%s.%d' % s for s in sp))
            if nm not in files:
                files[nm] = build_file(logical, sp)
                lay_of[nm] = (logical, tuple(sp))
    # the executor holds at most 64 files: batches of layouts, each together with the reference layouts it needs
    cov = {'layouts': len(L), 'layout_files': len(files), 'logical_streams': sorted(set(l for l, _, _ in L)), 'cases': 0, 'reference_cases': 0,
           'differential_compared': 0, 'differential_compared_by_variant': {}, 'stepped_over_foreign_page': 0, 'stepped_over_and_lapped_and_passed': 0,
           'stepped_over_in_chain': 0, 'stepped_over_by_cap': {}, 'lap_fetch_called_read_callback': 0, 'lap_fetch_crossed_page_border': 0,
           'stepped_over_crosslap': 0, 'spanning_packet_layout_cases': 0, 'completed': True, 'asan_cases': 0,
           'layouts_swept': 0, 'layouts_gated_out': [], 'differential_mismatches': 0}
    refname = {lg: 'c19p_%s_%s' % (lg, '+'.join('%s.%s.%d' % s for s in ref_spec(lg))) for lg in LOGICAL}
    batches = []
    cur = []
    for logical, spec, cap in L:
        cur.append((logical, spec, cap))
        need = set(refname[l] for l, _, _ in cur) | set('c19p_%s_%s' % (l, '+'.join('%s.%s.%d' % s for s in sp)) for l, sp, _ in cur)
        if len(need) > 56 or len(cur) > (24 if rich else 40):      # (thorough: smaller batches, the deadline is looked at between them)
            batches.append(cur[:-1])
            cur = [(logical, spec, cap)]
    if cur:
        batches.append(cur)
    extra = [] if rich else ['--maxread', '1500']
    for bi, batch in enumerate(batches):
        if time.time() > t_end:
            cov['completed'] = False
            break
        fset = {}
        for l, sp, _ in batch:
            for nm in ('c19p_%s_%s' % (l, '+'.join('%s.%s.%d' % s for s in sp)), refname[l]):
                fset[nm] = files[nm]
        _, listfile, models = seekgraph.load_models(fset)
        byname = {m.name: m for m in models}
        for m in models:
            st['link_starts'][m.name] = set(m.start[1:m.nl])
            st.setdefault('foreign_bos', {})[m.name] = foreign_bos_offsets(m)
        cases, meta = [], []
        for l, sp, cap in batch:
            nm = 'c19p_%s_%s' % (l, '+'.join('%s.%s.%d' % s for s in sp))
            fm = byname[nm]
            # precondition of the whole property (it is C07/C09's subject, not C19's): a fresh handle on this layout reads the logical stream
            # from its first sample to its last, in the same blocks as on the reference layout.  A layout on which the library does not even do
            # that is not swept (what "would have been read next" is undefined there); it is listed in the evidence and bounded by a guard.
            fr = byname[refname[l]]
            if not (fm.desc.get('open') and fr.desc.get('open') and fm.desc.get('decoded') == fm.L and fm.desc.get('chunks') == fr.desc.get('chunks')
                    and [(x['pcm'], x['ch'], x['rate']) for x in fm.desc['links']] == [(x['pcm'], x['ch'], x['rate']) for x in fr.desc['links']]):
                if nm not in cov['layouts_gated_out']:
                    cov['layouts_gated_out'].append(nm)
                continue
            cov['layouts_swept'] += 1
            lrich = (l, tuple(sp), cap) in richset
            O = c19.old_positions(fm, lrich) + (bosgroup_positions(fm) if (rich or BOSGROUP_IN_QUICK) else [])
            T = c19.targets(fm, lrich)
            thin = 1 if (rich or fm.nl == 1) else 2          # quick: every 2nd target on the chains
            for oc, hist in O:
                for v in c19.VARIANTS:
                    for tg in T[v][::thin]:
                        m = {'kind': 'S', 'file': nm, 'half': 0, 'op': v + tg, 'hist': hist, 'oclass': oc, 'variant': v, 'cap': cap, 'phys': [l, [list(x) for x in sp]]}
                        cases.append(case_line(m, fm.idx))
                        meta.append(m)
            # ov_crosslap: first handle on the layout file, second handle on the layout file / on the reference layout
            for other in (nm, refname[l]):
                fo = byname[other]
                O2 = c19.old_positions(fo, lrich) + (bosgroup_positions(fo) if (rich or BOSGROUP_IN_QUICK) else [])
                for oc1, h1 in O:
                    for oc2, h2 in (O2 if other == nm else O2[::3]):
                        m = {'kind': 'X', 'file': nm, 'file2': other, 'half': 0, 'op': 'crosslap', 'hist': h1, 'hist2': h2, 'oclass': oc1, 'oclass2': oc2, 'variant': 'XL', 'cap': cap, 'phys': [l, [list(x) for x in sp]]}
                        cases.append(case_line(m, fm.idx, fo.idx))
                        meta.append(m)
        res = vlib.run_cases(exe_p, cases, ['--files', listfile] + extra, tag='c19p')
        # phase 2: reference cases for the differential oracle
        obs = []
        refcases, refmeta, refkey = [], [], {}
        for m, line in zip(meta, res):
            chk.cov['evaluations'] += 1
            cov['cases'] += 1
            r = c19.parse(line)
            rec = Recorder(chk)
            sg = c19.judge(rec, m, r, st)
            if sg is not None:
                sigs.add(sg + ('phys',))
            obs.append((m, r, rec.keys, sg))
            if 'err' in r:
                continue
            l = m['phys'][0]
            spanning = any(s[0][0] == 's' for s in m['phys'][1])
            if spanning:
                cov['spanning_packet_layout_cases'] += 1
            if r.get('nrd', 0) > 0:
                cov['lap_fetch_called_read_callback'] += 1
            if r.get('npg', 0) > 0:
                cov['lap_fetch_crossed_page_border'] += 1
            if r.get('xf', 0) > 0:
                cov['stepped_over_foreign_page'] += 1
                cov['stepped_over_by_cap'][str(m['cap'])] = cov['stepped_over_by_cap'].get(str(m['cap']), 0) + 1
                if len(m['phys'][1]) > 1:
                    cov['stepped_over_in_chain'] += 1
                if m['kind'] == 'X':
                    cov['stepped_over_crosslap'] += 1
                if sg is not None and r['ndiff'] > 0 and r['judged'] > 0 and r['src'] == 'ok':
                    cov['stepped_over_and_lapped_and_passed'] += 1
            # differential: which reference case answers for this one
            if r['rcA'] != 0 or r['rcB'] != 0 or r['D'] == '-' or not invariant_hist(m['hist']):
                continue
            if m['kind'] == 'S':
                k = ('S', l, m['half'], tuple(m['hist']), r['tA'])
                rm = {'kind': 'S', 'file': refname[l], 'half': m['half'], 'op': 'PS%d' % r['tA'], 'hist': m['hist'], 'oclass': m['oclass'], 'variant': 'PS', 'cap': 0, 'phys': [l, [list(x) for x in ref_spec(l)]], 'ref': True}
                line_ = case_line(rm, byname[refname[l]].idx)
            else:
                if not invariant_hist(m['hist2']):
                    continue
                l2 = lay_of[m['file2']][0]
                k = ('X', l, l2, m['half'], tuple(m['hist']), tuple(m['hist2']))
                rm = {'kind': 'X', 'file': refname[l], 'file2': refname[l2], 'half': m['half'], 'op': 'crosslap', 'hist': m['hist'], 'hist2': m['hist2'], 'oclass': m['oclass'], 'oclass2': m['oclass2'], 'variant': 'XL', 'cap': 0, 'phys': [l, [list(x) for x in ref_spec(l)]], 'ref': True}
                line_ = case_line(rm, byname[refname[l]].idx, byname[refname[l2]].idx)
            if k not in refkey:
                refkey[k] = len(refcases)
                refcases.append(line_)
                refmeta.append(rm)
            obs[-1] = (m, r, rec.keys, sg, refkey[k])
        rres = vlib.run_cases(exe_p, refcases, ['--files', listfile] + extra, tag='c19q')
        robs = []
        for rm, line in zip(refmeta, rres):
            chk.cov['evaluations'] += 1
            cov['reference_cases'] += 1
            r = c19.parse(line)
            rec = Recorder(chk)
            sg = c19.judge(rec, rm, r, st)
            if sg is not None:
                sigs.add(sg + ('physref',))
            robs.append((r, rec.keys))
        for o in obs:
            if len(o) < 5:
                continue
            m, r, keys, sg, ri = o
            rr, rkeys = robs[ri]
            if 'err' in rr:
                continue                       # already reported by the standard oracle on the reference case
            cov['differential_compared'] += 1
            cov['differential_compared_by_variant'][m['variant']] = cov['differential_compared_by_variant'].get(m['variant'], 0) + 1
            same = (rr['rcB'] == 0 and rr['tB'] == r['tB'] and rr['n'] == r['n'] and rr['D'] == r['D'])
            if same:
                continue
            cov['differential_mismatches'] += 1
            # classification: where the standard oracle has already named this case (or its reference twin), the same key is used
            named = [k for k in keys + rkeys]
            key = named[0] if named else f'{m["variant"]}:{m["oclass"]}:lap_region_depends_on_physical_layout'
            where = m['file'] + ('+' + m['file2'] if m['kind'] == 'X' else '')
            chk.violation(key, f'{where} cap={m["cap"]} {m["op"]} after {m["hist"]}' + (f' | {m["hist2"]}' if m['kind'] == 'X' else '') +
                          f': the first n={r["n"]} samples after the lapped call (landed on {r["tB"]}) are not bit-identical to those of the same old position / new position on the plain one-packet-per-page layout of the same packets '
                          f'(layout: rc {r["rcB"]} tell {r["tB"]} n {r["n"]} hash {r["D"][:12]}; reference: rc {rr["rcB"]} tell {rr["tB"]} n {rr["n"]} hash {rr["D"][:12]}); lap fetch stepped over {r.get("xf", 0)} foreign page(s), lap source {r["src"]}:{r["sdec"]}+{r["slap"]}', dict(m))
        # sanitizer pass: the single-link multiplexed layouts of this batch that are read with the 1-byte cap (quick: those of stream 'a')
        if exe_a is not None and time.time() < t_end:
            sel = [i for i, m in enumerate(meta) if m['cap'] == 1 and m['kind'] == 'S' and len(m['phys'][1]) == 1 and (rich or m['phys'][0] == 'a') and m['phys'][1][0][1] != 'none' and (m['phys'][0], tuple(tuple(x) for x in m['phys'][1]), m['cap']) not in richset]
            ares = vlib.run_cases(exe_a, [cases[i] for i in sel], ['--files', listfile, '--maxread', '900'], tag='c19pa')
            for i, line in zip(sel, ares):
                chk.cov['evaluations'] += 1
                cov['asan_cases'] += 1
                sg = c19.judge(chk, meta[i], c19.parse(line), st)
                if sg is not None:
                    sigs.add(sg + ('phys',))
    return cov


def replay_case(m, c19):
    """re-executes one case of the family (called from checks/c19.py replay())"""
    l, spec = m['phys'][0], tuple(tuple(x) for x in m['phys'][1])
    fset = {}
    for sp in (spec, ref_spec(l)):
        nm = 'c19p_%s_%s' % (l, '+'.join('%s.%s.%d' % tuple(s) for s in sp))
        fset[nm] = build_file(l, sp)
    for nm in (m['file'], m.get('file2')):
        if nm and nm not in fset:
            # second handle of a crosslap on another logical stream's reference
            for lg in LOGICAL:
                rn = 'c19p_%s_%s' % (lg, '+'.join('%s.%s.%d' % s for s in ref_spec(lg)))
                if rn == nm:
                    fset[nm] = build_file(lg, ref_spec(lg))
    _, listfile, models = seekgraph.load_models(fset)
    byname = {x.name: x for x in models}
    exe = vlib.harness('plain', 'c19_lap')
    st = c19.new_stats(models)
    st['foreign_bos'] = {x.name: foreign_bos_offsets(x) for x in models}
    chk = vlib.Check('C19', 'replay', 'exploration')
    def run1(mm):
        line = case_line(mm, byname[mm['file']].idx, byname[mm['file2']].idx if mm['kind'] == 'X' else None)
        out = vlib.run_cases(exe, [line], ['--files', listfile], jobs=1, tag='c19r')
        print('case:    ', line)
        print('observed:', out[0])
        r = c19.parse(out[0])
        c19.judge(chk, mm, r, st)
        return r
    r = run1(m)
    bad = bool(chk.violations or st['machinery'])
    if 'err' not in r and r['rcA'] == 0 and r['rcB'] == 0 and r['D'] != '-' and invariant_hist(m['hist']) and invariant_hist(m.get('hist2', [])) and not m.get('ref'):
        rn = 'c19p_%s_%s' % (l, '+'.join('%s.%s.%d' % s for s in ref_spec(l)))
        rm = dict(m)
        rm.update({'file': rn, 'cap': 0})
        if m['kind'] == 'S':
            rm.update({'op': 'PS%d' % r['tA'], 'variant': 'PS'})
        else:
            l2 = [lg for lg in LOGICAL if m['file2'].startswith('c19p_%s_' % lg)][0]
            rm['file2'] = 'c19p_%s_%s' % (l2, '+'.join('%s.%s.%d' % s for s in ref_spec(l2)))
            if rm['file2'] not in byname:
                fset[rm['file2']] = build_file(l2, ref_spec(l2))
                _, listfile, models = seekgraph.load_models(fset)
                byname = {x.name: x for x in models}
        rr = run1(rm)
        if 'err' not in rr and not (rr['rcB'] == 0 and rr['tB'] == r['tB'] and rr['n'] == r['n'] and rr['D'] == r['D']):
            print('still fails: lap region differs from the reference layout: %s vs %s' % (r['D'], rr['D']))
            bad = True
    for key, desc, _ in chk.violations:
        print('still fails:', key, '-', desc)
    return 1 if bad else 0


def finish(chk, cov, tier):
    """evidence, assumptions and vacuity guards of the family"""
    import sys
    chk.cov['physical_layouts'] = cov
    if not cov:
        return
    if cov['layouts_gated_out']:
        print('NOTE property=C19 physical layouts not swept because a plain linear read of them does not deliver the logical stream (not the subject of C19; see docs): %s' % cov['layouts_gated_out'], file=sys.stderr)
    chk.cov['rule'] += ('; physical-layout axis: the same sweep (quick: every 2nd target on chains) on %d layouts (paging p1/p2/p3/p5/big/one/s<k segments per page> x mux none/e1/e3/run3/first/prelast/hdr x 1..2 foreign streams x read cap 0/61/1, per link of 1..3-link chains) '
                        'of %d logical streams + one ov_pcm_seek_lap reference case on the plain one-packet-per-page layout per distinct (old position, landing position) for the differential oracle' % (cov['layouts'], len(cov['logical_streams'])))
    chk.assumptions += [
        'physical-layout axis: a layout is swept only if a fresh handle reads it linearly in the same blocks and to the same length as the reference layout (that is the subject of C07/C09); layouts failing this are listed in coverage.physical_layouts.layouts_gated_out',
        'differential oracle: only old positions reached by layout-independent operations (ov_pcm_seek, ov_time_seek, their _lap forms, reads) are compared across layouts; the lap region is compared for the landing position the lapped call actually reached (page and raw variants land on layout-dependent positions), against ov_pcm_seek_lap(landing position) on the plain one-packet-per-page layout',
        'foreign pages in front of the first audio page / between the header pages are regarded as valid multiplexing (their payload is opaque to vorbisfile)']
    full = cov['completed']
    n = 1000 if tier == 'quick' else 4000
    chk.guard(len(cov['layouts_gated_out']) * 8 <= cov['layouts'], 'physical layouts: at most 1/8 of the layouts were gated out by the linear-read precondition (%d of %d)' % (len(cov['layouts_gated_out']), cov['layouts']))
    if not full:
        return
    chk.guard(cov['stepped_over_foreign_page'] >= n, 'physical layouts: >= %d sweep cases whose lap data could only be completed by stepping over a foreign page (%d)' % (n, cov['stepped_over_foreign_page']))
    chk.guard(cov['stepped_over_and_lapped_and_passed'] >= n // 2, 'physical layouts: >= %d of them lapped, had an observable lap source and passed the cross-fade oracle (%d)' % (n // 2, cov['stepped_over_and_lapped_and_passed']))
    chk.guard(cov['stepped_over_in_chain'] >= n // 8 and cov['stepped_over_crosslap'] >= n // 8, 'physical layouts: stepping over a foreign page inside the links of a chain (%d) and for ov_crosslap (%d)' % (cov['stepped_over_in_chain'], cov['stepped_over_crosslap']))
    chk.guard(all(cov['stepped_over_by_cap'].get(c, 0) >= n // 16 for c in ('0', '61', '1')), 'physical layouts: stepping over a foreign page under every read-callback cap %r' % (cov['stepped_over_by_cap'],))
    chk.guard(cov['differential_compared'] >= 10 * n and all(cov['differential_compared_by_variant'].get(v, 0) >= n // 4 for v in ('PS', 'PP', 'RS', 'TS', 'TP', 'XL')), 'physical layouts: differential oracle compared >= %d cases, every variant (%r)' % (10 * n, cov['differential_compared_by_variant']))
    chk.guard(cov['lap_fetch_called_read_callback'] >= n, 'physical layouts: >= %d cases whose lap fetch had to call the read callback (%d)' % (n, cov['lap_fetch_called_read_callback']))
    chk.guard(cov['spanning_packet_layout_cases'] >= n, 'physical layouts: cases on layouts with packets spanning pages (%d)' % cov['spanning_packet_layout_cases'])
