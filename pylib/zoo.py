"""Standard stream zoo (all generated at check time from the current tree)."""
import os, json
from vlib import mkzoo, chain, parse_pages, packets_of, write_file, zoo_dir, Page

LINK_KINDS = {
    # name: mkzoo kwargs
    'A': dict(rate=8000, ch=1, n=3000, q=0.3, sig='mix'),
    'B': dict(rate=11025, ch=2, n=2500, q=0.2, sig='sine'),
    'C': dict(rate=44100, ch=1, n=5000, q=0.1, sig='impulse'),
    'D': dict(rate=8000, ch=1, n=100, q=0.3, sig='sine'),          # audio fits in a single page
    'Z': dict(rate=8000, ch=1, n=0, q=0.3, sig='silence'),         # zero samples
    'G': dict(rate=8000, ch=1, n=2000, q=0.3, sig='mix', goff=1000),  # non-zero initial granule
    'E': dict(rate=16000, ch=2, n=2600, q=0.5, sig='noise'),
    'K': dict(rate=44100, ch=1, n=5800, q=0.1, sig='impulse'),    # 256/2048 with block switching, many packets per page in natural layout
    'M': dict(rate=44100, ch=2, n=80000, q=0.7, sig='noise'),     # ~ >64 KiB
    'N': dict(rate=44100, ch=2, n=170000, q=0.7, sig='noise'),     # ~ >128 KiB
}


def link(kind, serial, pages='natural', tag=None, **over):
    kw = dict(LINK_KINDS[kind])
    kw.update(over)
    kw['serial'] = serial
    kw['pages'] = pages
    kw['tag'] = tag or f'{kind}{serial}'
    name = f"L_{kind}_{serial}_{pages}_" + '_'.join(f'{k}{v}' for k, v in sorted(over.items()))
    return mkzoo(name, **kw)


def multiplexed(kind, serial, pages='natural', fserial=7777):
    """Link `kind` with a foreign logical stream multiplexed into it (own BOS right after ours, data pages interleaved, own EOS)."""
    p, m = link(kind, serial, pages)
    data = open(p, 'rb').read()
    pg = parse_pages(data)
    def fpage(seq, flags, body):
        lac = []
        n = len(body)
        while n >= 255:
            lac.append(255); n -= 255
        lac.append(n)
        return Page(flags, seq * 1000, fserial, seq, lac, body)
    out = [pg[0], fpage(0, 2, b'fishead\0' + bytes(56))]
    fseq = 1
    for i, q in enumerate(pg[1:]):
        last = (i == len(pg) - 2)
        if last:
            out.append(fpage(fseq, 4, b'end'))
            fseq += 1
        elif i % 2 == 1:
            out.append(fpage(fseq, 0, bytes([fseq & 255]) * (300 + 37 * fseq)))
            fseq += 1
        out.append(q)
    blob = b''.join(x.encode() for x in out)
    name = f'X_{kind}_{serial}_{pages}'
    path = write_file(name + '.ogg', blob)
    m = dict(m)
    m['bytes'] = len(blob)
    m['file'] = path
    m['foreign'] = fserial
    return path, m


def mux_split(kind, serial, per_page=2, every=5, fserial=7777, **over):
    """Encoder-made link re-paged so that every `every`-th audio packet (>= 256 bytes) is split after its first 255-byte segment: the page that
    finishes it carries nothing but the packet's tail.  A foreign logical stream is multiplexed in; at the 1st, 3rd, ... split one of its pages lies
    directly between the two halves, at the 2nd, 4th, ... none does (plain spanning)."""
    p, m = link(kind, serial, 'flush', **over)
    pg = parse_pages(open(p, 'rb').read())
    pk = packets_of(pg, m['serial'])
    aud = pk[3:]
    out = [pg[0]]
    fseq = [0]
    def lace(n):
        l = []
        while n >= 255:
            l.append(255); n -= 255
        l.append(n)
        return l
    def fpage(flags=0):
        body = b'notvorb\0' + bytes([fseq[0] & 255]) * (80 + 13 * (fseq[0] % 7))
        out.append(Page(flags, fseq[0] * 10, fserial, fseq[0], lace(len(body)), body))
        fseq[0] += 1
    fpage(2)
    out.extend(x for x in pg[1:] if x.offset < pg[aud[0][2]].offset)
    seq = [max(x.seq for x in out if x.serial == m['serial']) + 1]
    cur = {'lac': [], 'body': b'', 'g': -1, 'cont': 0}
    def flush(eos=False):
        if not cur['lac']:
            return
        out.append(Page((1 if cur['cont'] else 0) | (4 if eos else 0), cur['g'], m['serial'], seq[0], cur['lac'], cur['body']))
        seq[0] += 1
        cur.update(lac=[], body=b'', g=-1, cont=0)
    nsplit = cnt = 0
    for i, (b, g, _, _) in enumerate(aud):
        last = i == len(aud) - 1
        if i % every == every - 2 and len(b) >= 256 and not last:
            cur['lac'].append(255); cur['body'] += b[:255]
            flush()
            if nsplit % 2 == 0:
                fpage()
            cur.update(lac=lace(len(b) - 255), body=b[255:], g=g, cont=1)
            flush()
            nsplit += 1
            cnt = 0
            continue
        cur['lac'] += lace(len(b)); cur['body'] += b; cur['g'] = g
        cnt += 1
        if cnt == per_page or last:
            flush(last)
            cnt = 0
            if not last and seq[0] % 3 == 0:
                fpage()
    fpage(4)
    assert nsplit >= 2, 'no packet long enough to split'
    blob = b''.join(x.encode() for x in out)
    name = f'XS_{kind}_{serial}_{per_page}_{every}_' + '_'.join(f'{k}{v}' for k, v in sorted(over.items()))
    path = write_file(name + '.ogg', blob)
    m = dict(m)
    m.update({'file': path, 'bytes': len(blob), 'pages': len(out), 'foreign': fserial, 'splits': nsplit})
    return path, m


def big_comment(kind, serial, size, pages='3', **over):
    """Encoder-made link whose comment header is replaced by one carrying a `size`-byte entry (embedded cover art): the comment + setup headers
    then span several maximal pages.  Audio pages are kept (renumbered)."""
    import vspec
    p, m = link(kind, serial, pages, **over)
    pg = parse_pages(open(p, 'rb').read())
    pk = packets_of(pg, m['serial'])
    hdr, aud = pk[:3], pk[3:]
    # (the vendor string is kept: the chain harness compares it with the link decoded on its own)
    vlen = int.from_bytes(hdr[1][0][7:11], 'little')
    com = vspec.pack_comment(hdr[1][0][11:11 + vlen], [b'TITLE=' + (m.get('tag') or 'x').encode(), b'COVERART=' + bytes((i * 7 + 1) % 251 + 1 for i in range(size))])[0]
    out = [pg[0]]
    out += pages_spanning([com, hdr[2][0]], m['serial'], [0, 0], 255, seq0=1)
    out[-1].flags &= ~4                      # pages_spanning marks its last page EOS
    first_audio = aud[0][3]
    seq = out[-1].seq + 1
    for x in pg[first_audio:]:
        if x.serial != m['serial']:
            continue
        y = x.copy()
        y.seq = seq
        seq += 1
        out.append(y)
    blob = b''.join(x.encode() for x in out)
    name = f'BC_{kind}_{serial}_{size}_{pages}_' + '_'.join(f'{k}{v}' for k, v in sorted(over.items()))
    path = write_file(name + '.ogg', blob)
    m = dict(m)
    m.update({'file': path, 'bytes': len(blob), 'pages': len(out), 'comment_bytes': len(com), 'tag': '%s+%d' % (m.get('tag') or 'x', size)})
    return path, m


def make_chain(name, kinds, pages='natural', serial0=100):
    links = [link(k, serial0 + i, pages if not isinstance(pages, (list, tuple)) else pages[i]) for i, k in enumerate(kinds)]
    return chain(name, links)


def fileinfo(path):
    """Our own parse of the physical stream: pages, per-serial packets, fence posts."""
    data = open(path, 'rb').read()
    pages = parse_pages(data)
    return data, pages


def link_table(pages):
    """Split pages into links at BOS pages; returns list of dict(serial, first_page, last_page, offset, end)."""
    links = []
    for i, p in enumerate(pages):
        if p.flags & 2:
            if links and links[-1]['first'] == i - 0 and False:
                pass
            # a new BOS directly after another BOS page (multiplex) belongs to the same link
            if links and all(pages[j].flags & 2 for j in range(links[-1]['first'], i)):
                links[-1]['serials'].append(p.serial)
                continue
            links.append({'first': i, 'serials': [p.serial], 'offset': p.offset})
    for k, l in enumerate(links):
        l['last'] = (links[k + 1]['first'] - 1) if k + 1 < len(links) else len(pages) - 1
        l['end'] = pages[l['last']].offset + pages[l['last']].size()
    return links


def pages_spanning(packets, serial, grans, segs_per_page, seq0=0):
    """Lay packets out over pages of a fixed number of lacing segments: packets straddle page borders (continued-packet flag),
    pages on which no packet ends carry granule -1.  Last page gets EOS."""
    segs = []          # (length, packet index, is_last_segment_of_packet)
    for i, p in enumerate(packets):
        n = len(p)
        o = 0
        while True:
            l = min(255, n - o)
            segs.append((p[o:o + l], i, l < 255))
            o += l
            if l < 255:
                break
    pages = []
    seq = seq0
    for a in range(0, len(segs), segs_per_page):
        chunk = segs[a:a + segs_per_page]
        g = -1
        for (b, i, last) in chunk:
            if last:
                g = grans[i]
        flags = 0
        if a > 0 and not segs[a - 1][2]:
            flags |= 1                       # first segment continues a packet
        if a + segs_per_page >= len(segs):
            flags |= 4
        pages.append(Page(flags, g, serial, seq, [len(b) for (b, _, _) in chunk], b''.join(b for (b, _, _) in chunk)))
        seq += 1
    return pages


def synth_link(name, serial, bs0=64, bs1=128, npk=40, ch=1, rate=8000, ppp=4, pad=0, span=0, floortype=1, restype=1, fill=(7, 3), modes3=False):
    """A link written bit by bit by the specification-level synthesiser (block sizes the encoder never uses, e.g. 64-sample short blocks)."""
    import vspec, vsynth
    s = vsynth.base_setup(channels=ch, bs0=bs0, bs1=bs1, rate=rate, floortype=floortype, restype=restype, coupling=[(0, 1)] if ch == 2 else [])
    modes = [((i * 7) // 3) % 2 for i in range(npk)]
    if modes3:
        s.modes = s.modes + [vspec.Mode(1, 0)]        # a third mode (long) reached by a number that differs from its block flag
        modes = [(2 if (m and i % 3 == 0) else m) for i, m in enumerate(modes)]
    fl = vsynth.flags_for(s, modes)
    f = vsynth.Filler(fixed={'f1.nonzero': 1, 'f0.amp': lambda c, d: 1 + (c if isinstance(c, int) else 0) % 4}, a=fill[0], b=fill[1])
    pk = [vsynth.make_packet(s, m, f, pv, nx) for m, (pv, nx) in zip(modes, fl)]
    if pad:
        # trailing zero bytes are ignored by the decoder; they make packets long enough to straddle pages
        pk = [p + bytes(pad + 97 * (i % 5)) for i, p in enumerate(pk)]
    grans, total, prev = [], 0, None
    for m in modes:
        n = s.blocksize(s.modes[m].blockflag)
        if prev is not None:
            total += prev // 4 + n // 4
        prev = n
        grans.append(total)
    hs = vspec.headers(s, comments=[b'TITLE=' + name.encode()])
    def lace(b):
        l = []
        n = len(b)
        while n >= 255:
            l.append(255); n -= 255
        l.append(n)
        return l
    pages = [Page(2, 0, serial, 0, lace(hs[0]), hs[0]), Page(0, 0, serial, 1, lace(hs[1]) + lace(hs[2]), hs[1] + hs[2])]
    from vlib import pages_from_packets
    if span:
        pages += pages_spanning(pk, serial, grans, span, seq0=2)
    else:
        pages += pages_from_packets(pk, serial, grans, ppp, bos=False, eos=True, seq0=2)
    blob = b''.join(x.encode() for x in pages)
    path = write_file(name + '.ogg', blob)
    return path, {'file': path, 'rate': rate, 'ch': ch, 'n': total, 'serial': serial, 'goff': 0, 'tag': name, 'packets': npk, 'pages': len(pages), 'bytes': len(blob), 'bs0': bs0, 'bs1': bs1, 'synth': True}


def front_trimmed(kind, serial, K=62):
    """Encoder-made link re-paged so that its first audio page holds the first two audio packets and every granule position is pulled back
    by K samples: the first page's granule position is smaller than what its packets decode to, so the decoder must discard K samples at the
    start (what stream cutters produce).  Length = n - K."""
    p, m = link(kind, serial, 'flush')
    pg = parse_pages(open(p, 'rb').read())
    pk = packets_of(pg, m['serial'])
    hdr, aud = pk[:3], pk[3:]
    assert all(g != -1 for (_, g, _, _) in aud)
    out = [x for x in pg if x.offset < pg[aud[0][2]].offset]            # header pages as they are
    seq = out[-1].seq + 1
    def lace(b):
        l = []
        n = len(b)
        while n >= 255:
            l.append(255); n -= 255
        l.append(n)
        return l
    groups = [aud[0:2]] + [[a] for a in aud[2:]]
    for gi, grp in enumerate(groups):
        body = b''.join(a[0] for a in grp)
        lac = sum((lace(a[0]) for a in grp), [])
        g = max(0, grp[-1][1] - K)
        out.append(Page(4 if gi == len(groups) - 1 else 0, g, m['serial'], seq, lac, body))
        seq += 1
    blob = b''.join(x.encode() for x in out)
    name = f'T_{kind}_{serial}_{K}'
    path = write_file(name + '.ogg', blob)
    m = dict(m)
    m.update({'file': path, 'bytes': len(blob), 'n': m['n'] - K, 'pages': len(out), 'trim': K})
    return path, m


def halfrate_extra_files():
    """front-trimmed links (start discard interacts with the half-rate sample shift); a chain whose LAST link has odd length and a
    single odd-length link (ceil(N/2); link starts stay even so that 'the even position at or below the target' is well defined)"""
    return {'FT': chain('FT', [front_trimmed('A', 951, 62), front_trimmed('B', 952, 30), link('A', 953, '3')]),
            'FO': chain('FO', [link('A', 961, '3'), link('B', 962, '2', n=2501)]),
            'FO1': chain('FO1', [link('K', 963, 'natural', n=4101)])}


def halfrate_refusal_files():
    """streams on which ov_halfrate(vf,1) must be refused: some link has 64-sample short blocks"""
    out = {}
    out['F9'] = chain('F9', [synth_link('c20_s64', 901, 64, 128, 40)])
    out['F8'] = chain('F8', [link('A', 801, '3'), synth_link('c20_s64b', 802, 64, 256, 30, ch=2, rate=11025), link('B', 803, '3')])
    return out


def large_files():
    """chains with links above CHUNKSIZE (65536): the seek code switches from linear scans to real bisection and backward hops"""
    return {'FB': chain('FB', [link('M', 981, 'natural'), link('A', 982, '3'), link('N', 983, 'natural')])}


def mux_files():
    """multiplexed links with packets split over two pages (tail-only pages, foreign page between the halves or not), alone and inside a chain"""
    # FM3: a synthesised link with THREE modes (mode-number field of 2 bits, the third mode is a second long mode) after an encoder-made link:
    # everything that sizes packets without decoding them must read the same field width as the decoder
    return {'FM3': chain('FM3', [link('A', 995, '3'), synth_link('std_m3', 996, 128, 512, 48, ppp=3, modes3=True)]),
            'FX': chain('FX', [mux_split('E', 991, n=9000, q=0.8)]),
            'FX2': chain('FX2', [link('A', 992, '3'), mux_split('E', 993, per_page=3, every=4, n=9000, q=0.8), link('B', 994, '3')])}


def standard_files():
    """The C07/C08/C19/C20 file set. Returns dict name -> (path, meta)."""
    out = {}
    out['F1'] = _single('F1', 'A', 1, 'natural')
    out['F1f'] = _single('F1f', 'A', 2, 'flush')
    out['F2'] = make_chain('F2', ['A', 'B', 'C'], pages=['3', 'flush', '2'])
    out['F2z'] = make_chain('F2z', ['A', 'D', 'Z', 'B'], pages=['4', 'flush', 'flush', '3'], serial0=300)
    out['F4'] = _single('F4', 'G', 7, '3')
    # links whose whole audio sits in ONE page (first == last page), first, middle and last in a chain
    out['F5'] = chain('F5', [link('D', 501, 'natural'), link('A', 502, '4'), link('D', 503, 'natural'), link('B', 504, '3'), link('D', 505, 'natural')])
    out['F6'] = chain('F6', [multiplexed('A', 601, '3'), link('B', 602, '3')])
    # block switching with many packets per page (natural paging): sample seeks into the final page discard several packets by tracking only
    out['F7'] = chain('F7', [link('K', 711, 'natural'), link('K', 712, '8', n=4100)])
    # synthesised 64/128 link whose padded packets straddle 2-3 pages, with pages on which no packet ends (granule -1), between two encoder-made links
    out['F3'] = chain('F3', [link('D', 701, 'natural'), synth_link('std_span', 702, 64, 128, 36, pad=1400, span=4), link('B', 703, '3')])
    return out


def _single(name, kind, serial, pages):
    p, m = link(kind, serial, pages)
    return chain(name, [(p, m)])
