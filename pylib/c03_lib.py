"""C03 helpers: minimal Vorbis header bit packer (spec-level, independent of lib/), Ogg-level mutation
operators over vlib.Page lists, CRC patching by linearity, and a batch runner for harness/c03_extra.c."""
import os, struct, json, subprocess, hashlib, time, concurrent.futures as cf
import vlib
from vlib import Page, ogg_crc, parse_pages, packets_of, pages_from_packets

INT64_MAX = (1 << 63) - 1


# ------------------------------------------------------------------ bit packer (LSb first, Vorbis I section 2)
class BP:
    def __init__(self):
        self.acc = 0
        self.n = 0

    def w(self, v, bits):
        self.acc |= (v & ((1 << bits) - 1)) << self.n
        self.n += bits
        return self

    def raw(self, b):
        for x in b:
            self.w(x, 8)
        return self

    def bytes(self):
        return self.acc.to_bytes((self.n + 7) // 8, 'little')


def ilog(v):
    return v.bit_length() if v > 0 else 0


def id_header(ch=1, rate=8000, bs0=6, bs1=6, nominal=0):
    b = BP().w(1, 8).raw(b'vorbis').w(0, 32).w(ch, 8).w(rate, 32).w(0, 32).w(nominal, 32).w(0, 32).w(bs0, 4).w(bs1, 4).w(1, 1)
    return b.bytes()


def comment_header(vendor=b'c03', comments=()):
    b = BP().w(3, 8).raw(b'vorbis').w(len(vendor), 32).raw(vendor).w(len(comments), 32)
    for c in comments:
        b.w(len(c), 32).raw(c)
    b.w(1, 1)
    return b.bytes()


def pack_codebook(b, dim, entries, lengths=None, ordered=None, maptype=0, qbits=1, quant=()):
    """lengths: list of codeword lengths (all used) | ordered: (first_length, [count per length...])."""
    b.w(0x564342, 24).w(dim, 16).w(entries, 24)
    if ordered is not None:
        first, counts = ordered
        b.w(1, 1).w(first - 1, 5)
        i = 0
        for c in counts:
            b.w(c, ilog(entries - i))
            i += c
        assert i == entries
    else:
        b.w(0, 1).w(0, 1)
        assert len(lengths) == entries
        for l in lengths:
            b.w(l - 1, 5)
    b.w(maptype, 4)
    if maptype in (1, 2):
        b.w(0, 32).w(0, 32).w(qbits - 1, 4).w(0, 1)      # min, delta, value bits, sequence_p
        for q in quant:
            b.w(q, qbits)


def setup_header(books=None, ch=1):
    """1..n codebooks, 1 floor1 with 0 partitions, 1 residue (type 1, empty range, no stage books), 1 mapping, 1 mode (short block).
    books: list of kwargs for pack_codebook; book 0 is the residue's classification book (needs dim>=1)."""
    if books is None:
        books = [dict(dim=1, entries=2, lengths=[1, 1])]
    b = BP().w(5, 8).raw(b'vorbis').w(len(books) - 1, 8)
    for bk in books:
        pack_codebook(b, **bk)
    b.w(0, 6).w(0, 16)                                   # 1 time-domain placeholder
    b.w(0, 6).w(1, 16).w(0, 5).w(0, 2).w(5, 4)           # 1 floor, type 1, 0 partitions, multiplier 1, rangebits 5
    b.w(0, 6).w(1, 16).w(0, 24).w(0, 24).w(0, 24).w(0, 6).w(0, 8).w(0, 3).w(0, 1)   # 1 residue type 1: begin 0 end 0 psize 1, 1 class, classbook 0, cascade 0
    b.w(0, 6).w(0, 16).w(0, 1).w(0, 1).w(0, 2).w(0, 8).w(0, 8).w(0, 8)             # 1 mapping type 0: no submaps flag, no coupling, reserved, time/floor/residue 0
    b.w(0, 6).w(0, 1).w(0, 16).w(0, 16).w(0, 8)          # 1 mode: short block, window 0, transform 0, mapping 0
    b.w(1, 1)
    return b.bytes()


def tiny_link(serial, npk=6, ch=1, rate=8000, books=None, ppp=2, bs=6, eos=True, comments=(b'TITLE=t',)):
    """A complete spec-valid link of a few hundred bytes: 3 headers + npk one-byte audio packets (all channels 'floor unused'
    => silence), 2^bs/2 samples per packet after the first.  Returns list of Pages."""
    heads = [id_header(ch, rate, bs, bs), comment_header(comments=comments), setup_header(books, ch)]
    audio = [b'\x00'] * npk
    half = (1 << bs) // 2
    grans = [0, 0, 0] + [max(0, i) * half for i in range(npk)]
    layout = [1, 2]
    n = npk
    while n > 0:
        layout.append(min(ppp, n))
        n -= ppp
    return pages_from_packets(heads + audio, serial, grans, layout, bos=True, eos=eos)


def blob(pages):
    return b''.join(p.encode() for p in pages)


# ------------------------------------------------------------------ CRC patching by linearity
_T = vlib._crc_table


def crc_contrib(length):
    """C[d][bit] = Ogg CRC (init 0, no final xor => linear) of a message whose only non-zero byte is 1<<bit, d bytes before the end."""
    row = [_T[1 << b] for b in range(8)]
    out = [row]
    for _ in range(length - 1):
        row = [((c << 8) & 0xffffffff) ^ _T[c >> 24] for c in row]
        out.append(row)
    return out


def patch_crc(crc, contrib, dist, delta):
    b = 0
    while delta:
        if delta & 1:
            crc ^= contrib[dist][b]
        delta >>= 1
        b += 1
    return crc


# ------------------------------------------------------------------ page-level mutation operators
def _garbage(n, seed):
    out = bytearray()
    x = (seed * 2654435761 + 12345) & 0xffffffff
    for _ in range(n):
        x = (x * 1103515245 + 12345) & 0xffffffff
        v = (x >> 16) & 0xff
        if v == 0x4f:      # never synthesise a capture pattern by accident ('O')
            v = 0x50
        out.append(v)
    return bytes(out)


def junk_fill(kind, n, seed=1):
    """n bytes replacing a run of pages: 'zero', 'ff', or 'oggs' = pseudo-random garbage (never containing 'O' by itself) with a bare
    capture pattern 'OggS' followed by a plausible-looking header start every 4096 bytes (libogg must reject each by CRC)."""
    if kind == 'zero':
        return bytes(n)
    if kind == 'ff':
        return b'\xff' * n
    g = bytearray(_garbage(n, seed))
    for o in range(100, n - 32, 4096):
        g[o:o + 4] = b'OggS'
        g[o + 4] = 0                      # stream structure version 0 so that libogg goes on to the CRC
        g[o + 26] = 3 + (o // 4096) % 200  # some segments
    return bytes(g)


def hole_items(pages, first, last, kind, n):
    """pages[first..last] (inclusive) replaced by n junk bytes"""
    return list(pages[:first]) + [junk_fill(kind, n, first)] + list(pages[last + 1:])


PAGE_OPS = ['drop', 'dup', 'swap', 'toend', 'gran-1', 'gran0', 'gran-2', 'granmax', 'granprev-1', 'bos', 'eos', 'cont',
            'serother', 'serfresh', 'seq+1', 'seq-1', 'truncbody', 'shortlace', 'garb1', 'garb27', 'garb65307', 'oggs', 'badcrc']


def mutate_items(items, i, op, other_serial=None):
    """items: list of Page | bytes (raw chunk).  i indexes the i-th Page entry.  Returns the new item list (1 more deviation),
    or None if the operator does not apply there."""
    pidx = [k for k, it in enumerate(items) if isinstance(it, Page)]
    if i >= len(pidx):
        return None
    k = pidx[i]
    p = items[k].copy()
    pre, post = list(items[:k]), list(items[k + 1:])
    nxt = pidx[i + 1] if i + 1 < len(pidx) else None
    if op == 'drop':
        return pre + post
    if op == 'dup':
        return pre + [items[k], items[k].copy()] + post
    if op == 'swap':
        if nxt is None:
            return None
        out = list(items)
        out[k], out[nxt] = out[nxt], out[k]
        return out
    if op == 'toend':
        if nxt is None:
            return None
        return pre + post + [items[k]]
    if op.startswith('gran'):
        v = {'gran-1': -1, 'gran0': 0, 'gran-2': -2, 'granmax': INT64_MAX}.get(op)
        if op == 'granprev-1':
            if i == 0:
                return None
            v = items[pidx[i - 1]].gran - 1
        if v == p.gran:
            return None
        p.gran = v
        return pre + [p] + post
    if op in ('bos', 'eos', 'cont'):
        p.flags ^= {'bos': 2, 'eos': 4, 'cont': 1}[op]
        return pre + [p] + post
    if op == 'serother':
        if other_serial is None or other_serial == p.serial:
            return None
        p.serial = other_serial
        return pre + [p] + post
    if op == 'serfresh':
        p.serial = 0x5eed0000 + i
        return pre + [p] + post
    if op in ('seq+1', 'seq-1'):
        p.seq = (p.seq + (1 if op == 'seq+1' else -1)) & 0xffffffff
        return pre + [p] + post
    if op == 'truncbody':          # header promises more body than follows; stale CRC
        if len(p.body) < 2:
            return None
        e = p.encode()
        return pre + [e[:len(e) - len(p.body) // 2]] + post
    if op == 'shortlace':          # last segment removed consistently, CRC fixed (a truncated packet)
        if len(p.lacing) < 1:
            return None
        n = p.lacing[-1]
        p.lacing = p.lacing[:-1]
        p.body = p.body[:len(p.body) - n]
        return pre + [p] + post
    if op.startswith('garb'):
        return pre + [_garbage(int(op[4:]), i), items[k]] + post
    if op == 'oggs':
        return pre + [b'OggS', items[k]] + post
    if op == 'badcrc':
        e = bytearray(p.encode())
        e[22] ^= 0x5a
        return pre + [bytes(e)] + post
    raise ValueError(op)


def encode_items(items, cache=None):
    out = []
    for it in items:
        if isinstance(it, Page):
            # cache: {id(original Page): encoding}, built once from the (live) base page list and never extended here --
            # ids of temporary mutated pages may be recycled by the allocator, so they must not be cached
            e = cache.get(id(it)) if cache is not None else None
            out.append(e if e is not None else it.encode())
        else:
            out.append(it)
    return b''.join(out)


def paginate(packets, grans, serial, segs_per_page, bos=True, eos=True, seq0=0, header_pages=(1, 2)):
    """Own paginator that lets packets span pages: the first len(header_pages) pages hold that many whole packets each, the
    rest is cut every `segs_per_page` lacing values.  Granule of a page = granule of the last packet completed on it, else -1."""
    pages = []
    idx = 0
    seq = seq0
    for cnt in header_pages:
        lac, body = [], b''
        for _ in range(cnt):
            pk = packets[idx]
            n = len(pk)
            while n >= 255:
                lac.append(255)
                n -= 255
            lac.append(n)
            body += pk
            g = grans[idx]
            idx += 1
        pages.append(Page((2 if bos and seq == seq0 else 0), g, serial, seq, lac, body))
        seq += 1
    segs = []      # (lacing value, bytes, completes_packet_index | None)
    for j in range(idx, len(packets)):
        pk = packets[j]
        o = 0
        n = len(pk)
        while n >= 255:
            segs.append((255, pk[o:o + 255], None))
            o += 255
            n -= 255
        segs.append((n, pk[o:], j))
    cont = False
    for s in range(0, len(segs), segs_per_page):
        part = segs[s:s + segs_per_page]
        g = -1
        for l, b, done in part:
            if done is not None:
                g = grans[done]
        fl = (1 if cont else 0)
        if eos and s + segs_per_page >= len(segs):
            fl |= 4
        pages.append(Page(fl, g, serial, seq, [l for l, _, _ in part], b''.join(b for _, b, _ in part)))
        cont = part[-1][2] is None
        seq += 1
    if eos and len(segs) == 0:
        pages[-1].flags |= 4
    return pages


def tiny_spanning_link(serial, npk=6, pad=279, segs_per_page=3, ch=1, rate=8000, bs=6):
    """tiny link whose audio packets are padded (trailing bytes after the decoded bits are ignored by the codec) so that they span pages."""
    heads = [id_header(ch, rate, bs, bs), comment_header(comments=(b'TITLE=span',)), setup_header(None, ch)]
    audio = [b'\x00' + bytes([(7 * k + 1) & 0xff]) * pad for k in range(npk)]
    half = (1 << bs) // 2
    grans = [0, 0, 0] + [max(0, i) * half for i in range(npk)]
    return paginate(heads + audio, grans, serial, segs_per_page)


def other_serial_for(pages, i):
    """A serial number of ANOTHER link/stream in the same file (first one differing), or None."""
    for q in pages:
        if q.serial != pages[i].serial:
            return q.serial
    return None


# ------------------------------------------------------------------ CRC-fixed payload byte substitutions
def payload_positions(pages, serial, npackets):
    """File offsets (page index, offset inside the encoded page) of every payload byte of the first `npackets` packets of `serial`."""
    out = []
    pk = 0
    for pi, p in enumerate(pages):
        if p.serial != serial:
            continue
        o = 27 + len(p.lacing)
        for l in p.lacing:
            if pk < npackets:
                out.extend((pi, o + k, pk) for k in range(l))
            o += l
            if l < 255:
                pk += 1
        if pk >= npackets:
            break
    return out


def byte_substitutions(data, pages, serial, npackets, values=('00', 'ff', 'x01', 'x80')):
    """Yields (name, blob): every single-byte substitution in the payload of the first npackets packets, page CRC re-fixed."""
    pos = payload_positions(pages, serial, npackets)
    contrib = {}
    for pi, off, pk in pos:
        p = pages[pi]
        L = p.size()
        if L not in contrib:
            contrib[L] = crc_contrib(L)
        C = contrib[L]
        base = p.offset
        old = data[base + off]
        oldcrc = struct.unpack('<I', data[base + 22:base + 26])[0]
        for v in values:
            new = {'00': 0, 'ff': 0xff, 'x01': old ^ 1, 'x80': old ^ 0x80}[v]
            if new == old:
                continue
            crc = patch_crc(oldcrc, C, L - 1 - off, old ^ new)
            b = bytearray(data)
            b[base + off] = new
            b[base + 22:base + 26] = struct.pack('<I', crc)
            yield (f'pk{pk}@{base + off}={v}', bytes(b))


# ------------------------------------------------------------------ runner
def run_batches(exe, listfile, cases, timeout_s=10, jobs=None, chunk=400, tag='c03', deadline=None):
    """cases: list of case strings (without index).  Shards into chunks of `chunk` consecutive cases (consecutive cases share
    files, the executor loads files lazily), runs `jobs` executor processes at a time.  A process that dies is restarted on the
    rest of its chunk: 'DIED rc=.. <stderr tail>' is attributed to the first unanswered case, a TIMEOUT line to the case that
    printed it.  Deterministic: results are placed by case index."""
    jobs = jobs or vlib.NPROC
    n = len(cases)
    res = [None] * n
    tmp = os.path.join(vlib.BUILD, 'tmp')
    os.makedirs(tmp, exist_ok=True)
    chunks = [list(range(s, min(n, s + chunk))) for s in range(0, n, chunk)]

    def work(ci):
        idxs = chunks[ci]
        pos = 0
        if deadline is not None and time.time() > deadline:
            for i in idxs:
                res[i] = 'SKIPPED'      # time cap: chunk not started (reported as exhaustive:false by the caller)
            return True
        while pos < len(idxs):
            cfile = os.path.join(tmp, f'{tag}.{os.getpid()}.{ci}.cases')
            with open(cfile, 'w') as f:
                for i in idxs[pos:]:
                    f.write(f'{i} {cases[i]}\n')
            p = subprocess.run([exe, '--cases', cfile, '--files', listfile, '--timeout', str(timeout_s)], stdout=subprocess.PIPE, stderr=subprocess.PIPE, env=vlib.run_env())
            got = 0
            timed_out = False
            for line in p.stdout.decode('latin-1').splitlines():
                if not line or not line[0].isdigit():
                    continue
                sp = line.split(' ', 1)
                i = int(sp[0])
                res[i] = sp[1] if len(sp) > 1 else ''
                got += 1
                if res[i].startswith('TIMEOUT'):
                    timed_out = True
            os.unlink(cfile)
            if timed_out:
                err = p.stderr.decode('latin-1')
                cut = err.find('WATCHDOG:')
                if cut >= 0:
                    res[idxs[pos + got - 1]] = 'TIMEOUT ' + json.dumps(err[cut:cut + 1500])
            if got >= len(idxs) - pos:
                break
            if timed_out:
                pos += got          # the TIMEOUT line answered its case; continue behind it
                continue
            bad = idxs[pos + got]
            err = p.stderr.decode('latin-1')
            cut = min([x for x in (err.find('ERROR: AddressSanitizer'), err.find('runtime error:')) if x >= 0] or [max(0, len(err) - 2500)])
            cut = max(0, err.rfind('\n', 0, cut) + 1)
            res[bad] = 'DIED rc=%d %s' % (p.returncode, json.dumps(err[cut:cut + 2500]))
            pos += got + 1
        return True

    with cf.ThreadPoolExecutor(max_workers=jobs) as ex:
        list(ex.map(work, range(len(chunks))))
    return res


def parse_result(r):
    """'O=.. R=.. F=.. B=.. C=.. L=..' -> dict, or {'raw': r} for TIMEOUT/DIED/None."""
    if r is None:
        return {'raw': 'NOOUTPUT'}
    if r.startswith('TIMEOUT'):
        return {'raw': 'TIMEOUT', 'stack': r[8:]}
    if not r.startswith('O='):
        return {'raw': r}
    d = {}
    for t in r.split(' '):
        k, _, v = t.partition('=')
        d[k] = v
    d['O'] = int(d['O'])
    d['R'] = [] if d['R'] == '-' else d['R'].split(',')
    d['F'] = [] if d['F'] == '-' else d['F'].split(',')
    d['B'] = int(d['B'])
    d['C'] = int(d['C'])
    d['L'] = int(d['L'])
    return d
