"""C15 geometry family: enumerated grids aimed at the arithmetic that maps sample rate / quality / lowpass to residue and psychoacoustic
geometry (vorbis_encode_setup_init -> floor n, residue begin/end, psy tables).  Every member is set up on the real library and taken through
the whole encode stage (executor case 'L' of harness/c15_setup.c).  Pure enumeration: no randomness, order fixed.

 family 'lp'   : every encoder template family (channel class x rate band, coupled and uncoupled, VBR and managed) x a dense sweep of
                 OV_ECTL_LOWPASS_SET values expressed relative to the Nyquist frequency + the absolute values at the request's clamps
 family 'rate' : no request; channels {1,2,6} x every rate on a regular lattice over 8000..200000 (+-1 around every table boundary) x qualities
 family 'q'    : no request; 6ch/44100, 6ch/48000, 2ch/44100 x a dense quality lattice over -0.1..1.0
"""
import math

BOUNDARIES = [8000, 9000, 15000, 19000, 26000, 40000, 50000, 70000, 200000]       # samplerate_min/max_restriction of the set-up templates
BAND_RATES = [6000, 8000, 11025, 16000, 22050, 32000, 44100, 48000, 64000, 96000]  # one or two per band (XX [Nyquist 3 kHz: above the 2 kHz clamp of the request], 8, 11, 16, 22, 32, 44, 44, X / 5.1 upper part, X)
NTEMPLATES = 17          # {stereo, uncoupled} x {XX, 8, 11, 16, 22, 32, 44, X} + 5.1


def ftxt(x):
    """shortest decimal text that reads back as the same double"""
    return repr(float(x))


def nominal(ch, rate):
    return (20000 if rate < 26000 else 40000) * ch


def lattice(lo, hi, step, scale):
    """lo..hi inclusive in steps of `step`, all in integer units of 1/scale (exact, no float accumulation)"""
    a, b, s = round(lo * scale), round(hi * scale), round(step * scale)
    return [k / scale for k in range(a, b + 1, s)]


def lp_fractions(dense, tier):
    """lowpass / Nyquist values of the sweep"""
    if not dense:
        f = [0.5, 0.9, 0.95, 0.98] + lattice(0.985, 1.0, 0.0025, 10000) + [0.9995, 1.001, 1.5, 2.0]
    elif tier == 'quick':
        f = [0.5, 0.9, 0.95, 0.97, 0.98] + lattice(0.985, 1.0, 0.0005, 10000) + [1.0 - 1e-9, 1.0 + 1e-9, 1.001, 1.5, 2.0]
    else:
        f = ([0.05, 0.1, 0.25, 0.5, 0.6, 0.7, 0.8, 0.9, 0.95, 0.96, 0.97] + lattice(0.98, 1.0, 0.00025, 100000) + lattice(0.999, 1.0, 0.00005, 100000)
             + [1.0 - 1e-6, 1.0 - 1e-9, 1.0 - 1e-12, 1.0 + 1e-12, 1.0 + 1e-9, 1.0 + 1e-6, 1.0001, 1.001, 1.01, 1.1, 1.5, 2.0, 4.0])
    return sorted(set(f))


def lp_absolute(dense, tier):
    """absolute kHz values at the limits the request clamps to (2 and 99 kHz) and outside them"""
    if not dense:
        return [1.999, 2.0, 99.0, 99.001]
    a = [-1.0, 0.0, 1.999, 2.0, 2.001, 98.999, 99.0, 99.001, 1e300]
    if tier != 'quick':
        a += [-1e300, 1e-300, 1.0, 2.0 - 1e-12, 2.0 + 1e-12, 99.0 - 1e-9, 99.0 + 1e-9, 100.0, 1e6]
    return a


def lowpass_values(rate, dense, tier):
    """[(kHz text, fraction of Nyquist or None)]"""
    out, seen = [], set()
    nyq_khz = rate / 2000.0
    vals = [(f * nyq_khz, f) for f in lp_fractions(dense, tier)]
    vals += [(math.nextafter(nyq_khz, 0.0), 1.0), (math.nextafter(nyq_khz, math.inf), 1.0)]     # the neighbours of 'exactly Nyquist'
    vals += [(a, None) for a in lp_absolute(dense, tier)]
    for v, f in vals:
        t = ftxt(v)
        if t not in seen:
            seen.add(t)
            out.append((t, f))
    return out


def line(managed, path, ch, rate, qn, cpl, lp):
    return 'L %d %d %d %d %s %d %s 0' % (managed, path, ch, rate, qn, cpl, lp)


def lp_family(tier):
    """-> [(case line, meta)]"""
    out = []
    if tier == 'quick':
        chans, rates, vq = [1, 2, 3, 6, 7], BAND_RATES, ['0.5']
    else:
        chans, rates, vq = [1, 2, 3, 5, 6, 7, 16], BAND_RATES + [192000], ['-0.1', '0.1', '0.5', '0.9']
    for ch in chans:
        for rate in rates:
            own_template = (ch == 2) or (ch == 6 and 40000 <= rate <= 70000)       # coupled templates: stereo per band, 5.1
            for managed in (0, 1):
                for cpl in (-1, 0):
                    if tier == 'quick' and cpl == 0 and ch not in (1, 2, 6):
                        continue    # quick: OV_ECTL_COUPLING_SET 0 on 3 / 7 channels re-selects the uncoupled template they already have (as for 1 channel); thorough has them
                    if tier == 'quick':
                        # quick: the full sweep on every template once (1 channel = all uncoupled templates, 2 = all stereo ones, 6 = 5.1; VBR and, for the
                        # coupled ones, managed); the remaining combinations (other channel counts on the same templates, coupling switched off) coarse
                        dense = (cpl == -1) and ((ch == 1 and not managed) or own_template)
                    for q in (vq if not managed else [str(nominal(ch, rate))]):
                        if tier != 'quick':
                            # thorough: the full (finer) sweep on every template at every quality, coupled and uncoupled (1 channel, 2 channels, 5.1), and for
                            # every other channel count at q 0.5 and managed; the rest coarse
                            dense = ch == 1 or own_template or (cpl == -1 and (managed or q == '0.5'))
                        for lp, frac in lowpass_values(rate, dense, tier):
                            out.append((line(managed, 1, ch, rate, q, cpl, lp), {'fam': 'lp', 'ch': ch, 'rate': rate, 'managed': managed, 'cpl': cpl, 'frac': frac, 'dense': dense}))
    return out


def sweep_rates(tier):
    step = 500 if tier == 'quick' else 100
    r = set(range(8000, 200001, step))
    for b in BOUNDARIES:
        r |= {b - 1, b, b + 1}      # 7999 (template XX) and 200001 (no template: refused) included
    return sorted(r)


def rate_family(tier):
    out = []
    quals = ['0.1', '0.5', '0.9'] if tier == 'quick' else ['-0.1', '0.1', '0.3', '0.5', '0.9']
    for ch in (1, 2, 6):
        for rate in sweep_rates(tier):
            for q in quals:
                out.append((line(0, 0, ch, rate, q, -1, '-'), {'fam': 'rate', 'ch': ch, 'rate': rate, 'managed': 0, 'cpl': -1, 'frac': None}))
            if tier != 'quick':
                out.append((line(1, 0, ch, rate, str(nominal(ch, rate)), -1, '-'), {'fam': 'rate', 'ch': ch, 'rate': rate, 'managed': 1, 'cpl': -1, 'frac': None}))
    return out


def sweep_quals(tier):
    """quality values in units of 1e-4 (exact integers), -0.1 .. 1.0"""
    if tier != 'quick':
        q = set(range(-1000, 10001, 10))                       # 0.001
        q |= set(range(4500, 5501, 1))                         # 0.0001 in [0.45, 0.55]
        for t in range(-1000, 10001, 1000):
            q |= set(range(t - 30, t + 31, 1))                 # 0.0001 around every tenth (the interpolation tables switch segment there)
    else:
        q = set(range(-1000, 10001, 50))                       # 0.005
        q |= set(range(4500, 5501, 5))                         # 0.0005 in [0.45, 0.55]
        for t in range(-1000, 10001, 1000):
            q |= set(range(t - 20, t + 21, 5))                 # 0.0005 around every tenth
    return ['%.4f' % (k / 10000.0) for k in sorted(q) if -1000 <= k <= 10000]


def q_family(tier):
    out = []
    for ch, rate in ((6, 44100), (6, 48000), (2, 44100)):
        for q in sweep_quals(tier):
            out.append((line(0, 1, ch, rate, q, -1, '-'), {'fam': 'q', 'ch': ch, 'rate': rate, 'managed': 0, 'cpl': -1, 'frac': None, 'q': q}))
    return out


def all_cases(tier):
    """the three sub-families"""
    out = []
    for f in (lp_family(tier), rate_family(tier), q_family(tier)):
        out += f
    return out


def spread(lst):
    """fixed permutation i -> i*K mod N (K coprime to N, near the golden section of N): every prefix is spread over the whole list"""
    n = len(lst)
    if n < 3:
        return list(lst)
    k = max(1, int(n * 0.6180339887))
    while math.gcd(k, n) != 1:
        k += 1
    return [lst[(i * k) % n] for i in range(n)]


def ordered_cases(tier):
    """thorough: the quick members first (so that a run cut by its deadline has at least covered those), then the members only thorough has"""
    if tier == 'quick':
        return all_cases('quick'), None
    first = all_cases('quick')
    have = {l for l, m in first}
    fams = [spread([(l, m) for l, m in f if l not in have]) for f in (lp_family(tier), rate_family(tier), q_family(tier))]
    # the three sub-families in proportion, each in a fixed stride order: a cut run has then covered a thinned version of every grid, not a corner of the first
    rest, keyed = [], []
    for fi, f in enumerate(fams):
        keyed += [((i + 0.5) / len(f), fi, i) for i in range(len(f))]
    for _, fi, i in sorted(keyed):
        rest.append(fams[fi][i])
    return first + rest, len(first)


def geometry_key(geo):
    """'<template>/<bs0.bs1>/f<floor n..>/r<type.grouping.begin-end_...>' -> (template, blocksizes, residue ends): drops the floor n"""
    p = geo.split('/')
    return (p[0], p[1], p[3]) if len(p) >= 4 else (geo,)
