/* Common harness machinery: scripted in-memory data source, wrapped allocator,
 * hashing, fork isolation with watchdog.  Header-only; include once per TU. */
#ifndef VERIF_COMMON_H
#define VERIF_COMMON_H
#define _GNU_SOURCE
#include <stdio.h>
#include <stdlib.h>
#include <string.h>
#include <stdint.h>
#include <errno.h>
#include <unistd.h>
#include <signal.h>
#include <sys/wait.h>
#include <sys/time.h>
#include <sys/resource.h>
#include <ogg/ogg.h>
#include <vorbis/codec.h>
#include <vorbis/vorbisenc.h>
#include <vorbis/vorbisfile.h>

/* ---------------------------------------------------------------- hashing */
typedef struct { uint64_t a, b; } h128;
static inline void h_init(h128 *h){ h->a=0xcbf29ce484222325ULL; h->b=0x9ae16a3b2f90404fULL; }
static inline void h_bytes(h128 *h,const void *p,size_t n){
  const unsigned char *c=(const unsigned char*)p; size_t i;
  for(i=0;i<n;i++){ h->a=(h->a^c[i])*0x100000001b3ULL; h->b=(h->b^c[i])*0xc6a4a7935bd1e995ULL; h->b^=h->b>>29; }
}
static inline void h_i64(h128 *h,int64_t v){ h_bytes(h,&v,8); }
static inline void h_tag(h128 *h,const char *s){ h_bytes(h,s,strlen(s)+1); }
static inline void h_hex(const h128 *h,char *out){ sprintf(out,"%016llx%016llx",(unsigned long long)h->a,(unsigned long long)h->b); }

/* ------------------------------------------------------- wrapped allocator */
/* linked with -Wl,--wrap=malloc,--wrap=calloc,--wrap=realloc,--wrap=free */
void *__real_malloc(size_t); void *__real_calloc(size_t,size_t);
void *__real_realloc(void*,size_t); void __real_free(void*);
#ifndef WA_SLOTS
#define WA_SLOTS (1<<16)
#endif
typedef struct { void *p; size_t n; } wa_ent;
static wa_ent wa_tab[WA_SLOTS];
static long wa_live_bytes=0, wa_live_blocks=0, wa_peak_bytes=0, wa_calls=0;
static int wa_on=0;            /* tracking enabled */
static int wa_fill=-1;         /* -1: no fill; else byte pattern for fresh / freed memory */
static long wa_fail_at=-1;     /* allocation call index that returns NULL (-1: never) */
static int wa_overflow=0;
static void (*wa_hook)(void)=0;  /* optional scheduling hook */
static inline size_t wa_slot(void *p){ return (size_t)((((uintptr_t)p)>>4)*0x9E3779B97F4A7C15ULL>>48)&(WA_SLOTS-1); }
static void wa_add(void *p,size_t n){
  size_t s=wa_slot(p),k;
  for(k=0;k<WA_SLOTS;k++){ size_t i=(s+k)&(WA_SLOTS-1); if(!wa_tab[i].p||wa_tab[i].p==(void*)1){ wa_tab[i].p=p; wa_tab[i].n=n; wa_live_bytes+=n; wa_live_blocks++; if(wa_live_bytes>wa_peak_bytes)wa_peak_bytes=wa_live_bytes; return; } }
  wa_overflow=1;
}
static long wa_del(void *p){
  size_t s=wa_slot(p),k;
  for(k=0;k<WA_SLOTS;k++){ size_t i=(s+k)&(WA_SLOTS-1); if(!wa_tab[i].p)return -1; if(wa_tab[i].p==p){ long n=wa_tab[i].n; wa_tab[i].p=(void*)1; wa_live_bytes-=n; wa_live_blocks--; return n; } }
  return -1;
}
/* ---- instrumented Ogg page accessors.  libogg is a system binary without sanitizer instrumentation, so a stale ogg_page (header
 * pointing into sync-buffer storage that has been compacted or reallocated since) read through libogg's own accessors is invisible
 * to ASan.  The library's calls are routed (link-time --wrap, like the allocator) to these copies, which are compiled with the
 * harness and therefore checked.  Same results as libogg 1.3.x framing.c. */
int __wrap_ogg_page_version(const ogg_page *og){ return (int)(og->header[4]); }
int __wrap_ogg_page_continued(const ogg_page *og){ return (int)(og->header[5]&0x01); }
int __wrap_ogg_page_bos(const ogg_page *og){ return (int)(og->header[5]&0x02); }
int __wrap_ogg_page_eos(const ogg_page *og){ return (int)(og->header[5]&0x04); }
ogg_int64_t __wrap_ogg_page_granulepos(const ogg_page *og){
  unsigned char *page=og->header; ogg_uint64_t g=page[13]&(0xff); int i;
  for(i=12;i>=6;i--)g=(g<<8)|(page[i]&0xff);
  return (ogg_int64_t)g;
}
int __wrap_ogg_page_serialno(const ogg_page *og){
  return (int)((ogg_uint32_t)og->header[14]|((ogg_uint32_t)og->header[15]<<8)|((ogg_uint32_t)og->header[16]<<16)|((ogg_uint32_t)og->header[17]<<24));
}
long __wrap_ogg_page_pageno(const ogg_page *og){
  return (long)((ogg_uint32_t)og->header[18]|((ogg_uint32_t)og->header[19]<<8)|((ogg_uint32_t)og->header[20]<<16)|((ogg_uint32_t)og->header[21]<<24));
}
int __wrap_ogg_page_packets(const ogg_page *og){ int i,n=og->header[26],count=0; for(i=0;i<n;i++)if(og->header[27+i]<255)count++; return count; }

void *__wrap_malloc(size_t n){
  void *p;
  if(wa_on){ if(wa_hook)wa_hook(); if(wa_calls++==wa_fail_at)return NULL; }
  p=__real_malloc(n);
  if(wa_on&&p){ wa_add(p,n); if(wa_fill>=0)memset(p,wa_fill,n); }
  return p;
}
void *__wrap_calloc(size_t a,size_t b){
  void *p;
  if(wa_on){ if(wa_hook)wa_hook(); if(wa_calls++==wa_fail_at)return NULL; }
  p=__real_calloc(a,b);
  if(wa_on&&p)wa_add(p,a*b);
  return p;
}
void __wrap_free(void *p){
  if(wa_on&&p){ long n; if(wa_hook)wa_hook(); n=wa_del(p); if(n>=0&&wa_fill>=0)memset(p,wa_fill^0x5a,n); }
  __real_free(p);
}
void *__wrap_realloc(void *p,size_t n){
  void *q; long old=-1;
  if(!wa_on)return __real_realloc(p,n);
  if(wa_hook)wa_hook();
  if(wa_calls++==wa_fail_at)return NULL;
  if(p)old=wa_del(p);
  if(wa_fill>=0&&p&&old>=0){
    /* move explicitly so that grown tail gets the fill pattern */
    q=__real_malloc(n);
    if(q){ memset(q,wa_fill,n); memcpy(q,p,(size_t)old<n?(size_t)old:n); memset(p,wa_fill^0x5a,old); __real_free(p); }
  }else q=__real_realloc(p,n);
  if(q)wa_add(q,n); else if(p&&old>=0)wa_add(p,old);
  return q;
}
static void wa_reset(void){ memset(wa_tab,0,sizeof(wa_tab)); wa_live_bytes=wa_live_blocks=wa_peak_bytes=wa_calls=0; wa_overflow=0; }

/* ------------------------------------------------ scripted data source (memio) */
enum { EV_READ=0, EV_SEEK=1, EV_TELL=2, EV_CLOSE=3 };
enum { DV_NONE=0, DV_READ_CAP, /* read returns at most arg bytes */
       DV_READ_ZERO,           /* read returns 0, errno untouched (premature EOF) */
       DV_READ_ERR,            /* read returns 0 with errno=EIO */
       DV_SEEK_FAIL,           /* seek returns -1 */
       DV_TELL_FAIL,           /* tell returns -1 */
       DV_READ_CUT             /* read stops at absolute offset arg (if it would cross it) */ };
typedef struct { long idx; int kind; long arg; int persist; } mio_dev;
typedef struct {
  const unsigned char *data; long len; long pos;
  long cap;                  /* uniform read cap (0 = none) */
  mio_dev dev[8]; int ndev;
  long npoints;              /* environment points so far (read/seek/tell calls) */
  long nread,nseek,ntell,nclose;
  long dev_hits;             /* deviations actually applied */
  int quiet;                 /* 1: script suspended (default answers) */
  int noseek;                /* stream mode bookkeeping only */
  long max_backhop;          /* largest backward seek distance seen */
  h128 log;                  /* hash of the full invocation log */
} memio;
static void mio_init(memio *m,const unsigned char *d,long n){ memset(m,0,sizeof(*m)); m->data=d; m->len=n; h_init(&m->log); }
static int mio_dev_at(memio *m,int evkind,long *arg){
  int i; long idx=m->npoints;
  if(m->quiet)return DV_NONE;
  for(i=0;i<m->ndev;i++){
    mio_dev *d=&m->dev[i]; int match=(d->persist? idx>=d->idx : idx==d->idx);
    if(!match)continue;
    if(evkind==EV_READ&&(d->kind==DV_READ_CAP||d->kind==DV_READ_ZERO||d->kind==DV_READ_ERR||d->kind==DV_READ_CUT)){ *arg=d->arg; return d->kind; }
    if(evkind==EV_SEEK&&d->kind==DV_SEEK_FAIL)return d->kind;
    if(evkind==EV_TELL&&d->kind==DV_TELL_FAIL)return d->kind;
  }
  return DV_NONE;
}
static size_t mio_read(void *ptr,size_t size,size_t nmemb,void *ds){
  memio *m=(memio*)ds; long want=(long)(size*nmemb),avail=m->len-m->pos,arg=0; int dv;
  if(avail<0)avail=0;
  if(want>avail)want=avail;
  if(m->cap>0&&want>m->cap)want=m->cap;
  dv=mio_dev_at(m,EV_READ,&arg);
  m->npoints++; m->nread++;
  if(dv==DV_READ_ZERO){ m->dev_hits++; h_i64(&m->log,-100); return 0; }
  if(dv==DV_READ_ERR){ m->dev_hits++; errno=EIO; h_i64(&m->log,-101); return 0; }
  if(dv==DV_READ_CAP&&want>arg){ want=arg; m->dev_hits++; }
  if(dv==DV_READ_CUT&&m->pos<arg&&m->pos+want>arg){ want=arg-m->pos; m->dev_hits++; }
  if(want>0)memcpy(ptr,m->data+m->pos,want);
  m->pos+=want;
  h_i64(&m->log,want);
  return (size_t)want;
}
static int mio_seek(void *ds,ogg_int64_t off,int whence){
  memio *m=(memio*)ds; long arg=0,np; int dv=mio_dev_at(m,EV_SEEK,&arg);
  m->npoints++; m->nseek++;
  if(dv==DV_SEEK_FAIL){ m->dev_hits++; h_i64(&m->log,-102); return -1; }
  if(whence==SEEK_SET)np=(long)off; else if(whence==SEEK_CUR)np=m->pos+(long)off; else np=m->len+(long)off;
  if(np<0){ h_i64(&m->log,-103); return -1; }
  if(np<m->pos&&m->pos-np>m->max_backhop)m->max_backhop=m->pos-np;
  m->pos=np; h_i64(&m->log,1000000+np);
  return 0;
}
static long mio_tell(void *ds){
  memio *m=(memio*)ds; long arg=0; int dv=mio_dev_at(m,EV_TELL,&arg);
  m->npoints++; m->ntell++;
  if(dv==DV_TELL_FAIL){ m->dev_hits++; return -1; }
  return m->pos;
}
static int mio_close(void *ds){ memio *m=(memio*)ds; m->nclose++; return 0; }
static ov_callbacks mio_cb_seekable={ mio_read, mio_seek, mio_close, mio_tell };
static ov_callbacks mio_cb_stream={ mio_read, NULL, mio_close, NULL };

/* --------------------------------------------------- file loading helper */
static unsigned char *load_file(const char *path,long *len){
  FILE *f=fopen(path,"rb"); unsigned char *b; long n;
  if(!f){ fprintf(stderr,"cannot open %s\n",path); exit(2); }
  fseek(f,0,SEEK_END); n=ftell(f); fseek(f,0,SEEK_SET);
  b=(unsigned char*)__real_malloc(n+1); if(fread(b,1,n,f)!=(size_t)n){ fprintf(stderr,"short read %s\n",path); exit(2);} fclose(f);
  *len=n; return b;
}

/* ------------------------------------------ fork isolation with a watchdog */
enum { OC_OK=0, OC_FAIL=1, OC_SIGNAL=2, OC_SANITIZER=3, OC_TIMEOUT=4, OC_EXIT=5 };
/* Runs fn(arg) in a forked child.  The child writes whatever it wants to fd `outfd`
 * (dup'ed onto its stdout).  Returns outcome class; *detail = signal / exit code. */
static int run_isolated(int (*fn)(void*),void *arg,int cpu_seconds,long stack_bytes,int *detail,int errfd){
  pid_t pid; int st;
  fflush(stdout); fflush(stderr);
  pid=fork();
  if(pid<0){ perror("fork"); exit(2); }
  if(pid==0){
    struct rlimit rl;
    if(stack_bytes>0){ rl.rlim_cur=rl.rlim_max=stack_bytes; setrlimit(RLIMIT_STACK,&rl); }
    rl.rlim_cur=cpu_seconds; rl.rlim_max=cpu_seconds+1; setrlimit(RLIMIT_CPU,&rl);
    rl.rlim_cur=rl.rlim_max=0; setrlimit(RLIMIT_CORE,&rl);
    if(errfd>=0)dup2(errfd,2);
    { int r=fn(arg); fflush(stdout); _exit(r?1:0); }
  }
  /* wall-clock guard as well: CPU limit does not catch blocking */
  {
    int waited=0;
    while(1){
      pid_t r=waitpid(pid,&st,WNOHANG);
      if(r==pid)break;
      usleep(waited<50?200:2000);
      waited++;
      if(waited>50+(cpu_seconds*3+5)*500){ kill(pid,SIGKILL); waitpid(pid,&st,0); *detail=0; return OC_TIMEOUT; }
    }
  }
  if(WIFEXITED(st)){
    int c=WEXITSTATUS(st); *detail=c;
    if(c==0)return OC_OK;
    if(c==1)return OC_FAIL;
    if(c==77)return OC_SANITIZER; /* ASAN_OPTIONS=exitcode=77 */
    return OC_EXIT;
  }
  if(WIFSIGNALED(st)){
    int s=WTERMSIG(st); *detail=s;
    if(s==SIGXCPU||s==SIGKILL)return OC_TIMEOUT;
    return OC_SIGNAL;
  }
  *detail=-1; return OC_SIGNAL;
}

/* exit interposition: "the library never terminates the calling process".
 * link with --wrap=exit,--wrap=abort when wanted; harness uses _exit directly. */

#endif
