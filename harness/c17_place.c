/* c17_place: C17 executor for the DESTINATION-BUFFER PLACEMENT axis and the FILTER-CALLBACK axis of the integer read call.
 *
 * The property speaks about "the bytes returned by the integer read call" for every format; where the caller's buffer starts is
 * the caller's business (ov_read takes a char *).  Every case here runs the real ov_read / ov_read_filter with the destination
 * at a chosen address inside one mmap'ed region
 *
 *     R ...... R+4096 = 16-byte aligned base ............................ G = R+NPAGES*4096 : one PROT_NONE page
 *     mode 0 "arena": dst = base + off  (off = 0..15), canaries in front of dst and behind dst+len
 *     mode 1 "page" : dst = G - len     (the buffer ENDS exactly at the inaccessible page: a write past the end faults, the fault is
 *                                        caught and reported as wrote_past_end_of_buffer), canaries in front of dst
 *
 * and judges the result with the reference of harness/c17_pcm.c (judge(): independent double arithmetic, either tie rule), which is
 * included here unchanged (its main() renamed).
 *
 * case lines "<idx> <kind> ..."     fmt = 0..7 : word = (fmt&4)?2:1, sgned = (fmt>>1)&1, bigendianp = fmt&1
 *   PA <path> <fmt> <len> <off> <mode> <call> [<path2>]
 *        twin read-through: the integer read on handle A (whole stream, every call with the same len at the same placement) against
 *        ov_read_float on handle B.  call: 0 ov_read | 1 ov_read_filter(filter=NULL) | 2 identity filter | 3 filter x*1.5f |
 *        4 filter -x | 5 identity filter that performs one complete ov_read on an independent handle C (opened on <path2>, own buffer,
 *        same format; rewound with ov_pcm_seek when it reaches its end) - C's bytes are judged against C's own float twin D, A's bytes
 *        against A's own floats.  Reference for 2..5: packing of filter(float) with the same C expression; over the whole walk the
 *        filter is handed exactly as many samples as frames are returned, and is called once per successful read.
 *        len < one frame of the link being read: refused (negative, 0 tolerated at end of stream), nothing written, position unchanged.
 *   PB <path> <fmt> <part> <nparts> <len> <off> <mode>   slice part/nparts of the stratified boundary float set through the filter callback
 *   PV <path> <fmt> <lo> <hi> <len> <off> <mode>         float bit patterns lo..hi-1 through the filter callback
 * result lines "<idx> ok|bad|SKIP k=v ..." (parsed by pylib/c17_place.py)                                                               */
#define main c17_pcm_main
#include "c17_pcm.c"
#undef main
#include <sys/mman.h>
#include <setjmp.h>
#include <stdint.h>

#define PG 4096
#define NPAGES 36                 /* 4096 lead + 16 + 65536 + 16 + GUARD and slack; then the inaccessible page */
#define MAXLEN (65536+16)
static unsigned char *g_R=NULL,*g_G=NULL;
static sigjmp_buf g_jb; static volatile int g_armed=0; static volatile long g_fault_off=0; static unsigned char *volatile g_dst=NULL;

static void on_segv(int sig,siginfo_t *si,void *uc){
  unsigned char *a=(unsigned char*)si->si_addr;
  (void)uc;
  if(g_armed&&a>=g_G&&a<g_G+PG){ g_armed=0; g_fault_off=(long)(a-g_dst); siglongjmp(g_jb,1); }
  signal(sig,SIG_DFL);            /* anything else: die on the re-executed access; run_cases attributes the death to this case */
}
static void region_init(void){
  struct sigaction sa;
  if(g_R)return;
  g_R=(unsigned char*)mmap(NULL,(size_t)(NPAGES+1)*PG,PROT_READ|PROT_WRITE,MAP_PRIVATE|MAP_ANONYMOUS,-1,0);
  if(g_R==MAP_FAILED){ fprintf(stderr,"mmap failed\n"); exit(2); }
  g_G=g_R+(size_t)NPAGES*PG;
  if(mprotect(g_G,PG,PROT_NONE)){ fprintf(stderr,"mprotect failed\n"); exit(2); }
  memset(&sa,0,sizeof(sa)); sa.sa_sigaction=on_segv; sa.sa_flags=SA_SIGINFO|SA_NODEFER; sigemptyset(&sa.sa_mask);
  sigaction(SIGSEGV,&sa,NULL); sigaction(SIGBUS,&sa,NULL);
}
/* checked window of a placement: [lo,hi) around dst, canary value by offset from R */
typedef struct { unsigned char *dst,*lo,*hi; int len,mode; } place;
static int place_make(place *p,int len,int off,int mode){
  region_init();
  if(len<0||len>MAXLEN||off<0||off>15||(mode!=0&&mode!=1))return -1;
  p->len=len; p->mode=mode;
  if(mode==0){ p->dst=g_R+PG+off; p->hi=p->dst+len+GUARD; }
  else{ p->dst=g_G-len; p->hi=g_G; if((int)((uintptr_t)p->dst&15)!=off)return -2; }
  p->lo=p->dst-GUARD;
  { unsigned char *q; for(q=p->lo;q<p->hi;q++)*q=canary((long)(q-g_R)); }
  g_dst=p->dst;
  return 0;
}
/* first byte in [a,b) that is not its canary, as an offset from dst; LONG_MIN if none */
#define NONE (-2147483647L-1)
static long place_touched(const place *p,const unsigned char *a,const unsigned char *b){ const unsigned char *q; for(q=a;q<b;q++)if(*q!=canary((long)(q-g_R)))return (long)(q-p->dst); return NONE; }
static void place_restore(const place *p,long n){ long k; if(n>p->len)n=p->len; for(k=0;k<n;k++)p->dst[k]=canary((long)(p->dst+k-g_R)); }

/* ------------------------------------------------------------------ filters of the callback axis */
typedef struct {
  int call; long calls,samples,chan_mismatch,ch;
  /* call 5: the independent handle */
  OggVorbis_File *C,*D; unsigned char *obuf; int ofmt; tally ot; long oreads,oframes,orewinds,ozero; char owhat[200];
} pfilt;
#define OLEN 4096
static inline float pf_apply(int call,float x){ return call==3?x*1.5f:(call==4?-x:x); }
static void other_read(pfilt *g){
  int word=(g->ofmt&4)?2:1,sgned=(g->ofmt>>1)&1,be=g->ofmt&1,bs=-1,ch,frame; long r,k,fr,got=0; ogg_int64_t pc;
  if(g->owhat[0])return;
  pc=ov_pcm_tell(g->C); ch=chans_at(g->C,pc); frame=word*ch;
  for(k=0;k<GUARD+OLEN+GUARD;k++)g->obuf[k]=canary(k);
  r=ov_read(g->C,(char*)g->obuf+GUARD,OLEN,be,word,sgned,&bs);
  if(r<0){ snprintf(g->owhat,sizeof(g->owhat),"other_handle_read_error:%ld:pos%ld",r,(long)pc); return; }
  if(r==0){
    g->ozero++;
    if(first_touched(g->obuf,0,GUARD+OLEN+GUARD)>=0){ snprintf(g->owhat,sizeof(g->owhat),"other_handle_eof_but_wrote"); return; }
    if(ov_pcm_seek(g->C,0)||ov_pcm_seek(g->D,0)){ snprintf(g->owhat,sizeof(g->owhat),"other_handle_rewind_failed"); return; }
    g->orewinds++; return;
  }
  if(r>OLEN||r%frame){ snprintf(g->owhat,sizeof(g->owhat),"other_handle_retval:%ld:frame%d",r,frame); return; }
  if(first_touched(g->obuf,0,GUARD)>=0||first_touched(g->obuf,GUARD+r,GUARD+OLEN+GUARD)>=0){ snprintf(g->owhat,sizeof(g->owhat),"other_handle_wrote_outside:ret%ld",r); return; }
  fr=r/frame;
  if(ov_pcm_tell(g->C)!=pc+fr){ snprintf(g->owhat,sizeof(g->owhat),"other_handle_tell_advance:%ld+%ld!=%ld",(long)pc,fr,(long)ov_pcm_tell(g->C)); return; }
  while(got<fr){
    float **pp; int b2; long j,c,nb=ov_read_float(g->D,&pp,(int)(fr-got),&b2);
    if(nb<=0){ snprintf(g->owhat,sizeof(g->owhat),"other_handle_float_twin_short:%ld",nb); return; }
    for(j=0;j<nb;j++)for(c=0;c<ch;c++){ uint32_t bits; memcpy(&bits,&pp[c][j],4);
      if(judge(bits,word,sgned,be,g->obuf+GUARD+((got+j)*ch+c)*word,&g->ot)==2&&!g->owhat[0])snprintf(g->owhat,sizeof(g->owhat),"other_handle_value:pos%ld:frame%ld:ch%ld:bits%08x",(long)pc,got+j,c,bits); }
    got+=nb;
  }
  g->oreads++; g->oframes+=fr;
}
static void pf_filter(float **pcm,long channels,long samples,void *param){
  pfilt *g=(pfilt*)param; long c,j;
  g->calls++; g->samples+=samples; if(channels!=g->ch)g->chan_mismatch++;
  if(g->call==3||g->call==4)for(c=0;c<channels;c++)for(j=0;j<samples;j++)pcm[c][j]=pf_apply(g->call,pcm[c][j]);
  if(g->call==5)other_read(g);
}

/* ------------------------------------------------------------------ PA: twin read-through at a placement */
static void run_place(long idx,const char *path,int fmt,int len,int off,int mode,int call,const char *path2){
  int word=(fmt&4)?2:1,sgned=(fmt>>1)&1,be=fmt&1; fent *f=get_file(path),*f2=NULL; memio ma,mb,mc,md; OggVorbis_File A,B,C,D; tally t; char what[260]; place p; pfilt g;
  long reads=0,rej=0,frames_total=0,flush=0,tight=0,maxch=0,minch=999,step=0,multi=0; ogg_int64_t total; float *tmp; long tmpcap=255*128; int faulted=0,prc;
  memset(&t,0,sizeof(t)); memset(&g,0,sizeof(g)); what[0]=0; t.envelope=1; g.ot.envelope=1; g.call=call; g.ofmt=fmt;
  if(call<0||call>5||(call==5&&!path2)||(prc=place_make(&p,len,off,mode))!=0){ printf("%ld bad what=badcase\n",idx); return; }
  tmp=(float*)__real_malloc(sizeof(float)*tmpcap);
  mio_init(&ma,f->data,f->len); mio_init(&mb,f->data,f->len);
  if(ov_open_callbacks(&ma,&A,NULL,0,mio_cb_seekable)<0){ printf("%ld bad what=openA\n",idx); return; }
  if(ov_open_callbacks(&mb,&B,NULL,0,mio_cb_seekable)<0){ printf("%ld bad what=openB\n",idx); ov_clear(&A); return; }
  if(call==5){
    f2=get_file(path2); mio_init(&mc,f2->data,f2->len); mio_init(&md,f2->data,f2->len);
    if(ov_open_callbacks(&mc,&C,NULL,0,mio_cb_seekable)<0||ov_open_callbacks(&md,&D,NULL,0,mio_cb_seekable)<0){ printf("%ld bad what=openCD\n",idx); return; }
    g.C=&C; g.D=&D; g.obuf=(unsigned char*)__real_malloc(GUARD+OLEN+GUARD+SLACK);
  }
  total=ov_pcm_total(&A,-1);
  while(!what[0]){
    ogg_int64_t pa=ov_pcm_tell(&A),pb=ov_pcm_tell(&B),pa2; int ateof,ch,frame,bs=-1; long r=0,k,calls0=g.calls;
    if(pa!=pb){ snprintf(what,sizeof(what),"twin_positions_differ:%ld:%ld",(long)pa,(long)pb); break; }
    ateof=(pa>=total); ch=chans_at(&A,pa); frame=word*ch; if(ch>maxch)maxch=ch; if(ch<minch)minch=ch;
    g.ch=ch;
    if(sigsetjmp(g_jb,1)){ faulted=1; snprintf(what,sizeof(what),"wrote_past_end_of_buffer:fault_at_off%ld:len%d:frame%d:pos%ld",(long)g_fault_off,len,frame,(long)pa); break; }
    g_armed=1;
    if(call==0)r=ov_read(&A,(char*)p.dst,len,be,word,sgned,&bs);
    else if(call==1)r=ov_read_filter(&A,(char*)p.dst,len,be,word,sgned,&bs,NULL,NULL);
    else r=ov_read_filter(&A,(char*)p.dst,len,be,word,sgned,&bs,pf_filter,&g);
    g_armed=0;
    if((k=place_touched(&p,p.lo,p.dst))!=NONE){ snprintf(what,sizeof(what),"wrote_in_front_of_buffer:off%ld:len%d:ret%ld:pos%ld",k,len,r,(long)pa); break; }
    if((k=place_touched(&p,p.dst+len,p.hi))!=NONE){ snprintf(what,sizeof(what),"wrote_behind_buffer:off%ld:len%d:ret%ld:pos%ld",k,len,r,(long)pa); break; }
    if(g.owhat[0]){ snprintf(what,sizeof(what),"%s",g.owhat); break; }
    if(len<frame){
      long adv;
      if(!(r<0||(r==0&&ateof))){ snprintf(what,sizeof(what),"small_buffer_not_refused:ret%ld:len%d:frame%d:pos%ld",r,len,frame,(long)pa); break; }
      if((k=place_touched(&p,p.dst,p.dst+len))!=NONE){ snprintf(what,sizeof(what),"small_buffer_refused_but_wrote:off%ld:ret%ld:len%d:pos%ld",k,r,len,(long)pa); break; }
      if(ov_pcm_tell(&A)!=pa){ snprintf(what,sizeof(what),"refused_read_moved_position:%ld->%ld",(long)pa,(long)ov_pcm_tell(&A)); break; }
      rej++;
      if(ateof)break;
      step=step%41+1;
      adv=float_step(&A,&B,step,tmp,tmpcap);
      if(adv<0){ snprintf(what,sizeof(what),"float_twins_diverged:%ld:pos%ld",adv,(long)pa); break; }
      if(r==0&&adv!=0){ snprintf(what,sizeof(what),"small_buffer_not_refused:ret0_but_stream_continues:len%d:frame%d:pos%ld",len,frame,(long)pa); break; }
      if(adv==0){ if(!(ov_pcm_tell(&A)>=total))snprintf(what,sizeof(what),"float_eof_before_total:%ld<%ld",(long)ov_pcm_tell(&A),(long)total); break; }
      continue;
    }
    if(r<0){ snprintf(what,sizeof(what),"unexpected_error:ret%ld:len%d:pos%ld",r,len,(long)pa); break; }
    if(r==0){
      float **pp; long nb=ov_read_float(&B,&pp,1024,&bs);
      if(nb!=0){ snprintf(what,sizeof(what),"int_eof_but_float_continues:pos%ld:float%ld",(long)pa,nb); break; }
      if((k=place_touched(&p,p.dst,p.dst+len))!=NONE){ snprintf(what,sizeof(what),"eof_but_wrote:off%ld",k); break; }
      if(pa!=total){ snprintf(what,sizeof(what),"eof_before_total:%ld<%ld",(long)pa,(long)total); break; }
      break;
    }
    if(r>len){ snprintf(what,sizeof(what),"retval_exceeds_length:%ld>%d:pos%ld",r,len,(long)pa); break; }
    if(r%frame){ snprintf(what,sizeof(what),"retval_not_whole_frames:%ld%%%d:len%d:pos%ld",r,frame,len,(long)pa); break; }
    if((k=place_touched(&p,p.dst+r,p.dst+len))!=NONE){ snprintf(what,sizeof(what),"wrote_beyond_returned_count:off%ld:ret%ld:len%d:pos%ld",k,r,len,(long)pa); break; }
    {
      long fr=r/frame,got=0;
      pa2=ov_pcm_tell(&A);
      if(pa2!=pa+fr){ snprintf(what,sizeof(what),"tell_advance:%ld+%ld!=%ld:len%d",(long)pa,fr,(long)pa2,len); break; }
      if(call>=2&&g.calls!=calls0+1){ snprintf(what,sizeof(what),"filter_called_%ld_times_in_one_read:pos%ld:len%d",g.calls-calls0,(long)pa,len); break; }
      while(got<fr&&!what[0]){
        float **pp; int b2; long j,c,nb=ov_read_float(&B,&pp,(int)(fr-got),&b2);
        if(nb<=0){ snprintf(what,sizeof(what),"float_twin_short:%ld:after%ld_of%ld:pos%ld",nb,got,fr,(long)pa); break; }
        if(ov_info(&B,-1)->channels!=ch){ snprintf(what,sizeof(what),"channel_count_model:%d!=%d:pos%ld",ov_info(&B,-1)->channels,ch,(long)pa); break; }
        for(j=0;j<nb;j++)for(c=0;c<ch;c++){
          float y=pf_apply(call,pp[c][j]); uint32_t bits; int kk; memcpy(&bits,&y,4);
          kk=judge(bits,word,sgned,be,p.dst+((got+j)*ch+c)*word,&t);
          if(kk==2&&!what[0])snprintf(what,sizeof(what),"value:pos%ld:frame%ld:ch%ld:bits%08x:len%d:got%d",(long)pa,got+j,c,bits,len,decode_out(p.dst+((got+j)*ch+c)*word,word,sgned,be));
        }
        got+=nb;
      }
      if(what[0])break;
      if(ov_pcm_tell(&B)!=pa2){ snprintf(what,sizeof(what),"twin_positions_differ_after:%ld:%ld",(long)pa2,(long)ov_pcm_tell(&B)); break; }
      reads++; frames_total+=fr; if(fr>=2&&ch>=3)multi++;
      if(mode==1){ if(r==len)flush++; if(len-r<frame)tight++; }
      place_restore(&p,r);
    }
  }
  if(!what[0]&&call>=2&&g.samples!=frames_total)snprintf(what,sizeof(what),"filter_sample_count:filter_was_handed_%ld_samples_in_%ld_calls_but_%ld_frames_were_returned",g.samples,g.calls,frames_total);
  if(!what[0]&&g.chan_mismatch)snprintf(what,sizeof(what),"filter_channel_argument:%ld_calls",g.chan_mismatch);
  if(!faulted){ ov_clear(&A); }       /* after a caught fault handle A is in the middle of a call: leaked, never touched again */
  ov_clear(&B);
  if(call==5){ ov_clear(&C); ov_clear(&D); __real_free(g.obuf); }
  printf("%ld %s",idx,(what[0]||t.bad2||g.ot.bad2)?"bad":"ok");
  print_tally(&t);
  printf(" reads=%ld rej=%ld frames=%ld multi=%ld maxch=%ld minch=%ld flush=%ld tight=%ld a16=%d mode=%d call=%d fcalls=%ld fsamples=%ld oreads=%ld oframes=%ld orewinds=%ld ojudged=%lld obad=%lld what=%s\n",
         reads,rej,frames_total,multi,maxch,minch,flush,tight,(int)((uintptr_t)p.dst&15),mode,call,g.calls,g.samples,g.oreads,g.oframes,g.orewinds,g.ot.judged,g.ot.bad,what[0]?what:"-");
  __real_free(tmp);
}

/* ------------------------------------------------------------------ PB / PV: value enumeration through the filter at a placement */
static void run_values_at(long idx,const char *path,int fmt,uint64_t lo,uint64_t hi,const uint32_t *arr,int len,int off,int mode){
  int word=(fmt&4)?2:1,sgned=(fmt>>1)&1,be=fmt&1; fent *f=get_file(path); memio m; OggVorbis_File vf; tally t; vsrc s; int orc,faulted=0; place p;
  char what[200]; long eofs=0,consec_eof=0; long maxframes=0,chans=0,flush=0,tight=0;
  memset(&t,0,sizeof(t)); memset(&s,0,sizeof(s)); what[0]=0; t.envelope=(arr!=NULL);
  if(place_make(&p,len,off,mode)){ printf("%ld bad what=badcase\n",idx); return; }
  s.cur=lo; s.hi=hi; s.arr=arr; s.cap=len+16; s.rec=(uint32_t*)__real_malloc(sizeof(uint32_t)*s.cap);
  mio_init(&m,f->data,f->len);
  orc=ov_open_callbacks(&m,&vf,NULL,0,mio_cb_seekable);
  if(orc<0){ printf("%ld bad what=open%d\n",idx,orc); __real_free(s.rec); return; }
  while(s.cur<s.hi&&!what[0]){
    int bs=-1; long r=0,fr,k,bps; ogg_int64_t p0=ov_pcm_tell(&vf),p1;
    s.nrec=0; s.valid=0; s.samples=-1;
    if(sigsetjmp(g_jb,1)){ faulted=1; snprintf(what,sizeof(what),"wrote_past_end_of_buffer:fault_at_off%ld:len%d",(long)g_fault_off,len); break; }
    g_armed=1;
    r=ov_read_filter(&vf,(char*)p.dst,len,be,word,sgned,&bs,vfilter,&s);
    g_armed=0;
    if((k=place_touched(&p,p.lo,p.dst))!=NONE){ snprintf(what,sizeof(what),"wrote_in_front_of_buffer:off%ld:ret%ld",k,r); break; }
    if((k=place_touched(&p,p.dst+len,p.hi))!=NONE){ snprintf(what,sizeof(what),"wrote_behind_buffer:off%ld:ret%ld",k,r); break; }
    if(r==0){ eofs++; if((k=place_touched(&p,p.dst,p.dst+len))!=NONE){ snprintf(what,sizeof(what),"eof_but_wrote:off%ld",k); break; } if(++consec_eof>2){ snprintf(what,sizeof(what),"stream_yields_nothing"); break; } if(ov_pcm_seek(&vf,0)){ snprintf(what,sizeof(what),"rewind_failed"); break; } continue; }
    consec_eof=0;
    if(r<0){ snprintf(what,sizeof(what),"read_error:%ld",r); break; }
    if(s.overflow){ snprintf(what,sizeof(what),"filter_block_larger_than_length:%ldx%ld",s.ch,s.samples); break; }
    if(s.samples<0){ snprintf(what,sizeof(what),"filter_not_called"); break; }
    bps=word*s.ch; chans=s.ch;
    if(r!=s.samples*bps){ snprintf(what,sizeof(what),"retval:%ld!=%ldx%ld",r,s.samples,bps); break; }
    if(r>len){ snprintf(what,sizeof(what),"retval_exceeds_length:%ld>%d",r,len); break; }
    fr=s.samples; if(fr>maxframes)maxframes=fr;
    p1=ov_pcm_tell(&vf);
    if(p1!=p0+fr){ snprintf(what,sizeof(what),"tell_advance:%ld+%ld!=%ld",(long)p0,fr,(long)p1); break; }
    if((k=place_touched(&p,p.dst+r,p.dst+len))!=NONE){ snprintf(what,sizeof(what),"wrote_beyond_returned_count:off%ld:ret%ld",k,r); break; }
    for(k=0;k<s.valid;k++)judge(s.rec[k],word,sgned,be,p.dst+k*word,&t);
    if(mode==1){ if(r==len)flush++; if(len-r<bps)tight++; }
    place_restore(&p,r);
  }
  if(!faulted)ov_clear(&vf);
  printf("%ld %s",idx,(what[0]||t.bad)?"bad":"ok");
  print_tally(&t);
  printf(" calls=%ld eofs=%ld ch=%ld maxframes=%ld flush=%ld tight=%ld a16=%d mode=%d what=%s\n",s.calls,eofs,chans,maxframes,flush,tight,(int)((uintptr_t)p.dst&15),mode,what[0]?what:"-");
  __real_free(s.rec);
}

int main(int argc,char **argv){
  const char *cases=NULL; int i; FILE *cf; char *line=NULL; size_t lcap=0; int timeout=600; long deadline=0;
  for(i=1;i<argc;i++){ if(!strcmp(argv[i],"--cases"))cases=argv[++i]; else if(!strcmp(argv[i],"--timeout"))timeout=atoi(argv[++i]); else if(!strcmp(argv[i],"--deadline"))deadline=atol(argv[++i]); }
  if(!cases)return 2;
  cf=fopen(cases,"r"); if(!cf)return 2;
  signal(SIGVTALRM,on_alarm);
  region_init();
  while(getline(&line,&lcap,cf)>0){
    char kind[8],path[400],path2[400]; long idx; int fmt,len,off,mode,call,nf; unsigned long long lo,hi; struct itimerval it;
    if(sscanf(line,"%ld %7s",&idx,kind)!=2)continue;
    g_cur=idx;
    if(deadline&&time(NULL)>=deadline){ printf("%ld SKIP\n",idx); fflush(stdout); continue; }   /* budget only; never part of a verdict */
    memset(&it,0,sizeof(it)); it.it_value.tv_sec=timeout; setitimer(ITIMER_VIRTUAL,&it,NULL);
    path2[0]=0;
    if(!strcmp(kind,"PA")&&(nf=sscanf(line,"%*d %*s %399s %d %d %d %d %d %399s",path,&fmt,&len,&off,&mode,&call,path2))>=6&&fmt>=0&&fmt<8)run_place(idx,path,fmt,len,off,mode,call,nf>=7?path2:NULL);
    else if(!strcmp(kind,"PB")&&sscanf(line,"%*d %*s %399s %d %llu %llu %d %d %d",path,&fmt,&lo,&hi,&len,&off,&mode)==7&&fmt>=0&&fmt<8&&hi>0&&lo<hi){
      strat_build();
      run_values_at(idx,path,fmt,(uint64_t)g_nstrat*lo/hi,(uint64_t)g_nstrat*(lo+1)/hi,g_strat,len,off,mode);
    }
    else if(!strcmp(kind,"PV")&&sscanf(line,"%*d %*s %399s %d %llu %llu %d %d %d",path,&fmt,&lo,&hi,&len,&off,&mode)==7&&fmt>=0&&fmt<8&&lo<=hi&&hi<=(1ULL<<32))run_values_at(idx,path,fmt,lo,hi,NULL,len,off,mode);
    else printf("%ld bad what=badcase\n",idx);
    memset(&it,0,sizeof(it)); setitimer(ITIMER_VIRTUAL,&it,NULL);
    fflush(stdout);
  }
  return 0;
}
