/* c05_enc: encode enumerated configurations with the REAL encoder and dump headers + audio packets in the c01_dec batch format.
 * usage: c05_enc <cases.txt> <out.bin> <info.txt>
 * case line: <idx> rate ch mode(q|m) quality max nom min sig n ctl
 *    ctl: '-' or comma list of  lp=<kHz>  imp=<float>  nocouple  (applied between setup_* and setup_init)
 * out.bin: int32 nstreams; per stream int32 npackets; per packet int32 len,int64 granulepos,int32 flags(1 bos,2 eos), bytes
 * info.txt: one line per case: idx rc channels rate bs0 bs1 br_upper br_nominal br_lower npackets (rc<0: set-up refused, stream has 0 packets) */
#include "common.h"
#include <math.h>

static unsigned lcg;
static float noise(void){ lcg=lcg*1103515245u+12345u; return ((lcg>>8)&0xffff)/32768.f-1.f; }
static float sigval(const char *sig,long t,int k,long rate){
  if(!strcmp(sig,"silence"))return 0.f;
  if(!strcmp(sig,"sine"))return 0.999f*sinf(2*M_PI*(440.0+110.0*k)*t/rate);
  if(!strcmp(sig,"noise"))return 0.7f*noise();
  if(!strcmp(sig,"dc"))return 1.0f;
  if(!strcmp(sig,"impulse"))return (t%700==(350+13*k))?0.9f:0.f;
  if(!strcmp(sig,"denormal"))return 1e-40f*((t&1)?1.f:-1.f);
  if(!strcmp(sig,"over"))return 4.0f*sinf(2*M_PI*(300.0+70.0*k)*t/rate);
  if(!strcmp(sig,"alt"))return ((t/rate)&1)? 0.02f*sinf(2*M_PI*(330.0+55.0*k)*t/rate) : 0.6f*noise()+0.2f*sinf(2*M_PI*(330.0+55.0*k)*t/rate);
  if(!strcmp(sig,"mix"))return 0.3f*sinf(2*M_PI*(300.0+170.0*k)*t/rate)+0.2f*noise()+((t%1500)==700?0.8f:0.f);
  return 0.f;
}
typedef struct { unsigned char *p; int len; ogg_int64_t gp; int flags; } pk;
static pk *pks; static int npk,cappk;
static void addpk(ogg_packet *op,int bos){
  if(npk>=cappk){ cappk=cappk?cappk*2:256; pks=(pk*)__real_realloc(pks,sizeof(pk)*cappk); }
  pks[npk].p=(unsigned char*)__real_malloc(op->bytes+1); memcpy(pks[npk].p,op->packet,op->bytes);
  pks[npk].len=op->bytes; pks[npk].gp=op->granulepos; pks[npk].flags=(bos?1:0)|(op->e_o_s?2:0); npk++;
}
int main(int argc,char **argv){
  FILE *cf,*fo,*fi; char *line=NULL; size_t cap=0; int ns=0; long nspos;
  if(argc<4)return 2;
  cf=fopen(argv[1],"r"); fo=fopen(argv[2],"wb"); fi=fopen(argv[3],"w"); if(!cf||!fo||!fi)return 2;
  nspos=ftell(fo); fwrite(&ns,4,1,fo);
  while(getline(&line,&cap,cf)>0){
    long idx,rate,mx,nom,mn,n; int ch; char mode[8],sig[32],ctl[128]; double q; int ret; long done=0; int eos=0,i;
    vorbis_info vi; vorbis_comment vc; vorbis_dsp_state vd; vorbis_block vbs[4]; ogg_packet op; int nblocks=1,reinit=0,ncomments=1,curb=0,sincere=0; const char *clist=NULL; char clbuf[16];
    if(sscanf(line,"%ld %ld %d %7s %lf %ld %ld %ld %31s %ld %127s",&idx,&rate,&ch,mode,&q,&mx,&nom,&mn,sig,&n,ctl)!=11)continue;
    npk=0; lcg=12345u+(unsigned)idx*7u;
    vorbis_info_init(&vi);
    if(mode[0]=='m')ret=vorbis_encode_setup_managed(&vi,ch,rate,mx,nom,mn); else ret=vorbis_encode_setup_vbr(&vi,ch,rate,(float)q);
    if(!ret&&strcmp(ctl,"-")){
      char *sv,*t; char tmp[128]; strcpy(tmp,ctl);
      for(t=strtok_r(tmp,",",&sv);t&&!ret;t=strtok_r(NULL,",",&sv)){
        if(!strncmp(t,"lp=",3)){ double v=atof(t+3); ret=vorbis_encode_ctl(&vi,OV_ECTL_LOWPASS_SET,&v); }
        else if(!strncmp(t,"imp=",4)){ double v=atof(t+4); ret=vorbis_encode_ctl(&vi,OV_ECTL_IBLOCK_SET,&v); }
        else if(!strcmp(t,"nocouple")){ int v=0; ret=vorbis_encode_ctl(&vi,OV_ECTL_COUPLING_SET,&v); }
        else if(!strcmp(t,"rm2null"))ret=vorbis_encode_ctl(&vi,OV_ECTL_RATEMANAGE2_SET,NULL);     /* management off; the limits stay in vorbis_info (oggenc -b) */
        else if(!strncmp(t,"rm2=",4)){
          /* max_kbps:avg_kbps:min_kbps:reservoir_bits:bias_percent, 'x' keeps what RATEMANAGE2_GET returned (oggenc -q N -M max, small reservoirs, ...) */
          struct ovectl_ratemanage2_arg a; char f[5][24]; int k,nf=0; const char *q=t+4;
          for(k=0;k<5;k++){ int l=0; while(*q&&*q!=':'&&l<23)f[k][l++]=*q++; f[k][l]=0; nf++; if(*q==':')q++; else break; }
          ret=vorbis_encode_ctl(&vi,OV_ECTL_RATEMANAGE2_GET,&a);
          if(!ret){
            a.management_active=1;
            if(nf>0&&f[0][0]!='x')a.bitrate_limit_max_kbps=atol(f[0]);
            if(nf>1&&f[1][0]!='x')a.bitrate_average_kbps=atol(f[1]);
            if(nf>2&&f[2][0]!='x')a.bitrate_limit_min_kbps=atol(f[2]);
            if(nf>3&&f[3][0]!='x')a.bitrate_limit_reservoir_bits=atol(f[3]);
            if(nf>4&&f[4][0]!='x')a.bitrate_limit_reservoir_bias=atof(f[4])/100.;
            ret=vorbis_encode_ctl(&vi,OV_ECTL_RATEMANAGE2_SET,&a);
          }
        }
        else if(!strcmp(t,"nocomment"))ncomments=0;
        else if(!strncmp(t,"comments=",9))ncomments=atoi(t+9);
        else if(!strncmp(t,"cl=",3)){ snprintf(clbuf,sizeof(clbuf),"%s",t+3); clist=clbuf; ncomments=0; }
        else if(!strncmp(t,"blocks=",7)){ nblocks=atoi(t+7); if(nblocks<1)nblocks=1; if(nblocks>4)nblocks=4; }
        else if(!strncmp(t,"reinit=",7))reinit=atoi(t+7);
      }
    }
    if(!ret)ret=vorbis_encode_setup_init(&vi);
    if(ret){ int z=0; fprintf(fi,"%ld %d 0 0 0 0 0 0 0 0\n",idx,ret); fwrite(&z,4,1,fo); ns++; vorbis_info_clear(&vi); continue; }
    vorbis_comment_init(&vc); { int k; char tg[32]; for(k=0;k<ncomments;k++){ snprintf(tg,sizeof(tg),"T%d",k); vorbis_comment_add_tag(&vc,tg,k%3?"x":""); } }
    /* comment-list shapes (one digit per entry): 0 empty string, 1 "A=b", 2 "=", 3 300-byte value, 4 entry with embedded NUL (explicit length), 5 NULL pointer entry, 6 tag without '=' */
    if(clist){ const char *c; for(c=clist;*c;c++){ int i=vc.comments; switch(*c){
      case '0': vorbis_comment_add(&vc,""); break;
      case '1': vorbis_comment_add(&vc,"A=b"); break;
      case '2': vorbis_comment_add(&vc,"="); break;
      case '3': { char big[312]; memset(big,'v',sizeof(big)); memcpy(big,"LONG=",5); big[305]=0; vorbis_comment_add(&vc,big); } break;
      case '4': vorbis_comment_add(&vc,"N=abcdef"); vc.user_comments[i][4]=0; break;
      case '5': vorbis_comment_add(&vc,"x"); free(vc.user_comments[i]); vc.user_comments[i]=NULL; vc.comment_lengths[i]=0; break;
      default: vorbis_comment_add(&vc,"plain"); break; } } }
    vorbis_analysis_init(&vd,&vi); { int k; for(k=0;k<nblocks;k++)vorbis_block_init(&vd,&vbs[k]); }
    { ogg_packet h1,h2,h3; vorbis_analysis_headerout(&vd,&vc,&h1,&h2,&h3); addpk(&h1,1); addpk(&h2,0); addpk(&h3,0); }
    while(!eos){
      if(done>=n)vorbis_analysis_wrote(&vd,0);
      else{ long c=n-done>1024?1024:n-done,j; int k; float **b=vorbis_analysis_buffer(&vd,c);
        for(j=0;j<c;j++)for(k=0;k<ch;k++)b[k][j]=sigval(sig,done+j,k,rate);
        vorbis_analysis_wrote(&vd,c); done+=c; }
      /* the application may rotate several vorbis_block objects over one dsp state, or re-create its block (codec.h: blocks are independent) */
      while(vorbis_analysis_blockout(&vd,&vbs[curb])==1){
        vorbis_analysis(&vbs[curb],NULL); vorbis_bitrate_addblock(&vbs[curb]);
        while(vorbis_bitrate_flushpacket(&vd,&op)){ addpk(&op,0); if(op.e_o_s)eos=1; }
        sincere++;
        if(reinit&&sincere>=reinit){ vorbis_block_clear(&vbs[curb]); vorbis_block_init(&vd,&vbs[curb]); sincere=0; }
        curb=(curb+1)%nblocks;
      }
    }
    fprintf(fi,"%ld 0 %d %ld %ld %ld %ld %ld %ld %d\n",idx,vi.channels,vi.rate,vorbis_info_blocksize(&vi,0),vorbis_info_blocksize(&vi,1),vi.bitrate_upper,vi.bitrate_nominal,vi.bitrate_lower,npk);
    fwrite(&npk,4,1,fo);
    for(i=0;i<npk;i++){ fwrite(&pks[i].len,4,1,fo); fwrite(&pks[i].gp,8,1,fo); fwrite(&pks[i].flags,4,1,fo); fwrite(pks[i].p,1,pks[i].len,fo); __real_free(pks[i].p); }
    ns++;
    { int k; for(k=0;k<nblocks;k++)vorbis_block_clear(&vbs[k]); } vorbis_dsp_clear(&vd); vorbis_comment_clear(&vc); vorbis_info_clear(&vi);
  }
  fseek(fo,nspos,SEEK_SET); fwrite(&ns,4,1,fo); fclose(fo); fclose(fi);
  return 0;
}
