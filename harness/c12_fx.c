/* c12_fx: the vorbisfile executor harness/vfx.c, byte for byte (it is #included below), plus ONE more observation on
 * every result line:  W=<ov_raw_tell(vf)>  taken when the case's handle is cleared for the first time, i.e. after the
 * last op (and after the probe; C12 reads W only from runs with probe `none`).  C12 needs the raw position a handle
 * reports after a faulted history in order to probe  ov_raw_seek(vf, ov_raw_tell(vf))  and to let the never-faulted
 * reference handle seek to the SAME numeric offset.  vfx.c itself is not edited: its calls of ov_clear and printf
 * are redirected by two macros. */
#include "vfcommon.h"
#include <stdarg.h>

static long c12_rawtell=-2;
static int c12_clear(OggVorbis_File *vf){
  if(c12_rawtell==-2)c12_rawtell=(long)ov_raw_tell(vf);   /* OV_EINVAL (-131) on a handle that is not open */
  return ov_clear(vf);
}
static int c12_printf(const char *fmt,...){
  static char buf[1<<16]; va_list ap; int n;
  va_start(ap,fmt); n=vsnprintf(buf,sizeof(buf),fmt,ap); va_end(ap);
  if(n<0)return n;
  if(n>=(int)sizeof(buf))n=sizeof(buf)-1;
  if(!strncmp(fmt,"%ld O=",6)&&n>0&&buf[n-1]=='\n'&&n<(int)sizeof(buf)-40){
    n--; n+=snprintf(buf+n,sizeof(buf)-n," W=%ld\n",c12_rawtell);
    c12_rawtell=-2;
  }
  return (int)fwrite(buf,1,n,stdout);
}
#define ov_clear c12_clear
#define printf c12_printf
#include "vfx.c"
