/* c06_quality: encode -> decode quality / alignment executor (C06).
 * case line: <idx> <rate> <ch> <mode> <N> <fmax> <sig> [<sched>]
 *   mode : q<quality>   vorbis_encode_init_vbr(quality)
 *          a<quality>   ABR: vorbis_encode_init(&vi,ch,rate,-1,nominal,-1) where nominal is the bitrate_nominal that
 *                       vorbis_encode_init_vbr(quality) reports for the same channels/rate (so ABR members carry the same
 *                       quality label); if that is <=0 or the managed set-up is refused the member is "skip:abr_unavailable"
 *                       (not a successfully configured setting; e.g. the 50-200 kHz template has no bitrate map)
 *   N    : samples per channel; fmax: highest frequency (Hz) any tone/sweep may use (check passes min(0.4 Nyquist, below lowpass));
 *          written <fmax>,<lfe> channel 5 uses <lfe> instead (LFE channel of the 5.1 template, low-passed at ~250 Hz by the encoder)
 *   sig  : t:<k1>,<k2>,..:<M>[:d]       stationary chord, tone k of channel c at grid frequency F(k,c,M); equal amplitudes 0.6/ntones,
 *                                       with :d the first tone dominates (0.85, the others share 0.1: near full scale),
 *                                       with :x the :d chord is scaled by 4 (over-range float input, peak 3.8)
 *          b:<k1>,<k2>,..:<M>:<L>:<p>   the same chord under one Hann window of L samples centred at p/1000*N (+ channel offset)
 *          s:<lo>:<hi>                  linear sweep from lo/1000*fmax to hi/1000*fmax (channel c: narrowed band, odd c reversed)
 *          n:<seed>:<K>                 band-limited noise: K sinusoids, LCG frequencies in [0.03,1]*min(fmax,0.3 Nyquist), LCG phases
 *          l:<hz>:<f>                   LFE-content member (6 channels): channel 5 = 0.5 sin at <hz> Hz (f=0 abrupt, f=1 faded), channels 0-4 two-tone chords
 *          g:<hz>:<dB>:<loud>           level-gap member (>=2 channels): channel 1 a quiet two-tone at <dB> dBFS, the others loud tones (loud=1) or silent (loud=0)
 *          c:<seed>:<cnt>:<w>           click train: cnt clicks of width w (1 = single sample, else raised cosine) at LCG positions
 *   sched: SUBMISSION SCHEDULE of the encode driver (optional; absent = x1024, the fixed 1024-sample submissions): comma separated piece
 *          sizes handed to vorbis_analysis_buffer / vorbis_analysis_wrote one after the other (after each submission vorbis_analysis_blockout
 *          is drained); tokens  <n> literal | B<+-d> = blocksizes[1]+d | D<+-d> = 2*blocksizes[1]+d (the buffer then holds
 *          centerW+2*blocksizes[1]+d) | E<+-d> = centerW+2*blocksizes[1]+d with the initial centerW = blocksizes[1]/2 | H<+-d> = N/2+d |
 *          R = all that is left in one piece | x<n> = pieces of n until done | G = pieces 1,2,4,8,.. until done.  The last token must be R, x<n> or G;
 *          a piece is cut to what is left.  With a schedule the result carries in addition
 *            sch=<text> nsub=<submissions> first=<first piece> maxp=<largest piece> pre=<pcm_current when the start-of-stream pre-extrapolation
 *            ran>,<centerW then>,<blocksizes[1]> wl=<window length> ws=<input energy per window, windows separated by ',', channels by ';'>
 *            we=<energy of (in-out) per window> wh=<64-bit hash of the decoded floats of all channels in that window, per window>
 *   F(k,c,M) = fmax*(0.05+0.95*(((k+3c) mod M)+c/8)/M)   -> all channels carry different frequencies
 *   Every channel has its own tone set / LCG seed / click positions / burst position.
 * The case generates the signal in double, rounds to float, encodes it with the REAL encoder in-process, pages the packets
 * through libogg, decodes through the packet API (vorbis_synthesis / blockin / pcmout) and measures in double precision:
 *   fin   : every decoded sample of every channel isfinite
 *   pki/pko: max |x| over all channels of input / output
 *   snr   : per channel 10log10(sum in^2 / sum (in-out)^2) over the common range
 *   lag   : per channel arg max over l in [-LAG,LAG] of sum_n in[n]*out[n+l] (direct evaluation, all lags); LAG=min(4096,N-1)
 *   rat   : per channel r(peak)/second largest local maximum of r (uniqueness of the correlation peak)
 *   ira   : the same ratio for the autocorrelation of the INPUT channel alone (does not depend on the codec)
 *   iw    : per channel the largest lag l such that the input autocorrelation stays >= 0.98 x its peak on 0..l (resolution of the lag test)
 *   id    : per output channel the input channel with the largest normalised lag-0 correlation; idm = min over channels of
 *           rho(c,c)-max_{j!=c} rho(c,j); xin = max_{c!=j} |rho_in(c,j)| between INPUT channels (distinctness of content)
 *   pkc/pic: per channel output peak @ position / input peak; aper: lag scan done; lg/sh: long/short blocks; sal: short blocks that
 *           follow a long block; cpl: coupling steps of the mapping; bs: block sizes; nom: nominal bitrate used for ABR
 * output: <idx> ok n=.. dec=.. fin=.. pki=.. pko=.. snr=a,b,.. lag=a,b,.. rat=a,b,.. ira=a,b,.. iw=a,b,.. id=a,b,.. idm=.. xin=.. rho=a,b,..
 *              pkc=v@pos,.. pic=a,b,.. aper=.. lg=.. sh=.. sal=.. cpl=.. bs=../.. nom=..
 *         <idx> skip:<why>      (setting not successfully configured)
 *         <idx> bad:<what>      (machinery / API failure) */
#include "common.h"
#include <math.h>
#include "codec_internal.h"

#define MAXCH 8
#define MAXLAG 4096
static volatile long g_cur=-1;
static void on_alarm(int s){ char b[64]; int n=snprintf(b,sizeof(b),"%ld TIMEOUT\n",g_cur); if(write(1,b,n)<0){} _exit(3); }

/* ---- own LCG (64 bit, top bits) */
static uint64_t lcg_s;
static void lcg_seed(uint64_t a,uint64_t b,uint64_t c){ lcg_s=a*1000003ULL+b*7919ULL+c*104729ULL+12345ULL; lcg_s=lcg_s*6364136223846793005ULL+1442695040888963407ULL; lcg_s=lcg_s*6364136223846793005ULL+1442695040888963407ULL; }
static double lcg_u(void){ lcg_s=lcg_s*6364136223846793005ULL+1442695040888963407ULL; return (double)(lcg_s>>11)/9007199254740992.0; }

static double gridf(int k,int c,int M,double fmax){ return fmax*(0.05+0.95*((double)((k+3*c)%M)+c/8.0)/M); }
static double edge(long n,long N,long fade){ /* raised-cosine fade in/out */
  double g=1.0;
  if(n<fade)g*=0.5-0.5*cos(M_PI*(n+0.5)/fade);
  if(N-1-n<fade)g*=0.5-0.5*cos(M_PI*(N-1-n+0.5)/fade);
  return g;
}

/* generate channel c into x[0..N) (double); returns 0 ok */
static int gen(const char *sig,int c,long N,long rate,double fmax,double *x){
  long n; int i;
  long fade=(long)(0.005*rate); if(fade<8)fade=8;
  memset(x,0,sizeof(double)*N);
  if(sig[0]=='t'||sig[0]=='b'){
    int ks[16],nk=0,M=0,dom=0; long L=0,p=0; const char *q=sig+2; char *e;
    while(nk<16){ ks[nk++]=(int)strtol(q,&e,10); q=e; if(*q!=',')break; q++; }
    if(*q!=':')return -1; M=(int)strtol(q+1,&e,10); q=e;
    if(M<1)return -1;
    if(sig[0]=='b'){ if(*q!=':')return -1; L=strtol(q+1,&e,10); q=e; if(*q!=':')return -1; p=strtol(q+1,&e,10); q=e; if(L<8||L>N)return -1; }
    if(q[0]==':'&&q[1]=='d')dom=1;
    if(q[0]==':'&&q[1]=='x')dom=4;
    {
      double ph[16],f[16],A=0.6/nk,amp[16]; long c0=0;
      lcg_seed(sig[0],c,M);
      for(i=0;i<nk;i++){ f[i]=gridf(ks[i],c,M,fmax); ph[i]=2*M_PI*lcg_u(); amp[i]=dom?dom*(i==0?0.85:(nk>1?0.1/(nk-1):0.0)):A; }
      if(sig[0]=='b'){
        long span=N-L; /* window start in [0,span] */
        c0=(long)((double)p/1000.0*N)-L/2+(long)c*(L/3+17);
        if(span<=0)c0=0; else { c0%=span+1; if(c0<0)c0+=span+1; }
      }
      for(n=0;n<N;n++){
        double v=0,g;
        if(sig[0]=='b'){ long m=n-c0; if(m<0||m>=L)continue; g=0.5-0.5*cos(2*M_PI*(m+0.5)/L); }
        else g=edge(n,N,fade);
        for(i=0;i<nk;i++)v+=amp[i]*sin(2*M_PI*f[i]*n/rate+ph[i]);
        x[n]=g*v;
      }
    }
    return 0;
  }
  if(sig[0]=='s'){
    long lo,hi; double f0,f1,a,b,ph0; char *e;
    lo=strtol(sig+2,&e,10); if(*e!=':')return -1; hi=strtol(e+1,&e,10);
    a=lo/1000.0*fmax; b=hi/1000.0*fmax;
    f0=a+(b-a)*0.06*c; f1=b-(b-a)*0.04*c;
    if(c&1){ double t=f0; f0=f1; f1=t; }
    lcg_seed('s',c,lo*1000+hi); ph0=2*M_PI*lcg_u();
    for(n=0;n<N;n++){
      double t=(double)n/rate, T=(double)N/rate;
      double ph=2*M_PI*(f0*t+(f1-f0)*t*t/(2*T))+ph0;
      x[n]=0.5*edge(n,N,fade)*sin(ph);
    }
    return 0;
  }
  if(sig[0]=='n'){
    long seed; int K; char *e; double fn=fmax; double *f,*ph,A;
    seed=strtol(sig+2,&e,10); if(*e!=':')return -1; K=(int)strtol(e+1,&e,10); if(K<1||K>4096)return -1;
    if(fn>0.3*rate/2)fn=0.3*rate/2;
    f=(double*)__real_malloc(sizeof(double)*K*2); ph=f+K;
    lcg_seed('n',c,seed);
    for(i=0;i<K;i++){ f[i]=fn*(0.03+0.97*lcg_u()); ph[i]=2*M_PI*lcg_u(); }
    A=0.15*sqrt(2.0/K);
    /* each sinusoid by exact re-seeding every 256 samples + phasor rotation in between (double; error ~1e-13) */
    for(i=0;i<K;i++){
      double w=2*M_PI*f[i]/rate,cw=cos(w),sw=sin(w),sn=0,cs=1;
      for(n=0;n<N;n++){
        if((n&255)==0){ sn=sin(w*n+ph[i]); cs=cos(w*n+ph[i]); }
        x[n]+=sn;
        { double t=sn*cw+cs*sw; cs=cs*cw-sn*sw; sn=t; }
      }
    }
    for(n=0;n<N;n++)x[n]*=A*edge(n,N,fade);
    __real_free(f);
    return 0;
  }
  if(sig[0]=='l'){
    /* LFE-content member: channel 5 = 0.5*sin(2 pi hz t) (f=1: 5 ms fades, f=0: abrupt onset/offset);
       every other channel c: two tones 0.3+0.3 at the grid frequencies F(c,c,10) and F(c+2,c,10) with fades */
    double hz; long fd; char *e;
    hz=strtod(sig+2,&e); if(*e!=':')return -1; fd=strtol(e+1,&e,10);
    if(c==5){
      for(n=0;n<N;n++)x[n]=0.5*sin(2*M_PI*hz*n/rate)*(fd?edge(n,N,fade):1.0);
    }else{
      double f1=gridf(c,c,10,fmax),f2=gridf(c+2,c,10,fmax);
      for(n=0;n<N;n++)x[n]=(0.3*sin(2*M_PI*f1*n/rate+0.5*c)+0.3*sin(2*M_PI*f2*n/rate+1.0+c))*edge(n,N,fade);
    }
    return 0;
  }
  if(sig[0]=='g'){
    /* level-gap member: channel 1 = quiet two-tone 10^(dB/20)*(sin(hz)+sin(r*hz+.5)), r=1.7 (1.07 when 1.7*hz would pass 0.8 Nyquist);
       loud=1: channel 0 = 0.3 sin440+0.3 sin1000+0.25 sin3000, channels >=2 = 0.2 sin(700+150(c-2)); loud=0: the neighbours are silent */
    double hz,db,a,r; long loud; char *e;
    hz=strtod(sig+2,&e); if(*e!=':')return -1; db=strtod(e+1,&e); if(*e!=':')return -1; loud=strtol(e+1,&e,10);
    r=(1.7*hz<0.8*rate/2)?1.7:1.07; a=pow(10.0,db/20.0);
    for(n=0;n<N;n++){
      double t=(double)n/rate,g=edge(n,N,fade);
      if(c==1)x[n]=g*a*(sin(2*M_PI*hz*t)+sin(2*M_PI*hz*r*t+0.5));
      else if(!loud)x[n]=0.0;
      else if(c==0)x[n]=g*(0.3*sin(2*M_PI*440*t)+0.3*sin(2*M_PI*1000*t+1)+0.25*sin(2*M_PI*3000*t+2));
      else x[n]=g*0.2*sin(2*M_PI*(700.0+150.0*(c-2))*t);
    }
    return 0;
  }
  if(sig[0]=='c'){
    long seed,cnt,w; char *e; long margin=64;
    seed=strtol(sig+2,&e,10); if(*e!=':')return -1; cnt=strtol(e+1,&e,10); if(*e!=':')return -1; w=strtol(e+1,&e,10);
    if(w<1||N<4*margin)return -1;
    lcg_seed('c',c,seed);
    for(i=0;i<cnt;i++){
      long pos=margin+(long)(lcg_u()*(N-2*margin)); double amp=(0.5+0.4*lcg_u())*(lcg_u()<0.5?-1.0:1.0); long j;
      for(j=0;j<w;j++){
        double g=(w==1)?1.0:0.5-0.5*cos(2*M_PI*(j+0.5)/w);
        if(pos+j<N)x[pos+j]+=amp*g;
      }
    }
    for(n=0;n<N;n++){ if(x[n]>0.95)x[n]=0.95; if(x[n]<-0.95)x[n]=-0.95; }
    return 0;
  }
  return -1;
}

typedef double v4d __attribute__((vector_size(32)));
/* r[l+L] = sum_n x[n]*y[n+l], l in [-L,L]; y treated as zero outside [0,N).  Direct evaluation of every lag.
 * Input samples that are exactly 0.0 contribute exactly 0 and are skipped (click trains and bursts are sparse). */
static void xcorr(const double *x,const double *y,long N,long L,double *r,double *yp,long from){
  long l,n,nnz=0; long *ix=(long*)__real_malloc(sizeof(long)*N); double *xv=(double*)__real_malloc(sizeof(double)*N);
  memset(yp,0,sizeof(double)*(N+2*L+32));
  memcpy(yp+L,y,sizeof(double)*N);
  for(n=0;n<N;n++)if(x[n]!=0.0){ ix[nnz]=n; xv[nnz]=x[n]; nnz++; }
  for(l=from;l<2*L+1;l+=16){
    double a[16]; const double *q=yp+l; int k;
    /* 16 lags at once as four 4-wide vectors; every lag is still one sequential sum over n */
    v4d A0={0,0,0,0},A1={0,0,0,0},A2={0,0,0,0},A3={0,0,0,0};
    if(nnz*4<N){
      for(n=0;n<nnz;n++){
        const double *qq=q+ix[n]; v4d v={xv[n],xv[n],xv[n],xv[n]},y0,y1,y2,y3;
        memcpy(&y0,qq,sizeof(y0)); memcpy(&y1,qq+4,sizeof(y1)); memcpy(&y2,qq+8,sizeof(y2)); memcpy(&y3,qq+12,sizeof(y3));
        A0+=v*y0; A1+=v*y1; A2+=v*y2; A3+=v*y3;
      }
    }else{
      for(n=0;n<N;n++){
        v4d v={x[n],x[n],x[n],x[n]},y0,y1,y2,y3;
        memcpy(&y0,q+n,sizeof(y0)); memcpy(&y1,q+n+4,sizeof(y1)); memcpy(&y2,q+n+8,sizeof(y2)); memcpy(&y3,q+n+12,sizeof(y3));
        A0+=v*y0; A1+=v*y1; A2+=v*y2; A3+=v*y3;
      }
    }
    for(k=0;k<4;k++){ a[k]=A0[k]; a[4+k]=A1[k]; a[8+k]=A2[k]; a[12+k]=A3[k]; }
    for(k=0;k<16;k++)if(l+k<=2*L)r[l+k]=a[k];
  }
  __real_free(ix); __real_free(xv);
}

/* schedule members only: the input's own autocorrelation figures (ira, iw) are a pure function of (sig, rate, N, fmax of the channel, channel) -
   the same input is encoded under many schedules / configurations - so they are kept in a small table instead of being recomputed */
#define ACN 96
static struct { char key[360]; double ira; long iw; } ac_tab[ACN]; static int ac_n=0,ac_next=0;
#define RESN 24000
#define WLEN 1024
#define MAXPIECE 64
#define FAIL(...) do{ if(!res[0])snprintf(res,RESN,__VA_ARGS__); }while(0)

int main(int argc,char **argv){
  FILE *cf=NULL; char line[1024]; int i; int dolag_all=0;
  for(i=1;i<argc;i++){ if(!strcmp(argv[i],"--cases")&&i+1<argc)cf=fopen(argv[++i],"r"); else if(!strcmp(argv[i],"--lagall"))dolag_all=1; }
  if(!cf){ fprintf(stderr,"usage: c06_quality --cases <file>\n"); return 2; }
  signal(SIGVTALRM,on_alarm);
  while(fgets(line,sizeof(line),cf)){
    long idx,rate,N; int ch,nf; char mode[64],sig[256],fms[64],sched[256]; double fmax,fmax_lfe=0; char res[RESN]; struct itimerval it;
    long nsub=0,firstp=0,maxp=0,pre_cur=-1,pre_cw=-1;
    double *in[MAXCH]={0},*out[MAXCH]={0}; long dec=0,nlong=0,nshort=0,sal=0,bs0=0,bs1=0,nom=0; int cpl=0,fin=1;
    res[0]=0;
    sched[0]=0;
    if((nf=sscanf(line,"%ld %ld %d %63s %ld %63s %255s %255s",&idx,&rate,&ch,mode,&N,fms,sig,sched))<7){ continue; }
    if(nf<8)sched[0]=0;
    { char *e; fmax=strtod(fms,&e); if(*e==',')fmax_lfe=strtod(e+1,NULL); }
    g_cur=idx;
    memset(&it,0,sizeof(it)); it.it_value.tv_sec=120; setitimer(ITIMER_VIRTUAL,&it,NULL);
    if(ch<1||ch>MAXCH||N<256){ printf("%ld bad:case_syntax\n",idx); fflush(stdout); continue; }
    for(i=0;i<ch;i++){
      in[i]=(double*)__real_malloc(sizeof(double)*N); out[i]=(double*)__real_calloc(N+16,sizeof(double));
      if(gen(sig,i,N,rate,(i==5&&fmax_lfe>0)?fmax_lfe:fmax,in[i])){ FAIL("bad:signal_syntax"); break; }
      { long n; for(n=0;n<N;n++)in[i][n]=(double)(float)in[i][n]; }
    }
    if(!res[0]){
      vorbis_info vi; vorbis_comment vc; vorbis_dsp_state vd; vorbis_block vb; ogg_stream_state os,ds; ogg_page og; ogg_packet op;
      vorbis_info di; vorbis_comment dc; vorbis_dsp_state dd; vorbis_block db; int dinit=0,hdr=0;
      int ret,vdinit=0; double q=atof(mode+1);
      vorbis_info_init(&vi); vorbis_comment_init(&vc);
      vorbis_info_init(&di); vorbis_comment_init(&dc);
      if(mode[0]=='q'){
        ret=vorbis_encode_init_vbr(&vi,ch,rate,(float)q);
        if(ret)FAIL("skip:vbr_init_rc%d",ret);
      }else{
        vorbis_info t; vorbis_info_init(&t);
        ret=vorbis_encode_init_vbr(&t,ch,rate,(float)q);
        nom=ret?0:t.bitrate_nominal;
        vorbis_info_clear(&t);
        if(ret||nom<=0)FAIL("skip:abr_unavailable");
        else{
          ret=vorbis_encode_init(&vi,ch,rate,-1,nom,-1);
          if(ret)FAIL("skip:abr_unavailable_rc%d",ret);
        }
      }
      if(!res[0]){
        long done=0,prevbs=0; int eos=0;
        long piece[MAXPIECE]; int npiece=0,tail=0; long tailn=1024,grow=1; /* tail: 0 = x<tailn>, 1 = R, 2 = G */
        ogg_packet h1,h2,h3;
        {
          codec_setup_info *ci=(codec_setup_info*)vi.codec_setup; int m;
          for(m=0;m<ci->maps;m++){ vorbis_info_mapping0 *mi=(vorbis_info_mapping0*)ci->map_param[m]; if(mi&&mi->coupling_steps>cpl)cpl=mi->coupling_steps; }
        }
        if(vorbis_analysis_init(&vd,&vi)){ FAIL("bad:analysis_init"); }
        else{
          vdinit=1; vorbis_block_init(&vd,&vb);
          ogg_stream_init(&os,4711); ogg_stream_init(&ds,4711);
          bs0=vorbis_info_blocksize(&vi,0); bs1=vorbis_info_blocksize(&vi,1);
          if(sched[0]){
            /* resolve the schedule text against the block sizes of this set-up */
            const char *p=sched; int okk=1,closed=0;
            while(*p&&okk&&!closed){
              char t=*p; long base=0,d=0; char *e;
              if(t=='R'){ tail=1; closed=1; p++; }
              else if(t=='G'){ tail=2; closed=1; p++; }
              else if(t=='x'){ tailn=strtol(p+1,&e,10); if(tailn<1)okk=0; tail=0; closed=1; p=e; }
              else{
                if(t=='B'){ base=bs1; p++; } else if(t=='D'){ base=2*bs1; p++; } else if(t=='E'){ base=bs1/2+2*bs1; p++; } else if(t=='H'){ base=N/2; p++; }
                else if(t<'0'||t>'9')okk=0;
                if(okk){ d=strtol(p,&e,10); if(e==p&&base==0)okk=0; p=e; }
                if(okk&&(base+d<1||npiece>=MAXPIECE))okk=0;
                if(okk)piece[npiece++]=base+d;
                if(*p==',')p++; else if(*p)okk=0;
              }
            }
            if(!okk||!closed||*p)FAIL("bad:sched_syntax");
          }
          vorbis_analysis_headerout(&vd,&vc,&h1,&h2,&h3);
          ogg_stream_packetin(&os,&h1); ogg_stream_packetin(&os,&h2); ogg_stream_packetin(&os,&h3);
          for(;;){
            int r=ogg_stream_flush(&os,&og),pr;
            if(!r)break;
            ogg_stream_pagein(&ds,&og);
            while((pr=ogg_stream_packetout(&ds,&op))==1){
              if(vorbis_synthesis_headerin(&di,&dc,&op)<0){ FAIL("bad:dec_headerin%d",hdr); break; }
              hdr++;
            }
          }
          if(!res[0]&&hdr!=3)FAIL("bad:dec_headers%d",hdr);
          if(!res[0]){
            if(vorbis_synthesis_init(&dd,&di)){ FAIL("bad:dec_synthesis_init"); }
            else{ vorbis_block_init(&dd,&db); dinit=1; if(di.channels!=ch||di.rate!=rate)FAIL("bad:dec_info:%d/%ld",di.channels,di.rate); }
          }
          while(!eos&&!res[0]){
            if(done>=N)vorbis_analysis_wrote(&vd,0);
            else{
              long c,j; int k,pre0=vd.preextrapolate; float **b;
              if(nsub<npiece)c=piece[nsub]; else if(tail==1)c=N-done; else if(tail==2){ c=grow; grow*=2; } else c=tailn;
              if(c>N-done)c=N-done;
              b=vorbis_analysis_buffer(&vd,c);
              for(k=0;k<ch;k++)for(j=0;j<c;j++)b[k][j]=(float)in[k][done+j];
              if(vorbis_analysis_wrote(&vd,c)){ FAIL("bad:enc_wrote"); break; }
              if(!nsub)firstp=c; if(c>maxp)maxp=c; nsub++;
              if(!pre0&&vd.preextrapolate){ pre_cur=vd.pcm_current; pre_cw=vd.centerW; }  /* the submission that ran _preextrapolate_helper */
              done+=c;
            }
            while(!res[0]&&(ret=vorbis_analysis_blockout(&vd,&vb))==1){
              if(vorbis_analysis(&vb,NULL)){ FAIL("bad:enc_analysis_rc"); break; }
              if(vorbis_bitrate_addblock(&vb)){ FAIL("bad:enc_addblock_rc"); break; }
              while(vorbis_bitrate_flushpacket(&vd,&op)){
                long bs=vorbis_packet_blocksize(&vi,&op);
                if(bs==bs1&&bs1!=bs0)nlong++; else{ nshort++; if(prevbs==bs1&&bs1!=bs0)sal++; }
                prevbs=bs;
                ogg_stream_packetin(&os,&op);
                if(op.e_o_s)eos=1;
                for(;;){
                  int r=eos?ogg_stream_flush(&os,&og):ogg_stream_pageout(&os,&og),pr; ogg_packet dp;
                  if(!r)break;
                  if(ogg_stream_pagein(&ds,&og)<0){ FAIL("bad:dec_pagein"); break; }
                  while(!res[0]&&(pr=ogg_stream_packetout(&ds,&dp))!=0){
                    float **pcm; int n;
                    if(pr<0){ FAIL("bad:dec_packet_hole"); break; }
                    { int sr=vorbis_synthesis(&db,&dp); if(sr){ FAIL("bad:dec_synthesis_rc%d",sr); break; } }
                    if(vorbis_synthesis_blockin(&dd,&db)){ FAIL("bad:dec_blockin"); break; }
                    while((n=vorbis_synthesis_pcmout(&dd,&pcm))>0){
                      int k; long j;
                      for(k=0;k<ch;k++)for(j=0;j<n;j++){
                        float v=pcm[k][j];
                        if(!isfinite(v))fin=0;
                        if(dec+j<N)out[k][dec+j]=isfinite(v)?(double)v:0.0;
                      }
                      dec+=n;
                      vorbis_synthesis_read(&dd,n);
                      if(dec>N+(1<<20)){ FAIL("bad:dec_unbounded"); break; }
                    }
                  }
                }
                if(nlong+nshort>N+64){ FAIL("bad:enc_unbounded_packets"); break; }
              }
            }
            if(ret<0)FAIL("bad:enc_blockout_rc%d",ret);
          }
          ogg_stream_clear(&os); ogg_stream_clear(&ds);
          vorbis_block_clear(&vb);
          if(dinit){ vorbis_block_clear(&db); vorbis_dsp_clear(&dd); }
        }
      }
      if(vdinit)vorbis_dsp_clear(&vd);
      vorbis_comment_clear(&vc); vorbis_info_clear(&vi);
      vorbis_comment_clear(&dc); vorbis_info_clear(&di);
    }
    if(!res[0]){
      /* ---- metrics (double precision) */
      long M=dec<N?dec:N,n,L=N-1<MAXLAG?N-1:MAXLAG; int c,j; int aper=(sig[0]!='t')||dolag_all;
      double pki=0,pko=0,pkc[MAXCH],pic[MAXCH],snr[MAXCH],ira[MAXCH],rat[MAXCH],rho[MAXCH][MAXCH],ein[MAXCH],eout[MAXCH],idm=1e9,xin=0; long lag[MAXCH],pkpos[MAXCH],iw[MAXCH]; int id[MAXCH];
      char *p=res; size_t left=RESN;
      for(c=0;c<ch;c++){
        double se=0,ss=0,so=0;
        pkc[c]=pic[c]=0; pkpos[c]=0;
        for(n=0;n<N;n++){ double a=fabs(in[c][n]); if(a>pki)pki=a; if(a>pic[c])pic[c]=a; }
        for(n=0;n<M;n++){ double a=fabs(out[c][n]),d=in[c][n]-out[c][n]; if(a>pko)pko=a; if(a>pkc[c]){ pkc[c]=a; pkpos[c]=n; } se+=d*d; ss+=in[c][n]*in[c][n]; so+=out[c][n]*out[c][n]; }
        ein[c]=ss; eout[c]=so;
        snr[c]=(se>0&&ss>0)?10*log10(ss/se):(se==0?200.0:-200.0);
      }
      for(c=0;c<ch;c++){
        double best=-1e300,second=-1e300; int bj=-1;
        for(j=0;j<ch;j++){
          double s=0,si=0;
          for(n=0;n<M;n++){ s+=out[c][n]*in[j][n]; si+=in[c][n]*in[j][n]; }
          rho[c][j]=(eout[c]>0&&ein[j]>0)?s/sqrt(eout[c]*ein[j]):0.0;
          if(rho[c][j]>best){ second=best; best=rho[c][j]; bj=j; } else if(rho[c][j]>second)second=rho[c][j];
          if(j!=c&&ein[c]>0&&ein[j]>0){ double r=fabs(si)/sqrt(ein[c]*ein[j]); if(r>xin)xin=r; }
        }
        id[c]=(eout[c]>0)?bj:-1;
        if(ch>1){ double mx=-1e300; for(j=0;j<ch;j++)if(j!=c&&rho[c][j]>mx)mx=rho[c][j]; if(rho[c][c]-mx<idm)idm=rho[c][c]-mx; }
      }
      if(ch==1)idm=rho[0][0];
      for(c=0;c<ch;c++){ lag[c]=0; rat[c]=0; ira[c]=0; iw[c]=0; }
      if(aper&&M>0){
        double *r=(double*)__real_malloc(sizeof(double)*(2*L+32)),*yp=(double*)__real_malloc(sizeof(double)*(N+2*L+64));
        for(c=0;c<ch;c++){
          long l,bl=0; double bv=-1e300,sv=-1e300;
          /* uniqueness of the INPUT's own autocorrelation peak (a property of the signal alone): lags >= 0, mirrored */
          char ackey[360]; int hit=-1,a;
          ackey[0]=0;
          if(sched[0]){
            snprintf(ackey,sizeof(ackey),"%s|%ld|%ld|%.17g|%d",sig,rate,N,(c==5&&fmax_lfe>0)?fmax_lfe:fmax,c);
            for(a=0;a<ac_n;a++)if(!strcmp(ac_tab[a].key,ackey)){ hit=a; break; }
          }
          if(hit>=0){ ira[c]=ac_tab[hit].ira; iw[c]=ac_tab[hit].iw; }
          else{
          xcorr(in[c],in[c],N,L,r,yp,L);
          for(l=0;l<L;l++)r[l]=r[2*L-l];
          for(l=0;l<2*L+1;l++){
            double lft=l>0?r[l-1]:-1e300,rgt=l<2*L?r[l+1]:-1e300;
            if(l!=L&&r[l]>lft&&r[l]>=rgt&&r[l]>sv)sv=r[l];
          }
          ira[c]=(r[L]>0)?((sv>0)?(r[L]/sv>99?99:r[L]/sv):99.0):0.0;
          /* flat top of the input autocorrelation: lags whose value stays within 2% of the peak cannot be told from lag 0 */
          iw[c]=0; for(l=1;l<=L;l++){ if(r[L+l]>=0.98*r[L])iw[c]=l; else break; }
          if(ackey[0]){ a=ac_next; ac_next=(ac_next+1)%ACN; if(ac_n<ACN)ac_n++; snprintf(ac_tab[a].key,sizeof(ac_tab[a].key),"%s",ackey); ac_tab[a].ira=ira[c]; ac_tab[a].iw=iw[c]; }
          }
          sv=-1e300;
          xcorr(in[c],out[c],N,L,r,yp,0);
          for(l=0;l<2*L+1;l++)if(r[l]>bv){ bv=r[l]; bl=l; }
          for(l=0;l<2*L+1;l++){
            double lft=l>0?r[l-1]:-1e300,rgt=l<2*L?r[l+1]:-1e300;
            if(l!=bl&&r[l]>lft&&r[l]>=rgt&&r[l]>sv)sv=r[l];
          }
          lag[c]=bl-L;
          rat[c]=(bv>0)?((sv>0)?(bv/sv>99?99:bv/sv):99.0):0.0;
        }
        __real_free(r); __real_free(yp);
      }
#define ADD(...) do{ int k_=snprintf(p,left,__VA_ARGS__); if(k_>0&&(size_t)k_<left){ p+=k_; left-=k_; } }while(0)
      ADD("ok n=%ld dec=%ld fin=%d pki=%.6f pko=%.6f snr=",N,dec,fin,pki,pko);
      for(c=0;c<ch;c++)ADD("%s%.3f",c?",":"",snr[c]);
      ADD(" lag="); for(c=0;c<ch;c++)ADD("%s%ld",c?",":"",lag[c]);
      ADD(" rat="); for(c=0;c<ch;c++)ADD("%s%.3f",c?",":"",rat[c]);
      ADD(" ira="); for(c=0;c<ch;c++)ADD("%s%.3f",c?",":"",ira[c]);
      ADD(" iw="); for(c=0;c<ch;c++)ADD("%s%ld",c?",":"",iw[c]);
      ADD(" id="); for(c=0;c<ch;c++)ADD("%s%d",c?",":"",id[c]);
      ADD(" idm=%.4f xin=%.4f rho=",idm,xin); for(c=0;c<ch;c++)ADD("%s%.4f",c?",":"",rho[c][c]);
      ADD(" pkc="); for(c=0;c<ch;c++)ADD("%s%.4f@%ld",c?",":"",pkc[c],pkpos[c]);
      ADD(" pic="); for(c=0;c<ch;c++)ADD("%s%.4f",c?",":"",pic[c]);
      ADD(" aper=%d lg=%ld sh=%ld sal=%ld cpl=%d bs=%ld/%ld nom=%ld",aper,nlong,nshort,sal,cpl,bs0,bs1,nom);
      if(sched[0]){
        /* windowed view: input energy, error energy and a hash of the decoded samples for every complete WLEN window of the common range */
        long nw=M/WLEN,w;
        ADD(" sch=%s nsub=%ld first=%ld maxp=%ld pre=%ld,%ld,%ld wl=%d ws=",sched,nsub,firstp,maxp,pre_cur,pre_cw,bs1,WLEN);
        for(c=0;c<ch;c++){ if(c)ADD(";"); for(w=0;w<nw;w++){ double ss=0; for(n=w*WLEN;n<(w+1)*WLEN;n++)ss+=in[c][n]*in[c][n]; ADD("%s%.5e",w?",":"",ss); } }
        ADD(" we=");
        for(c=0;c<ch;c++){ if(c)ADD(";"); for(w=0;w<nw;w++){ double se=0; for(n=w*WLEN;n<(w+1)*WLEN;n++){ double d=in[c][n]-out[c][n]; se+=d*d; } ADD("%s%.5e",w?",":"",se); } }
        ADD(" wh=");
        for(w=0;w<nw;w++){ h128 h; h_init(&h); for(c=0;c<ch;c++)h_bytes(&h,out[c]+w*WLEN,sizeof(double)*WLEN); ADD("%s%016llx",w?",":"",(unsigned long long)(h.a^h.b)); }
        if(left<64){ res[0]=0; FAIL("bad:result_too_long"); }
      }
    }
    memset(&it,0,sizeof(it)); setitimer(ITIMER_VIRTUAL,&it,NULL);
    printf("%ld %s\n",idx,res); fflush(stdout);
    for(i=0;i<ch;i++){ __real_free(in[i]); __real_free(out[i]); }
  }
  return 0;
}
