/* c03_junk: vorbisfile executor for the C03 family "junk position x page structure" (pylib/c03_junk.py).
 * Same contract as c03_extra (one operation list per case on a FRESH real OggVorbis_File over the scripted in-memory data source,
 * every returned byte touched, exactly sized heap read buffers, per-case CPU watchdog) with a reduced operation set, plus a per-call
 * TRACE of what the library did to its data source and to its ogg_sync buffer while a seek call was running:
 *   S<off>   seek callback (SEEK_SET) to absolute offset <off>        E<off>  seek callback with another whence
 *   G<n>     the read callback saw vf->oy.storage grown to <n> since the previous observation (ogg_sync_buffer reallocates right
 *            before each read callback, so the growth is placed exactly in the callback order)
 * The trace is an observation only (coverage guards of the family, nothing is judged on it).
 *
 * usage: c03_junk --files list.txt --cases cases.txt [--timeout s]
 * case line:  <idx> <file#> <mode> op op ...
 *   mode: s ov_open_callbacks seekable | n ov_open_callbacks read-only | t ov_test_callbacks(seekable)+ov_test_open
 *         u ov_test_callbacks(read-only)+ov_test_open | p ov_test_callbacks(seekable) only (PARTOPEN)
 *   ops:  rf<n> ri<n>                    ov_read_float / ov_read (16 bit LE signed)
 *         RE                             read (ov_read_float 4096) until EOF or an error other than OV_HOLE (<= 1000 holes)
 *         ps pp rs <int>  ts tp <sec>    the five seeks (absolute targets);  PS PP RS TS TP  their _lap variants
 *         tl                             raw_tell/pcm_tell/time_tell
 *         bi x<i>                        ov_bitrate_instant, all queries with link index i (format of c03_extra)
 * output: <idx> O=<openrc> R=<per-op results> F=<flags> B=<max back hop> C=<closes> L=<links after open> T=<per-op trace;...>
 */
#include "common.h"
#include <math.h>

#define MAXF (1<<16)
typedef struct { char *path; unsigned char *data; long len; } xfile;
static xfile g_f[MAXF]; static int g_nf=0;

static void load_list(const char *list){
  FILE *f=fopen(list,"r"); char line[1024];
  if(!f){ fprintf(stderr,"no file list %s\n",list); exit(2); }
  while(fgets(line,sizeof(line),f)){
    size_t n=strlen(line); while(n&&(line[n-1]=='\n'||line[n-1]==' '))line[--n]=0;
    if(!n)continue;
    if(g_nf>=MAXF){ fprintf(stderr,"too many files\n"); exit(2); }
    g_f[g_nf].path=strdup(line); g_f[g_nf].data=NULL; g_nf++;
  }
  fclose(f);
}
/* files are large (up to 350 KB) and many: keep only the most recently used one in memory */
static int g_loaded=-1;
static xfile *need_file(int i){
  if(i<0||i>=g_nf)return NULL;
  if(g_loaded!=i){
    if(g_loaded>=0){ __real_free(g_f[g_loaded].data); g_f[g_loaded].data=NULL; }
    g_f[i].data=load_file(g_f[i].path,&g_f[i].len); g_loaded=i;
  }
  return &g_f[i];
}

#if defined(__has_feature)
#if __has_feature(address_sanitizer)
#define C03_HAVE_ASAN 1
void __sanitizer_print_stack_trace(void);
#endif
#endif
static volatile long g_cur_idx=-1;
static void on_alarm(int s){
  char b[64]; int n=snprintf(b,sizeof(b),"%ld TIMEOUT\n",g_cur_idx);
  (void)s;
#ifdef C03_HAVE_ASAN
  { static const char m[]="WATCHDOG: stack at expiry\n"; if(write(2,m,sizeof(m)-1)<0){} }
  __sanitizer_print_stack_trace();
#endif
  if(write(1,b,n)<0){} _exit(3);
}

typedef struct { char flags[512]; } fl_t;
static void addflag(fl_t *f,const char *s){
  if(strstr(f->flags,s))return;
  if(strlen(f->flags)+strlen(s)+2<sizeof(f->flags)){ if(f->flags[0])strcat(f->flags,","); strcat(f->flags,s); }
}
static volatile double g_sink;

/* ---- trace */
static OggVorbis_File *g_vf=NULL; static int g_tron=0,g_trover=0; static long g_last_storage=0;
static char g_tr[1<<17]; static size_t g_trl=0;
static void tr_add(const char *fmt,long v){
  if(g_trl+32<sizeof(g_tr))g_trl+=snprintf(g_tr+g_trl,sizeof(g_tr)-g_trl,fmt,v); else g_trover=1;
}
static size_t j_read(void *p,size_t s,size_t n,void *ds){
  if(g_vf){ long st=g_vf->oy.storage; if(st!=g_last_storage){ if(g_tron&&st>g_last_storage)tr_add("G%ld",st); g_last_storage=st; } }
  return mio_read(p,s,n,ds);
}
static int j_seek(void *ds,ogg_int64_t off,int wh){
  if(g_tron){ if(wh==SEEK_SET)tr_add("S%ld",(long)off); else tr_add("E%ld",(long)off); }
  return mio_seek(ds,off,wh);
}
static ov_callbacks j_cb_seekable={ j_read, j_seek, mio_close, mio_tell };
static ov_callbacks j_cb_stream={ j_read, NULL, mio_close, NULL };

static void fmt_d(char *o,size_t n,double v){
  if(isnan(v))snprintf(o,n,"nan"); else if(isinf(v))snprintf(o,n,v>0?"inf":"-inf"); else snprintf(o,n,"%.9g",v);
}
static size_t do_queries(OggVorbis_File *vf,int i,char *o,size_t n){
  vorbis_info *vi; vorbis_comment *vc; char a[40],b[40]; size_t l=0;
  long st=ov_streams(vf),sk=ov_seekable(vf),br=ov_bitrate(vf,i),sn=ov_serialnumber(vf,i);
  long long rt=ov_raw_total(vf,i),pt=ov_pcm_total(vf,i); double tt=ov_time_total(vf,i);
  long long rl=ov_raw_tell(vf),pl=ov_pcm_tell(vf); double tl=ov_time_tell(vf); int hp=ov_halfrate_p(vf);
  fmt_d(a,sizeof(a),tt); fmt_d(b,sizeof(b),tl);
  l+=snprintf(o+l,n-l,"%ld/%ld/%ld/%ld/%lld/%lld/%s/%lld/%lld/%s/%d/",st,sk,br,sn,rt,pt,a,rl,pl,b,hp);
  vi=ov_info(vf,i);
  if(vi){ long s=vi->version+vi->channels+vi->rate+vi->bitrate_upper+vi->bitrate_nominal+vi->bitrate_lower+vi->bitrate_window; g_sink+=s; l+=snprintf(o+l,n-l,"%d:%ld/",vi->channels,vi->rate); }
  else l+=snprintf(o+l,n-l,"N/");
  vc=ov_comment(vf,i);
  if(vc){ int k; long s=0; for(k=0;k<vc->comments;k++){ int j; for(j=0;j<vc->comment_lengths[k];j++)s+=vc->user_comments[k][j]; s+=strlen(vc->user_comments[k]); }
    if(vc->vendor)s+=strlen(vc->vendor); g_sink+=s; l+=snprintf(o+l,n-l,"%d",vc->comments); }
  else l+=snprintf(o+l,n-l,"N");
  return l;
}
static void touch(OggVorbis_File *vf,float **pcm,long rc,long want,fl_t *fl){
  vorbis_info *vi=ov_info(vf,-1); int c; long j; double s=0;
  if(rc>want)addflag(fl,"read_overlong");
  if(!vi||!pcm)addflag(fl,"read_data_without_info");
  else for(c=0;c<vi->channels;c++)for(j=0;j<rc;j++)s+=pcm[c][j];
  g_sink+=s;
}

int main(int argc,char **argv){
  const char *files=NULL,*cases=NULL; int timeout=20; int i; FILE *cf; char *line=NULL; size_t cap=0;
  for(i=1;i<argc;i++){
    if(!strcmp(argv[i],"--files"))files=argv[++i];
    else if(!strcmp(argv[i],"--cases"))cases=argv[++i];
    else if(!strcmp(argv[i],"--timeout"))timeout=atoi(argv[++i]);
  }
  if(!files||!cases){ fprintf(stderr,"usage\n"); return 2; }
  load_list(files);
  cf=fopen(cases,"r"); if(!cf)return 2;
  signal(SIGVTALRM,on_alarm);
  while(getline(&line,&cap,cf)>0){
    char *sv,*tok; long idx; int fno; char mode; xfile *F;
    OggVorbis_File vf; memio m; int orc; fl_t fl; int links_after_open=-1;
    static char rbuf[1<<16]; size_t rl=0; struct itimerval it; int nops=0;
    fl.flags[0]=0; rbuf[0]=0; g_trl=0; g_tr[0]=0; g_trover=0; g_tron=0; g_vf=NULL; g_last_storage=0;
    tok=strtok_r(line," \n",&sv); if(!tok)continue; idx=atol(tok); g_cur_idx=idx;
    tok=strtok_r(NULL," \n",&sv); if(!tok){ printf("%ld BADCASE\n",idx); continue; } fno=atoi(tok);
    tok=strtok_r(NULL," \n",&sv); if(!tok){ printf("%ld BADCASE\n",idx); continue; } mode=tok[0];
    F=need_file(fno);
    if(!F){ printf("%ld BADCASE\n",idx); continue; }
    memset(&it,0,sizeof(it)); it.it_value.tv_sec=timeout; setitimer(ITIMER_VIRTUAL,&it,NULL);
    mio_init(&m,F->data,F->len);
    memset(&vf,0x5a,sizeof(vf));
    {
      ov_callbacks cb=(mode=='n'||mode=='u')?j_cb_stream:j_cb_seekable;
      if(mode=='t'||mode=='u'||mode=='p'){
        orc=ov_test_callbacks(&m,&vf,NULL,0,cb);
        if(orc<0){ if(m.nclose)addflag(&fl,"open_fail_closed_source"); }
        else if(mode!='p')orc=ov_test_open(&vf);
      }else orc=ov_open_callbacks(&m,&vf,NULL,0,cb);
    }
    if(orc<0){
      size_t k; int z=1; for(k=0;k<sizeof(vf);k++)if(((unsigned char*)&vf)[k]){ z=0; break; }
      if(!z)addflag(&fl,"open_fail_not_zeroed");
      if(m.nclose)addflag(&fl,"open_fail_closed_source");
    }else{ links_after_open=vf.links; g_vf=&vf; g_last_storage=vf.oy.storage; }
    if(orc>0)addflag(&fl,"open_positive_rc");
    while((tok=strtok_r(NULL," \n",&sv))){
      char one[600]; size_t tstart; one[0]=0;
      if(nops++){ if(g_trl+2<sizeof(g_tr)){ g_tr[g_trl++]=';'; g_tr[g_trl]=0; } else g_trover=1; }   /* one trace field per op */
      tstart=g_trl;
      if(!strncmp(tok,"rf",2)){
        float **pcm=NULL; int bs=-1; int want=atoi(tok+2); long rc=ov_read_float(&vf,&pcm,want,&bs);
        if(rc>0)touch(&vf,pcm,rc,want,&fl);
        snprintf(one,sizeof(one),"%ld",rc);
      }else if(!strncmp(tok,"ri",2)){
        int len=atoi(tok+2); char *buf=(char*)malloc(len>0?len:1); int bs=-1; long rc,j,s=0;
        if(len>0)memset(buf,0,len);
        rc=ov_read(&vf,buf,len,0,2,1,&bs);
        if(rc>len)addflag(&fl,"read_overlong"); else for(j=0;j<rc;j++)s+=buf[j];
        g_sink+=s; free(buf);
        snprintf(one,sizeof(one),"%ld",rc);
      }else if(!strcmp(tok,"RE")){
        long rc=0,calls=0,holes=0;
        while(calls<200000){
          float **pcm=NULL; int bs=-1; calls++;
          rc=ov_read_float(&vf,&pcm,4096,&bs);
          if(rc==OV_HOLE){ if(++holes>1000)break; continue; }
          if(rc<=0)break;
          touch(&vf,pcm,rc,4096,&fl);
        }
        if(calls>=200000)addflag(&fl,"macro_read_call_cap");
        snprintf(one,sizeof(one),"%ld",rc);
      }else if(!strncmp(tok,"ps",2)||!strncmp(tok,"pp",2)||!strncmp(tok,"PS",2)||!strncmp(tok,"PP",2)||!strncmp(tok,"rs",2)||!strncmp(tok,"RS",2)){
        ogg_int64_t p=(ogg_int64_t)atoll(tok+2); int rc;
        g_tron=1; if(g_vf)g_last_storage=vf.oy.storage;
        if(tok[0]=='p')rc=(tok[1]=='s')?ov_pcm_seek(&vf,p):ov_pcm_seek_page(&vf,p);
        else if(tok[0]=='P')rc=(tok[1]=='S')?ov_pcm_seek_lap(&vf,p):ov_pcm_seek_page_lap(&vf,p);
        else if(tok[0]=='r')rc=ov_raw_seek(&vf,p);
        else rc=ov_raw_seek_lap(&vf,p);
        g_tron=0;
        snprintf(one,sizeof(one),"%d",rc);
      }else if(!strncmp(tok,"ts",2)||!strncmp(tok,"tp",2)||!strncmp(tok,"TS",2)||!strncmp(tok,"TP",2)){
        double t=strtod(tok+2,NULL); int rc;
        g_tron=1; if(g_vf)g_last_storage=vf.oy.storage;
        if(tok[0]=='t')rc=(tok[1]=='s')?ov_time_seek(&vf,t):ov_time_seek_page(&vf,t);
        else rc=(tok[1]=='S')?ov_time_seek_lap(&vf,t):ov_time_seek_page_lap(&vf,t);
        g_tron=0;
        snprintf(one,sizeof(one),"%d",rc);
      }else if(!strcmp(tok,"tl")){
        char b[40]; long long rl_=ov_raw_tell(&vf),pl=ov_pcm_tell(&vf); fmt_d(b,sizeof(b),ov_time_tell(&vf));
        snprintf(one,sizeof(one),"%lld/%lld/%s",rl_,pl,b);
      }else if(!strcmp(tok,"bi")){
        snprintf(one,sizeof(one),"%ld",ov_bitrate_instant(&vf));
      }else if(tok[0]=='x'){
        do_queries(&vf,atoi(tok+1),one,sizeof(one));
      }else{ printf("%ld BADOP %s\n",idx,tok); goto next; }
      if(rl+strlen(one)+2<sizeof(rbuf))rl+=snprintf(rbuf+rl,sizeof(rbuf)-rl,"%s%s",rl?",":"",one);
      else addflag(&fl,"harness_rbuf_full");
      if(g_trl==tstart){ if(g_trl+2<sizeof(g_tr)){ g_tr[g_trl++]='-'; g_tr[g_trl]=0; } else g_trover=1; }   /* '-' when nothing was recorded */
    }
    {
      long c0=m.nclose; g_vf=NULL; ov_clear(&vf);
      if(orc==0&&m.nclose!=c0+1)addflag(&fl,"clear_close_count");
      if(orc<0&&m.nclose!=c0)addflag(&fl,"clear_closed_failed_open");
      { long c1=m.nclose; ov_clear(&vf); if(m.nclose!=c1)addflag(&fl,"double_close"); }
    }
    if(g_trover)addflag(&fl,"harness_trace_full");
    memset(&it,0,sizeof(it)); setitimer(ITIMER_VIRTUAL,&it,NULL);
    printf("%ld O=%d R=%s F=%s B=%ld C=%ld L=%d T=%s\n",idx,orc,rbuf[0]?rbuf:"-",fl.flags[0]?fl.flags:"-",m.max_backhop,m.nclose,links_after_open,g_trl?g_tr:"-");
    fflush(stdout);
    next:;
  }
  return 0;
}
