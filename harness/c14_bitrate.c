/* c14_bitrate: explicit-state model checking of the REAL vorbis_bitrate_addblock + vorbis_bitrate_flushpacket (C14, part E1).
 *
 * The harness builds by hand (lib/codec_internal.h) a vorbis_info + codec_setup_info (only blocksizes and `bi` are meaningful),
 * a vorbis_dsp_state whose private_state.bms is initialised by the real vorbis_bitrate_init, and a vorbis_block with a
 * vorbis_block_internal whose 15 packetblob oggpack_buffers are filled (oggpack_writeinit/reset + oggpack_write) with chosen
 * byte counts.  A transition = one real vorbis_bitrate_addblock(&vb) followed by one real vorbis_bitrate_flushpacket(&vd,&op).
 *
 * State of the search = (minmax_reservoir, avg_reservoir, avgfloat, E+, E-):
 *   the three bitrate_manager_state fields the function reads AND writes (everything else in bms is constant after init;
 *   bm->choice and bm->vb are overwritten before they are read), plus two Kadane monitors carried by the explorer:
 *     E+' = max(E+,0) + (bits - max_target_bits(W))      worst excess over the hard maximum over ALL contiguous runs ending now
 *     E-' = max(E-,0) + (min_target_bits(W) - bits)      worst deficit below the hard minimum over ALL contiguous runs ending now
 * States are deduplicated by hashing the tuple.  Because the objects are plain structs the explorer sets the three fields
 * directly instead of replaying a history; this is validated by replaying the recorded history of a sample of states on a
 * FRESH rig (fresh vorbis_bitrate_init, fresh buffers, no field poking) and comparing the tuple (validated=/diverged=).
 *
 * Units: rate == blocksizes[0]/2 in every BFS configuration, so one short block lasts one "second" and
 * bm->max_bitsper == max_rate exactly (asserted): per-block targets are the small integers on the case line.
 *
 * Oracle per transition (R = reservoir_bits, res0 = reservoir before the call):
 *   - addblock returns 0, flushpacket returns 1 and hands out exactly blob[bm->choice], 0<=choice<15; no other blob changes
 *   - lo <= minmax_reservoir <= hi with lo=min(0,R-7), hi=max(R,7)   (== [0,R] whenever R>=7)
 *   - E+ <= R+14 (when a hard max is configured), E- <= R+14 (when a hard min is configured)
 *       slack: packets are whole bytes; truncation rounds the allowance DOWN to a byte (maxsize=.../8), padding rounds the
 *       demand UP to a byte ((...+7)/8); each misses its bit-exact target by at most 7 bits, and a run can begin right
 *       after one and end right after the other: 7+7=14.  (Only reservoirs smaller than one byte ever use the slack.)
 *   - packet shorter than the blob handed in (truncation) only if choice==0, a hard max is configured and blob 0 itself
 *     overflows the allowance: 8*x[0] > max_target + (R-res0); the surviving prefix is unchanged
 *   - packet longer than the blob handed in (padding): original bytes unchanged, all added bytes are zero
 *
 * case lines:
 *   <idx> bfs   <rate> <bs0> <bs1> <max> <min> <avg> <R> <bias> <damp> <ragged> <level> <maxdepth> <maxstates> <maxtrans>
 *   <idx> trace <rate> <bs0> <bs1> <max> <min> <avg> <R> <bias> <damp> <ragged> <W>:<vec> <W>:<vec> ...
 *       vec: r<a>+<b> (x[i]=a+b*i) | d<a>+<b> (x[i]=a+b*(14-i)) | k<lo>,<hi>@<p> (x[i]=i<p?lo:hi) | x<15 comma separated byte counts>
 */
#include "common.h"
#include <math.h>
#include <time.h>
#include "codec_internal.h"

#define NB PACKETBLOBS
#define GRAN 7     /* a whole-byte packet misses a bit-exact size by at most 7 bits */
#define SLACK 14   /* a run can start right after a truncation (allowance floored to a byte: reservoir up to 7 bits short
                      of where a bit-exact cut would leave it) and end right after a padding (demand ceiled to a byte:
                      up to 7 bits over): 7+7.  For R>=7 the code needs no slack at all (measured maxE == R). */

typedef struct {
  long rate,bs0,bs1,maxr,minr,avgr,R; double bias,damp; int ragged;
  long spl,M,m,A,fill,lo,hi;
} cfg;

typedef struct {
  vorbis_info vi; codec_setup_info *ci; vorbis_dsp_state vd; private_state *ps; vorbis_block vb; vorbis_block_internal vbi;
  bitrate_manager_state *bm; const cfg *c;
} rig;

typedef struct { char kind; long a,b; int p; long x[NB]; } vec;

static void vec_expand(vec *v){
  int i;
  for(i=0;i<NB;i++){
    switch(v->kind){
    case 'r': v->x[i]=v->a+v->b*i; break;
    case 'd': v->x[i]=v->a+v->b*(NB-1-i); break;
    case 'k': v->x[i]=(i<v->p?v->a:v->b); break;
    default: break;
    }
    if(v->x[i]<0)v->x[i]=0;
  }
}
static int vec_print(char *o,const vec *v){
  int n=0,i;
  switch(v->kind){
  case 'r': return sprintf(o,"r%ld+%ld",v->a,v->b);
  case 'd': return sprintf(o,"d%ld+%ld",v->a,v->b);
  case 'k': return sprintf(o,"k%ld,%ld@%d",v->a,v->b,v->p);
  default:
    n+=sprintf(o+n,"x");
    for(i=0;i<NB;i++)n+=sprintf(o+n,"%s%ld",i?",":"",v->x[i]);
    return n;
  }
}
static int vec_parse(const char *s,vec *v){
  memset(v,0,sizeof(*v)); v->kind=s[0];
  if(s[0]=='r'||s[0]=='d'){ if(sscanf(s+1,"%ld+%ld",&v->a,&v->b)!=2)return -1; }
  else if(s[0]=='k'){ if(sscanf(s+1,"%ld,%ld@%d",&v->a,&v->b,&v->p)!=3)return -1; }
  else if(s[0]=='x'){ int i; const char *p=s+1; for(i=0;i<NB;i++){ char *e; v->x[i]=strtol(p,&e,10); if(e==p)return -1; p=e; if(*p==',')p++; } }
  else return -1;
  vec_expand(v); return 0;
}

static int cfg_derive(cfg *c){
  long hs=c->bs0>>1;
  if(c->rate<=0||hs<=0||c->bs1<c->bs0)return -1;
  c->spl=c->bs1/c->bs0;
  if((c->maxr*hs)%c->rate||(c->minr*hs)%c->rate||(c->avgr*hs)%c->rate)return -2;  /* targets must be exact integers */
  c->M=c->maxr*hs/c->rate; c->m=c->minr*hs/c->rate; c->A=c->avgr*hs/c->rate;
  c->fill=(long)(c->R*c->bias);
  c->lo=(c->R-GRAN<0?c->R-GRAN:0); c->hi=(c->R<GRAN?GRAN:c->R);
  return 0;
}

static void rig_init(rig *r,const cfg *c){
  int i;
  memset(r,0,sizeof(*r)); r->c=c;
  r->ci=(codec_setup_info*)calloc(1,sizeof(codec_setup_info));
  r->ps=(private_state*)calloc(1,sizeof(private_state));
  r->vi.version=0; r->vi.channels=1; r->vi.rate=c->rate; r->vi.codec_setup=r->ci;
  r->ci->blocksizes[0]=c->bs0; r->ci->blocksizes[1]=c->bs1;
  r->ci->bi.avg_rate=c->avgr; r->ci->bi.min_rate=c->minr; r->ci->bi.max_rate=c->maxr;
  r->ci->bi.reservoir_bits=c->R; r->ci->bi.reservoir_bias=c->bias; r->ci->bi.slew_damp=c->damp;
  r->vd.analysisp=1; r->vd.vi=&r->vi; r->vd.backend_state=r->ps;
  vorbis_bitrate_init(&r->vi,&r->ps->bms);            /* REAL init */
  r->bm=&r->ps->bms;
  r->vb.vd=&r->vd; r->vb.internal=&r->vbi;
  for(i=0;i<NB;i++){                                   /* same layout as vorbis_block_init */
    if(i==NB/2)r->vbi.packetblob[i]=&r->vb.opb;
    else r->vbi.packetblob[i]=(oggpack_buffer*)calloc(1,sizeof(oggpack_buffer));
    oggpack_writeinit(r->vbi.packetblob[i]);
  }
}
static void rig_free(rig *r){
  int i;
  for(i=0;i<NB;i++){ oggpack_writeclear(r->vbi.packetblob[i]); if(i!=NB/2)free(r->vbi.packetblob[i]); }
  free(r->ci); free(r->ps);
}

static inline unsigned char filler(int i,long k){ return (unsigned char)(0x80|((k*7+i*13)&0x7f)); }
static inline unsigned char orig_byte(const cfg *c,int i,long n,long k){ /* byte k of a blob of n bytes as written by fill_blob */
  if(c->ragged&&k==n-1)return 5;
  return filler(i,k);
}
static void fill_blob(rig *r,int i,long n){
  oggpack_buffer *b=r->vbi.packetblob[i]; long k,full;
  oggpack_reset(b);
  if(n<=0)return;
  full=r->c->ragged?n-1:n;
  for(k=0;k<full;k++)oggpack_write(b,filler(i,k),8);
  if(r->c->ragged)oggpack_write(b,5,3);              /* blob ends in mid-byte; oggpack_bytes rounds up */
}
static void fill_all(rig *r,const vec *v){ int i; for(i=0;i<NB;i++)fill_blob(r,i,v->x[i]); }

enum { B_RET=1,B_PKT=2,B_OTHER=4,B_PREFIX=8,B_PADNZ=16,B_META=32,B_CHOICE=64 };
typedef struct { int bad,choice,kind; long bytes,res,avgres; double avgf; } obs;

/* one transition on the rig whose blobs currently hold exactly v; repairs the chosen blob afterwards */
static void step(rig *r,int W,const vec *v,long seq,obs *o){
  ogg_packet op; int ra,rf,i,ch; long k,n0,keep;
  memset(&op,0,sizeof(op)); memset(o,0,sizeof(*o));
  r->vb.W=W; r->vb.granulepos=1000+seq; r->vb.sequence=seq; r->vb.eofflag=0;
  r->bm->choice=-99;                                   /* not state: must be overwritten before use */
  ra=vorbis_bitrate_addblock(&r->vb);                  /* REAL */
  rf=vorbis_bitrate_flushpacket(&r->vd,&op);           /* REAL */
  if(ra!=0||rf!=1)o->bad|=B_RET;
  ch=r->bm->choice; o->choice=ch;
  o->res=r->bm->minmax_reservoir; o->avgres=r->bm->avg_reservoir; o->avgf=r->bm->avgfloat;
  if(ch<0||ch>=NB){ o->bad|=B_CHOICE; o->bytes=op.bytes; fill_all(r,v); return; }
  o->bytes=op.bytes;
  if(op.packet!=oggpack_get_buffer(r->vbi.packetblob[ch])||op.bytes!=oggpack_bytes(r->vbi.packetblob[ch]))o->bad|=B_PKT;
  if(op.granulepos!=1000+seq||op.packetno!=seq||op.e_o_s!=0||op.b_o_s!=0)o->bad|=B_META;
  for(i=0;i<NB;i++)if(i!=ch&&oggpack_bytes(r->vbi.packetblob[i])!=v->x[i])o->bad|=B_OTHER;
  n0=v->x[ch]; keep=op.bytes<n0?op.bytes:n0;
  if(!(o->bad&B_PKT)){
    for(k=0;k<keep;k++)if(op.packet[k]!=orig_byte(r->c,ch,n0,k)){ o->bad|=B_PREFIX; break; }
    for(k=n0;k<op.bytes;k++)if(op.packet[k]!=0){ o->bad|=B_PADNZ; break; }
  }
  o->kind=(op.bytes<n0?1:(op.bytes>n0?2:0));
  if(o->kind||o->bad)fill_blob(r,ch,n0);
  if(o->bad&B_OTHER)fill_all(r,v);
}

/* ------------------------------------------------------------------ oracle */
typedef struct { int32_t res,ep,em,parent; int64_t avgres; double avgf; uint16_t act; uint16_t depth; } state;

static const char *judge(const cfg *c,int W,const vec *v,long res0,long ep0,long em0,const obs *o,long *ep1,long *em1,char *detail){
  long mult=W?c->spl:1,maxT=c->M*mult,minT=c->m*mult,bits=o->bytes*8;
  *ep1=0; *em1=0; detail[0]=0;
  if(o->bad&B_RET)return "retval";
  if(o->bad&B_CHOICE){ sprintf(detail,"choice=%d",o->choice); return "choice_out_of_range"; }
  if(o->bad&B_PKT)return "packet_is_not_chosen_blob";
  if(o->bad&B_META)return "packet_metadata";
  if(o->bad&B_OTHER)return "unchosen_blob_modified";
  if(o->bad&B_PREFIX)return "packet_content_damaged";
  if(o->bad&B_PADNZ)return "padding_not_zero";
  if(o->kind==1){
    if(!(o->choice==0&&c->M>0&&8*v->x[0]>maxT+(c->R-res0))){
      sprintf(detail,"choice=%d blob=%ldB packet=%ldB blob0=%ldB allowance=%ldbits",o->choice,v->x[o->choice],o->bytes,v->x[0],maxT+(c->R-res0));
      return "truncated_without_need";
    }
  }
  if(o->res<c->lo){ sprintf(detail,"reservoir %ld -> %ld < %ld (R=%ld) packet=%ldbits min_target=%ld",res0,o->res,c->lo,c->R,bits,minT); return "reservoir_underflow"; }
  if(o->res>c->hi){ sprintf(detail,"reservoir %ld -> %ld > %ld (R=%ld) packet=%ldbits max_target=%ld",res0,o->res,c->hi,c->R,bits,maxT); return "reservoir_overflow"; }
  if(c->M>0){
    long e=(ep0>0?ep0:0)+(bits-maxT);
    if(e>c->R+SLACK){ sprintf(detail,"run excess over hard max %ld bits > R+%d=%ld",e,SLACK,c->R+SLACK); *ep1=e; return "excess_over_max_exceeds_reservoir"; }
    *ep1=e>0?e:0;
  }
  if(c->m>0){
    long e=(em0>0?em0:0)+(minT-bits);
    if(e>c->R+SLACK){ sprintf(detail,"run deficit below hard min %ld bits > R+%d=%ld",e,SLACK,c->R+SLACK); *em1=e; return "deficit_below_min_exceeds_reservoir"; }
    *em1=e>0?e:0;
  }
  return NULL;
}

/* ---------------------------------------------------------------- alphabet */
#define MAXV 4096
static vec *alpha[2]; static int nalpha[2];
static void addv(int W,char kind,long a,long b,int p){
  vec v; int i;
  if(nalpha[W]>=MAXV)return;
  memset(&v,0,sizeof(v)); v.kind=kind; v.a=a; v.b=b; v.p=p; vec_expand(&v);
  for(i=0;i<nalpha[W];i++)if(!memcmp(alpha[W][i].x,v.x,sizeof(v.x)))return;   /* same byte counts: same behaviour */
  alpha[W][nalpha[W]++]=v;
}
static int cmpl(const void *a,const void *b){ long x=*(const long*)a,y=*(const long*)b; return x<y?-1:x>y; }
static void build_alphabet(const cfg *c,int level){
  int W;
  for(W=0;W<2;W++){
    long mult=W?c->spl:1,maxT=c->M*mult,minT=c->m*mult;
    long th=(c->M>0?maxT:minT)/8,tl=(c->m>0?minT:maxT)/8,Rb=c->R/8;
    long V[512]; int nv=0,i,j,nb; long B[8];
    if(!alpha[W])alpha[W]=(vec*)malloc(sizeof(vec)*MAXV);
    nalpha[W]=0;
    if(W==1&&c->spl==1)continue;                      /* W=1 has identical targets and duration: same transition function */
#define PUT(x) do{ long _x=(x); if(_x>=0&&nv<500)V[nv++]=_x; }while(0)
    if(level<=-2){
      /* minimal alphabet for deep depth-bounded searches with average tracking: ramps below / through / above the
         average target, the extremes, one cliff */
      long at=(c->A>0?c->A*mult/8:(tl+th)/2);
      addv(W,'r',0,0,0); addv(W,'r',0,1,0); addv(W,'r',at>7?at-7:0,1,0); addv(W,'r',th+1,2,0);
      addv(W,'r',th+Rb+1,0,0); addv(W,'k',tl>0?tl-1:0,th+Rb+1,7); addv(W,'r',tl,0,0);
      continue;
    }
    PUT(0); PUT(1); PUT(tl-1); PUT(tl); PUT(tl+1); PUT(th); PUT(th+1); PUT(th+2);
    PUT(th+Rb); PUT(th+Rb+1); PUT(2*th+Rb+3);
    if(level>=0){ PUT(2); PUT(th-1); PUT((tl+th)/2); PUT(th+Rb/2); PUT(th+Rb+2); PUT(2*th+1); }
    if(level>=1){ long a,lim=2*th+2; if(lim>48)lim=48; for(a=0;a<=lim;a++)PUT(a); PUT(th+Rb/4); PUT(th+Rb-1); PUT(tl/2); PUT(3*th); }
    if(level>=2){ long a,lim=2*th+Rb+4; if(lim>160)lim=160; for(a=0;a<=lim;a++)PUT(a); }
    qsort(V,nv,sizeof(long),cmpl);
    for(i=j=0;i<nv;i++)if(!i||V[i]!=V[i-1])V[j++]=V[i];
    nv=j;
    nb=0; B[nb++]=0; B[nb++]=1; if(level>=0){ B[nb++]=2; B[nb++]=3; } if(level>=1){ B[nb++]=5; B[nb++]=8; }
    if(level<0){ B[nb++]=3; }
    for(i=0;i<nv;i++)for(j=0;j<nb;j++)addv(W,'r',V[i],B[j],0);
    /* cliffs: small until p, large after */
    {
      long lo[3],hi[4]; int nl=0,nh=0,P[16],np=0,a,b,p;
      lo[nl++]=0; if(tl-1>0)lo[nl++]=tl-1; if(level>=1&&th>1)lo[nl++]=th;
      hi[nh++]=th+1; hi[nh++]=th+Rb+1; hi[nh++]=2*th+Rb+3; if(level>=1)hi[nh++]=th+Rb/2;
      if(level>=1){ for(p=1;p<NB;p++)P[np++]=p; } else if(level>=0){ P[np++]=1; P[np++]=7; P[np++]=8; P[np++]=14; } else { P[np++]=7; P[np++]=8; }
      for(a=0;a<nl;a++)for(b=0;b<nh;b++)for(p=0;p<np;p++)if(lo[a]<hi[b])addv(W,'k',lo[a],hi[b],P[p]);
    }
    /* non-monotone (descending) vectors: the real analysis does not promise monotone blob sizes */
    if(level>=1){
      addv(W,'d',0,1,0); addv(W,'d',tl>7?tl-7:0,1,0); addv(W,'d',th,2,0); addv(W,'d',0,3,0); addv(W,'d',th+Rb-7>0?th+Rb-7:0,1,0);
      addv(W,'k',2*th+Rb+3,0,7); addv(W,'k',th+1,tl>0?tl-1:0,8);
    }
  }
}

/* --------------------------------------------------------------- hash set */
static state *S; static long nS,capS;
static uint32_t *HT; static uint64_t htmask;
static inline uint64_t mix(uint64_t h,uint64_t v){ h^=v+0x9e3779b97f4a7c15ULL+(h<<6)+(h>>2); h*=0xff51afd7ed558ccdULL; h^=h>>33; return h; }
static inline uint64_t shash(int32_t res,int32_t ep,int32_t em,int64_t avgres,double avgf){
  uint64_t h=0x1234567,fb; memcpy(&fb,&avgf,8);
  h=mix(h,(uint32_t)res); h=mix(h,(uint32_t)ep); h=mix(h,(uint32_t)em); h=mix(h,(uint64_t)avgres); h=mix(h,fb); return h;
}
static void ht_grow(void){
  uint64_t n=(htmask+1)*2,i; free(HT); HT=(uint32_t*)calloc(n,sizeof(uint32_t)); htmask=n-1;
  for(i=0;i<(uint64_t)nS;i++){ uint64_t k=shash(S[i].res,S[i].ep,S[i].em,S[i].avgres,S[i].avgf)&htmask; while(HT[k])k=(k+1)&htmask; HT[k]=(uint32_t)i+1; }
}
/* returns index; *isnew set */
static long st_intern(int32_t res,int32_t ep,int32_t em,int64_t avgres,double avgf,int *isnew){
  uint64_t k=shash(res,ep,em,avgres,avgf)&htmask;
  while(HT[k]){
    state *s=&S[HT[k]-1];
    if(s->res==res&&s->ep==ep&&s->em==em&&s->avgres==avgres&&!memcmp(&s->avgf,&avgf,8)){ *isnew=0; return HT[k]-1; }
    k=(k+1)&htmask;
  }
  if(nS>=capS){ capS*=2; S=(state*)realloc(S,sizeof(state)*capS); }
  S[nS].res=res; S[nS].ep=ep; S[nS].em=em; S[nS].avgres=avgres; S[nS].avgf=avgf; S[nS].parent=-1; S[nS].act=0; S[nS].depth=0;
  HT[k]=(uint32_t)nS+1; nS++; *isnew=1;
  if((uint64_t)nS*2>htmask)ht_grow();
  return nS-1;
}

/* ---------------------------------------------------------------- traces */
static int act_W(uint16_t a){ return a>>15; }
static int act_v(uint16_t a){ return a&0x7fff; }
static int trace_of(long s,uint16_t **out){           /* actions from the initial state to s */
  int d=S[s].depth,i; uint16_t *t=(uint16_t*)malloc(sizeof(uint16_t)*(d+1));
  for(i=d-1;i>=0;i--){ t[i]=S[s].act; s=S[s].parent; }
  *out=t; return d;
}
static int trace_print(char *o,const uint16_t *t,int d,int haveextra,int eW,const vec *ev){
  int n=0,i;
  for(i=0;i<d;i++){ n+=sprintf(o+n,"%s%d:",i?";":"",act_W(t[i])); n+=vec_print(o+n,&alpha[act_W(t[i])][act_v(t[i])]); }
  if(haveextra){ n+=sprintf(o+n,"%s%d:",d?";":"",eW); n+=vec_print(o+n,ev); }
  o[n]=0; return n;
}
/* replay a history on a FRESH rig through the real calls only; returns 0 if the final tuple equals the recorded state */
static int validate(const cfg *c,long s){
  rig r; uint16_t *t; int d=trace_of(s,&t),i,ok; long ep=0,em=0; obs o; char det[256];
  rig_init(&r,c);
  for(i=0;i<d;i++){
    const vec *v=&alpha[act_W(t[i])][act_v(t[i])]; long res0=r.bm->minmax_reservoir,e1,e2;
    fill_all(&r,v); step(&r,act_W(t[i]),v,i,&o);
    if(judge(c,act_W(t[i]),v,res0,ep,em,&o,&e1,&e2,det)){ free(t); rig_free(&r); return -1; }
    ep=e1; em=e2;
  }
  ok=(r.bm->minmax_reservoir==S[s].res&&r.bm->avg_reservoir==S[s].avgres&&!memcmp(&r.bm->avgfloat,&S[s].avgf,8)&&ep==S[s].ep&&em==S[s].em);
  free(t); rig_free(&r);
  return ok?0:-1;
}

/* ------------------------------------------------------------------- BFS */
static long g_deadline=0;
static void run_bfs(long idx,cfg *c,int level,int maxdepth,long maxstates,long maxtrans){
  rig r; int isnew,W,vi,fix=0,depth=0,depth_done=0; long lo,hi,trans=0,s,ntr=0,npad=0,hit0=0,hitfull=0,nontriv=0,validated=0,diverged=0;
  long maxEp=0,maxEm=0,minres,maxres; int minch=99,maxch=-1; const char *why="fixpoint"; const char *viol=NULL; char det[256],vdet[256];
  char *tbuf=NULL; long samp=-1; int inconsistent_first=0;
  rig_init(&r,c);
  if(!r.bm->managed||r.bm->max_bitsper!=c->M||r.bm->min_bitsper!=c->m||(c->A>0?r.bm->avg_bitsper!=c->A:r.bm->avg_bitsper>0)||r.bm->short_per_long!=c->spl||r.bm->minmax_reservoir!=c->fill){
    printf("%ld cfgerr managed=%d M=%ld/%ld m=%ld/%ld spl=%ld fill=%ld/%ld\n",idx,r.bm->managed,r.bm->max_bitsper,c->M,r.bm->min_bitsper,c->m,r.bm->short_per_long,r.bm->minmax_reservoir,c->fill);
    rig_free(&r); return;
  }
  build_alphabet(c,level);
  capS=1<<16; S=(state*)malloc(sizeof(state)*capS); nS=0; htmask=(1<<18)-1; HT=(uint32_t*)calloc(htmask+1,sizeof(uint32_t));
  st_intern((int32_t)r.bm->minmax_reservoir,0,0,r.bm->avg_reservoir,r.bm->avgfloat,&isnew);
  minres=maxres=r.bm->minmax_reservoir;
  lo=0; hi=1;
  while(lo<hi&&!viol){
    if(maxdepth>0&&depth>=maxdepth){ why="depthcap"; break; }
    for(W=0;W<2&&!viol;W++)for(vi=0;vi<nalpha[W]&&!viol;vi++){
      const vec *v=&alpha[W][vi];
      if(g_deadline&&time(NULL)>g_deadline){ why="deadline"; goto out; }
      if(trans>maxtrans||nS>maxstates){ why="cap"; goto out; }
      fill_all(&r,v);
      for(s=lo;s<hi;s++){
        obs o; long e1,e2; const char *k; long t;
        r.bm->minmax_reservoir=S[s].res; r.bm->avg_reservoir=S[s].avgres; r.bm->avgfloat=S[s].avgf; r.bm->vb=0;
        step(&r,W,v,trans&0xffff,&o); trans++;
        k=judge(c,W,v,S[s].res,S[s].ep,S[s].em,&o,&e1,&e2,det);
        if(o.kind==1)ntr++; else if(o.kind==2)npad++;
        if(o.choice<minch)minch=o.choice; if(o.choice>maxch)maxch=o.choice;
        if(o.res<minres)minres=o.res; if(o.res>maxres)maxres=o.res;
        if(e1>maxEp)maxEp=e1; if(e2>maxEm)maxEm=e2;
        if(k){
          uint16_t *tr; int d=trace_of(s,&tr);
          viol=k; strcpy(vdet,det);
          tbuf=(char*)malloc((size_t)(d+2)*160+64); trace_print(tbuf,tr,d,1,W,v); free(tr);
          break;
        }
        if(o.res==0)hit0++; if(o.res==c->R)hitfull++;
        t=st_intern((int32_t)o.res,(int32_t)e1,(int32_t)e2,o.avgres,o.avgf,&isnew);
        if(isnew){ S[t].parent=(int32_t)s; S[t].act=(uint16_t)((W<<15)|vi); S[t].depth=(uint16_t)(depth+1); if(o.res!=c->fill)nontriv++; if(depth+1<=10)samp=t; }
      }
    }
    lo=hi; hi=nS; depth++; depth_done=depth;
  }
  if(!viol&&lo>=hi){ fix=1; why="fixpoint"; }
 out:
  /* validate the direct-state-copy shortcut: replay histories of a sample of states on fresh objects */
  if(!viol){
    long stride=nS/600+1,cnt=0;
    for(s=0;s<nS;s+=stride){ if(validate(c,s)==0)validated++; else { if(!diverged)inconsistent_first=(int)s; diverged++; } cnt++; }
    if(nS>1){ if(validate(c,nS-1)==0)validated++; else diverged++; }
  }
  printf("%ld %s states=%ld trans=%ld fix=%d why=%s depth=%d alpha=%d+%d maxEp=%ld maxEm=%ld minres=%ld maxres=%ld trunc=%ld pad=%ld hit0=%ld hitfull=%ld minch=%d maxch=%d nontriv=%ld validated=%ld diverged=%ld",
         idx,viol?"VIOL":"ok",nS,trans,fix,why,depth_done,nalpha[0],nalpha[1],maxEp,maxEm,minres,maxres,ntr,npad,hit0,hitfull,minch,maxch,nontriv,validated,diverged);
  if(viol)printf(" kind=%s detail=\"%s\" trace=%s",viol,vdet,tbuf);
  else if(samp>=0){ uint16_t *tr; int d=trace_of(samp,&tr); char *b=(char*)malloc((size_t)(d+2)*160+64); trace_print(b,tr,d,0,0,NULL); printf(" sample=%s->res=%d,Ep=%d,Em=%d",b,S[samp].res,S[samp].ep,S[samp].em); free(b); free(tr); }
  if(diverged)printf(" firstdiverged=%d",inconsistent_first);
  printf("\n");
  free(tbuf); free(S); free(HT); S=NULL; HT=NULL; rig_free(&r);
}

/* ----------------------------------------------------------- trace mode */
static void run_trace(long idx,cfg *c,char *rest){
  rig r; char *tok,*save=NULL; long ep=0,em=0; int n=0; const char *viol=NULL; char det[256]; char *ob=(char*)malloc(strlen(rest)*4+4096); int on=0;
  rig_init(&r,c); ob[0]=0;
  for(tok=strtok_r(rest," ;\n",&save);tok;tok=strtok_r(NULL," ;\n",&save)){
    vec v; int W; obs o; long res0,e1,e2; const char *k;
    if(!(tok[0]=='0'||tok[0]=='1')||tok[1]!=':'||vec_parse(tok+2,&v)){ printf("%ld badtrace at %s\n",idx,tok); rig_free(&r); free(ob); return; }
    W=tok[0]-'0'; res0=r.bm->minmax_reservoir;
    fill_all(&r,&v); step(&r,W,&v,n,&o);
    k=judge(c,W,&v,res0,ep,em,&o,&e1,&e2,det);
    on+=sprintf(ob+on,"%s%d:%ldB/c%d%s/res%ld/Ep%ld/Em%ld",n?";":"",W,o.bytes,o.choice,o.kind==1?"T":(o.kind==2?"P":""),o.res,e1,e2);
    n++;
    if(k){ viol=k; break; }
    ep=e1; em=e2;
  }
  if(viol)printf("%ld VIOL steps=%d kind=%s detail=\"%s\" obs=%s\n",idx,n,viol,det,ob);
  else printf("%ld ok steps=%d res=%ld Ep=%ld Em=%ld obs=%s\n",idx,n,(long)r.bm->minmax_reservoir,ep,em,ob);
  rig_free(&r); free(ob);
}

static volatile long g_cur=-1;
static void on_alarm(int s){ char b[64]; int n=snprintf(b,sizeof(b),"%ld TIMEOUT\n",g_cur); (void)s; fflush(stdout); if(write(1,b,n)<0){} _exit(3); }

int main(int argc,char **argv){
  const char *cases=NULL; int i; FILE *cf; char *line=NULL; size_t lcap=0; int timeout=900;
  for(i=1;i<argc;i++){
    if(!strcmp(argv[i],"--cases"))cases=argv[++i];
    else if(!strcmp(argv[i],"--timeout"))timeout=atoi(argv[++i]);
    else if(!strcmp(argv[i],"--deadline"))g_deadline=atol(argv[++i]);
  }
  if(!cases)return 2;
  cf=fopen(cases,"r"); if(!cf)return 2;
  signal(SIGVTALRM,on_alarm);
  while(getline(&line,&lcap,cf)>0){
    long idx; char mode[16]; cfg c; int off=0,level=0,maxdepth=0,rc; long maxstates=0,maxtrans=0; struct itimerval it;
    memset(&c,0,sizeof(c));
    if(sscanf(line,"%ld %15s %ld %ld %ld %ld %ld %ld %ld %lf %lf %d%n",&idx,mode,&c.rate,&c.bs0,&c.bs1,&c.maxr,&c.minr,&c.avgr,&c.R,&c.bias,&c.damp,&c.ragged,&off)<12){ continue; }
    g_cur=idx;
    memset(&it,0,sizeof(it)); it.it_value.tv_sec=timeout; setitimer(ITIMER_VIRTUAL,&it,NULL);
    rc=cfg_derive(&c);
    if(rc){ printf("%ld cfgerr derive=%d\n",idx,rc); fflush(stdout); continue; }
    if(!strcmp(mode,"bfs")){
      if(sscanf(line+off,"%d %d %ld %ld",&level,&maxdepth,&maxstates,&maxtrans)<4){ printf("%ld cfgerr args\n",idx); fflush(stdout); continue; }
      run_bfs(idx,&c,level,maxdepth,maxstates,maxtrans);
    }else if(!strcmp(mode,"trace")){
      build_alphabet(&c,0);
      run_trace(idx,&c,line+off);
    }else printf("%ld cfgerr mode\n",idx);
    fflush(stdout);
    memset(&it,0,sizeof(it)); setitimer(ITIMER_VIRTUAL,&it,NULL);
  }
  return 0;
}
