/* c15_life: object-lifecycle sequences on ONE successfully set-up vorbis_info (C15, family 'lifecycle').
 *
 * The vorbis_info is shared read-only configuration: vorbis_analysis_init(v,vi) takes it by pointer and any number of dsp states may be
 * created from it, one after another or at the same time (used alternately from one thread here).  A case line is one call sequence over
 * two encoder slots; the executor runs it on the real library (ASan flavour: a report ends the process with exit code 77 and
 * vlib.run_cases attributes it to the line), then runs, for every encoder LIFETIME of the sequence (analysis_init .. dsp_clear), the calls of
 * that lifetime alone on a fresh, identically set-up vorbis_info (solo reference) and compares everything the encoder emitted.
 *
 * case line:  <idx> Q <cfg> <ops>       ops = concatenation of <letter><slot digit 1|2>
 *     A  vorbis_analysis_init(slot, vi)                    (slot must be uninitialised or cleared)
 *     B  vorbis_block_init(slot dsp, slot block)           (dsp initialised, block not)
 *     H  vorbis_analysis_headerout (+ the three header packets are recorded)
 *     E  one chunk of audio: vorbis_analysis_buffer / _wrote, then blockout / vorbis_analysis / bitrate_addblock / flushpacket until dry
 *     F  end of stream: vorbis_analysis_wrote(0), then drained as in E
 *     C  vorbis_block_clear (if the block was initialised) + vorbis_dsp_clear
 *   at the end: every slot still alive is cleared (slot 1 first), then vorbis_info_clear twice.
 *   The legality of a sequence (no use of an uninitialised or cleared object ...) is decided by the generator (pylib/c15_life.py); the
 *   executor re-checks it and answers BADCASE for an illegal line instead of executing it.
 * output:  <idx> ok cfg=<c> lives=<n> two=<0|1> cwo=<n> reuse=<n> pk=<packets> cmp=<packets compared> leak=<bytes> bad=<kind>@<detail>;...
 *     two   : two encoders were alive at the same time at some point
 *     cwo   : number of audio/finish ops executed (with >=1 packet out) on one encoder AFTER the other encoder, created from the same info and
 *             alive at the same time, had been cleared
 *     reuse : lifetimes that started after an earlier lifetime on the same info had been cleared, and emitted packets
 *   --tables prints the configuration names as one JSON line.  */
#include "common.h"
#include "codec_internal.h"
#include <math.h>
#include <stdarg.h>

typedef struct { int managed; long ch,rate; float q; long mx,nom,mn; const char *name; } lifecfg;
static const lifecfg CFG[]={
  {0,2,44100,.5f,0,0,0,"vbr 2ch 44100 q.5 (coupled, residue 2)"},
  {1,2,44100,0,-1,128000,-1,"managed 2ch 44100 nominal 128k"},
  {0,1,8000,.1f,0,0,0,"vbr 1ch 8000 q.1"},
  {0,6,48000,.3f,0,0,0,"vbr 5.1 48000 q.3"},
  {1,1,16000,0,48000,32000,24000,"managed 1ch 16000 max48k nominal32k min24k (hard limits)"},
  {0,2,22050,.8f,0,0,0,"vbr 2ch 22050 q.8"},
  {0,3,32000,-.1f,0,0,0,"vbr 3ch 32000 q-.1 (uncoupled)"},
};
#define NCFG ((int)(sizeof(CFG)/sizeof(CFG[0])))
#define MAXOPS 16
#define MAXLIVES 8

static int setup_info(const lifecfg *c,vorbis_info *vi){
  vorbis_info_init(vi);
  return c->managed?vorbis_encode_init(vi,c->ch,c->rate,c->mx,c->nom,c->mn):vorbis_encode_init_vbr(vi,c->ch,c->rate,c->q);
}

/* what one encoder lifetime emitted: a running digest per op of the lifetime (so the first differing call can be named) */
typedef struct { char ops[MAXOPS+1]; int nops; h128 dig[MAXOPS]; long pk[MAXOPS]; long packets,bytes,blocks; int slot,start,cleared_at; } life;
typedef struct { int phase,hdr,nenc,fin; vorbis_dsp_state vd; vorbis_block vb; int cur; } slot;

static char g_bad[2048]; static size_t g_badn;
static void bad(const char *fmt,...){
  va_list ap; int k; if(g_badn>=sizeof(g_bad)-200)return;
  if(g_badn)g_bad[g_badn++]=';';
  va_start(ap,fmt); k=vsnprintf(g_bad+g_badn,sizeof(g_bad)-g_badn,fmt,ap); va_end(ap);
  if(k>0)g_badn+=k; if(g_badn>=sizeof(g_bad))g_badn=sizeof(g_bad)-1;
}

static void h_packet(h128 *h,const ogg_packet *op){
  h_i64(h,op->bytes); h_i64(h,op->b_o_s); h_i64(h,op->e_o_s); h_i64(h,op->granulepos); h_i64(h,op->packetno);
  if(op->bytes>0&&op->packet)h_bytes(h,op->packet,op->bytes);
}
static unsigned long g_lcg;
static float noise(void){ g_lcg=g_lcg*6364136223846793005UL+1442695040888963407UL; return ((long)((g_lcg>>33)&0xffff)-32768)/65536.f; }
/* chunk k of a lifetime: even k = two long blocks of samples (always yields blocks), odd k = a short odd-sized piece (may yield none);
   broadband noise, quiet with a loud second half in even chunks so that both block sizes occur.  A pure function of (cfg, k). */
static long chunk_len(vorbis_info *vi,int k){ codec_setup_info *ci=(codec_setup_info*)vi->codec_setup; return (k&1)?ci->blocksizes[1]/2+37:2*ci->blocksizes[1]; }

/* drains blocks and packets; returns 0 or sets bad */
static void drain(slot *s,life *L,int opi,const char *where){
  int r; ogg_packet op;
  while((r=vorbis_analysis_blockout(&s->vd,&s->vb))==1){
    L->blocks++;
    r=vorbis_analysis(&s->vb,NULL); if(r){ bad("rc:vorbis_analysis:%d@%s",r,where); return; }
    r=vorbis_bitrate_addblock(&s->vb); if(r){ bad("rc:vorbis_bitrate_addblock:%d@%s",r,where); return; }
    while((r=vorbis_bitrate_flushpacket(&s->vd,&op))==1){
      if(op.bytes<0||(op.bytes>0&&!op.packet)){ bad("packet_bytes:%ld@%s",op.bytes,where); return; }
      h_packet(&L->dig[opi],&op); L->pk[opi]++; L->packets++; L->bytes+=op.bytes;
    }
    if(r<0){ bad("rc:vorbis_bitrate_flushpacket:%d@%s",r,where); return; }
  }
  if(r<0)bad("rc:vorbis_analysis_blockout:%d@%s",r,where);
}

typedef struct { life lives[MAXLIVES]; int nlives; int two; long cwo,reuse; int info_rc; long leak; } seqout;

/* executes ops (letters) on slots (0/1); returns 0, or -1 for an illegal sequence (nothing judged) */
static int run_seq(const lifecfg *c,const char *letters,const int *slots,int n,seqout *o,int count_leak){
  vorbis_info vi; slot S[2]; int i,k; long base; int ever_cleared=0; int peer_cleared_while_alive[2]={0,0};
  memset(o,0,sizeof(*o)); memset(S,0,sizeof(S)); S[0].cur=S[1].cur=-1;
  wa_on=count_leak; base=wa_live_bytes;
  o->info_rc=setup_info(c,&vi);
  if(o->info_rc){ bad("rc:set-up:%d@cfg",o->info_rc); vorbis_info_clear(&vi); wa_on=0; return 0; }
  for(i=0;i<n&&!g_badn;i++){
    slot *s=&S[slots[i]]; life *L=s->cur>=0?&o->lives[s->cur]:NULL; char where[40]; int r,opi=L?L->nops:0;
    snprintf(where,sizeof(where),"op%d:%c%d",i,letters[i],slots[i]+1);
    switch(letters[i]){
    case 'A':
      if(s->phase!=0||o->nlives>=MAXLIVES)goto illegal;
      memset(&s->vd,0,sizeof(s->vd)); memset(&s->vb,0,sizeof(s->vb));
      r=vorbis_analysis_init(&s->vd,&vi);
      if(r){ bad("rc:vorbis_analysis_init:%d@%s",r,where); vorbis_dsp_clear(&s->vd); break; }
      s->phase=1; s->hdr=s->nenc=s->fin=0; s->cur=o->nlives++; L=&o->lives[s->cur]; memset(L,0,sizeof(*L));
      L->slot=slots[i]; L->start=i; L->cleared_at=-1; L->ops[L->nops]='A'; h_init(&L->dig[L->nops]); L->nops++;
      if(ever_cleared)L->start|=0x1000;      /* starts after an earlier lifetime on this info was cleared */
      peer_cleared_while_alive[slots[i]]=0;
      if(S[0].phase&&S[1].phase)o->two=1;
      break;
    case 'B':
      if(s->phase!=1)goto illegal;
      r=vorbis_block_init(&s->vd,&s->vb); if(r){ bad("rc:vorbis_block_init:%d@%s",r,where); break; }
      s->phase=2; L->ops[opi]='B'; h_init(&L->dig[opi]); L->nops++;
      break;
    case 'H': {
      vorbis_comment vc; ogg_packet h[3];
      if(s->phase<1||s->hdr||s->nenc)goto illegal;
      vorbis_comment_init(&vc); vorbis_comment_add_tag(&vc,"TITLE","c15 life");
      r=vorbis_analysis_headerout(&s->vd,&vc,&h[0],&h[1],&h[2]);
      L->ops[opi]='H'; h_init(&L->dig[opi]); L->nops++;
      if(r)bad("rc:vorbis_analysis_headerout:%d@%s",r,where);
      else for(k=0;k<3;k++){ h_packet(&L->dig[opi],&h[k]); L->pk[opi]++; }
      vorbis_comment_clear(&vc); s->hdr=1;
      break; }
    case 'E': {
      long len,j; int ch; float **buf;
      if(s->phase!=2||s->fin)goto illegal;
      len=chunk_len(&vi,s->nenc);
      g_lcg=0x51f15eedUL+977*(unsigned long)s->nenc+c->ch*131+c->rate;
      buf=vorbis_analysis_buffer(&s->vd,len);
      for(j=0;j<len;j++)for(ch=0;ch<vi.channels;ch++){ float a=noise(); buf[ch][j]=(!(s->nenc&1)&&j*2>=len)?a*1.6f:a*.004f; }
      r=vorbis_analysis_wrote(&s->vd,len);
      L->ops[opi]='E'; h_init(&L->dig[opi]); L->nops++; s->nenc++;
      if(r){ bad("rc:vorbis_analysis_wrote:%d@%s",r,where); break; }
      drain(s,L,opi,where);
      if(peer_cleared_while_alive[slots[i]]&&L->pk[opi]>0)o->cwo++;
      break; }
    case 'F':
      if(s->phase!=2||s->fin)goto illegal;
      r=vorbis_analysis_wrote(&s->vd,0);
      L->ops[opi]='F'; h_init(&L->dig[opi]); L->nops++; s->fin=1;
      if(r){ bad("rc:vorbis_analysis_wrote(0):%d@%s",r,where); break; }
      drain(s,L,opi,where);
      if(peer_cleared_while_alive[slots[i]]&&L->pk[opi]>0)o->cwo++;
      break;
    case 'C':
      if(s->phase<1)goto illegal;
      if(s->phase==2)vorbis_block_clear(&s->vb);
      vorbis_dsp_clear(&s->vd);
      L->ops[opi]='C'; h_init(&L->dig[opi]); L->nops++; L->cleared_at=i;
      s->phase=0; s->cur=-1; ever_cleared=1;
      if(S[1-slots[i]].phase)peer_cleared_while_alive[1-slots[i]]=1;
      break;
    default: goto illegal;
    }
  }
  for(k=0;k<2;k++)if(S[k].phase){ if(S[k].phase==2)vorbis_block_clear(&S[k].vb); vorbis_dsp_clear(&S[k].vd); S[k].phase=0; }
  vorbis_info_clear(&vi);
  { vorbis_info z; memset(&z,0,sizeof(z)); if(memcmp(&vi,&z,sizeof(z)))bad("info_not_zero_after_clear@end"); }
  vorbis_info_clear(&vi);
  o->leak=wa_live_bytes-base; wa_on=0;
  for(k=0;k<o->nlives;k++)if((o->lives[k].start&0x1000)&&o->lives[k].packets>0)o->reuse++;
  return 0;
illegal:
  for(k=0;k<2;k++)if(S[k].phase){ if(S[k].phase==2)vorbis_block_clear(&S[k].vb); vorbis_dsp_clear(&S[k].vd); }
  vorbis_info_clear(&vi); wa_on=0;
  return -1;
}

/* solo references, cached per (cfg, lifetime op string) */
typedef struct { int cfg; char ops[MAXOPS+1]; life L; int ok; } refent;
static refent *g_ref; static int g_nref,g_capref;
static const life *solo(int cfg,const char *ops,int *okp){
  int i,n=(int)strlen(ops),sl[MAXOPS]; seqout o; refent *e; size_t keep_badn=g_badn; char keep[sizeof(g_bad)];
  for(i=0;i<g_nref;i++)if(g_ref[i].cfg==cfg&&!strcmp(g_ref[i].ops,ops)){ *okp=g_ref[i].ok; return &g_ref[i].L; }
  if(g_nref==g_capref){ g_capref=g_capref*2+64; g_ref=(refent*)__real_realloc(g_ref,g_capref*sizeof(refent)); }
  memcpy(keep,g_bad,sizeof(keep)); g_badn=0; g_bad[0]=0;
  for(i=0;i<n;i++)sl[i]=0;
  e=&g_ref[g_nref++]; memset(e,0,sizeof(*e)); e->cfg=cfg; strcpy(e->ops,ops);
  e->ok=(run_seq(&CFG[cfg],ops,sl,n,&o,0)==0&&g_badn==0&&o.nlives==1);
  if(e->ok)e->L=o.lives[0];
  memcpy(g_bad,keep,sizeof(keep)); g_badn=keep_badn;
  *okp=e->ok; return &e->L;
}

static volatile long g_cur=-1;
static void on_alarm(int s){ char b[100]; int n=snprintf(b,sizeof(b),"%ld TIMEOUT\n",g_cur); if(write(1,b,n)<0){} _exit(3); }
void __sanitizer_set_death_callback(void (*cb)(void));
static void on_death(void){ char b[100]; int n=snprintf(b,sizeof(b),"\nC15-LIFE-DEATH idx=%ld\n",g_cur); if(write(2,b,n)<0){} }
static void on_signal(int sig){ char b[160]; int n=snprintf(b,sizeof(b),"\nC15-SIGNAL %d\nC15-LIFE-DEATH idx=%ld\n",sig,g_cur); if(write(2,b,n)<0){} _exit(77); }

int main(int argc,char **argv){
  const char *cases=NULL; int i,timeout=120; FILE *cf; char *line=NULL; size_t lcap=0;
  for(i=1;i<argc;i++){
    if(!strcmp(argv[i],"--cases"))cases=argv[++i]; else if(!strcmp(argv[i],"--timeout"))timeout=atoi(argv[++i]);
    else if(!strcmp(argv[i],"--tables")){ printf("{\"cfgs\":["); for(i=0;i<NCFG;i++)printf("%s\"%s\"",i?",":"",CFG[i].name); printf("]}\n"); return 0; }
  }
  if(!cases)return 2;
  cf=fopen(cases,"r"); if(!cf)return 2;
  signal(SIGPROF,on_alarm); __sanitizer_set_death_callback(on_death); signal(SIGILL,on_signal); signal(SIGABRT,on_signal);
  while(getline(&line,&lcap,cf)>0){
    char *sv,*tok,*ops; long idx; int cfg,n,k,slots[MAXOPS]; char letters[MAXOPS+1]; seqout o; struct itimerval it; long cmp=0,pk=0;
    tok=strtok_r(line," \n",&sv); if(!tok)continue; idx=atol(tok); g_cur=idx;
    tok=strtok_r(NULL," \n",&sv); if(!tok||tok[0]!='Q'){ printf("%ld BADCASE\n",idx); fflush(stdout); continue; }
    tok=strtok_r(NULL," \n",&sv); ops=strtok_r(NULL," \n",&sv);
    if(!tok||!ops||(cfg=atoi(tok))<0||cfg>=NCFG||strlen(ops)%2||strlen(ops)>2*MAXOPS){ printf("%ld BADCASE\n",idx); fflush(stdout); continue; }
    n=(int)strlen(ops)/2;
    for(k=0;k<n;k++){ letters[k]=ops[2*k]; slots[k]=ops[2*k+1]-'1'; if(slots[k]<0||slots[k]>1)break; }
    if(k<n){ printf("%ld BADCASE\n",idx); fflush(stdout); continue; }
    letters[n]=0;
    memset(&it,0,sizeof(it)); it.it_value.tv_sec=timeout; setitimer(ITIMER_PROF,&it,NULL);
    g_badn=0; g_bad[0]=0;
    if(run_seq(&CFG[cfg],letters,slots,n,&o,1)<0){ memset(&it,0,sizeof(it)); setitimer(ITIMER_PROF,&it,NULL); printf("%ld BADCASE illegal\n",idx); fflush(stdout); continue; }
    /* differential oracle: every lifetime against the same calls made by the only encoder on a fresh, identically set-up info */
    for(k=0;k<o.nlives&&!g_badn;k++){
      life *L=&o.lives[k]; int ok=0,j; const life *R=solo(cfg,L->ops,&ok);
      pk+=L->packets;
      if(!ok){ bad("solo_reference_failed@life%d:%s",k,L->ops); break; }
      for(j=0;j<L->nops;j++){
        if(L->pk[j]!=R->pk[j]||memcmp(&L->dig[j],&R->dig[j],sizeof(h128))){
          bad("%s_differ_from_solo_run:%s@life%d:slot%d:%s:call%d:%c:packets%ld_vs_%ld",L->ops[j]=='H'?"headers":"packets",
              (L->start&0x1000)?"after_an_earlier_encoder_was_cleared":(o.two?"two_encoders_alive":"single"),k,L->slot+1,L->ops,j,L->ops[j],L->pk[j],R->pk[j]);
          break;
        }
        cmp+=L->pk[j];
      }
    }
    memset(&it,0,sizeof(it)); setitimer(ITIMER_PROF,&it,NULL);
    printf("%ld ok cfg=%d lives=%d two=%d cwo=%ld reuse=%ld pk=%ld cmp=%ld leak=%ld bad=%s%s\n",idx,cfg,o.nlives,o.two,o.cwo,o.reuse,pk,cmp,o.leak,g_bad,wa_overflow?" WAOVERFLOW":"");
    fflush(stdout);
  }
  return 0;
}
