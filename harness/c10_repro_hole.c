/* Minimal reproducer for C10 finding `streaming_chain_hole_at_link_boundary` (public API only).
 *
 *   cat link0.ogg link1.ogg [link2.ogg ...] | c10_repro_hole           (any intact Ogg Vorbis files)
 *   e.g.  cat build/zoo/c10_S2a.ogg build/zoo/c10_S2b.ogg | build/plain/bin/c10_repro_hole
 *
 * stdin is not seekable: OV_CALLBACKS_STREAMONLY has seek_func == tell_func == NULL.
 * Expected on an intact chain: no negative return value.  Observed: ov_read_float returns OV_HOLE (-3) exactly once
 * at the first read of every link after the first; exit status 1.  The same input through a seekable handle, or a
 * single-link input through this program, gives no hole.
 * Cause: _fetch_and_process_packet() (lib/vorbisfile.c) lets _fetch_headers() use its local `og` as page buffer;
 * _fetch_headers() submits every page it reads (incl. the one that completes the setup header) to vf->os, and the
 * caller then falls through to `ogg_stream_pagein(&vf->os,&og)` and submits that same page a second time; libogg
 * sees a page-sequence mismatch and records a hole; the re-delivered comment/setup packets are rejected as "not audio". */
#include <stdio.h>
#include <vorbis/vorbisfile.h>

int main(void){
  OggVorbis_File vf; float **pcm; int bs=0,holes=0,lastbs=-1; long n,total=0;
  int rc=ov_open_callbacks(stdin,&vf,NULL,0,OV_CALLBACKS_STREAMONLY);
  if(rc<0){ fprintf(stderr,"open failed %d\n",rc); return 2; }
  while((n=ov_read_float(&vf,&pcm,4096,&bs))!=0){
    if(n<0){ printf("ov_read_float returned %ld after %ld samples (previous link index %d)\n",n,total,lastbs); if(n==OV_HOLE)holes++; else break; continue; }
    total+=n; lastbs=bs;
  }
  printf("samples=%ld last_link_index=%d OV_HOLE_returns=%d\n",total,lastbs,holes);
  ov_clear(&vf);
  return holes?1:0;
}
