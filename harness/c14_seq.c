/* c14_seq: SET-UP REQUEST SEQUENCES in front of real bitrate-managed encodes (C14, part E3).
 *
 * The property speaks about "the configured reservoir".  What is configured is what the APPLICATION requested through the documented
 * control interface (include/vorbis/vorbisenc.h), under every ORDER of set-up requests between vorbis_encode_setup_managed /
 * vorbis_encode_setup_vbr and vorbis_encode_setup_init.  This executor explores the real set-up object
 * (vorbis_info + codec_setup_info.hi) as an explicit state graph:
 *
 *   state      = canonical copy of the real object (every highlevel_encode_setup field, the vorbis_info scalars, a hash of the rest
 *                of codec_setup_info) + the REFERENCE MODEL of the rate-management configuration (7 members of
 *                struct ovectl_ratemanage2_arg); deduplicated by value
 *   transition = one real vorbis_encode_ctl request from the alphabet below, executed on a copy of the state (before
 *                vorbis_encode_setup_init the object owns no heap memory besides codec_setup_info itself, so a byte copy is a
 *                faithful state copy; every state that is encoded is re-created on a FRESH object by replaying its request history
 *                and compared with the copy: validated / diverged)
 *   bound      = all request sequences of length <= depth (breadth first by layers; the number of sequences of each length that
 *                reach a state is counted exactly, so coverage statements are about sequences, not only about states)
 *
 * alphabet (one character per request; the values come from the case line):
 *   A  OV_ECTL_RATEMANAGE2_SET {active, hard max mx, no min, no average, reservoir 0.25 s * mx, bias 0 (a max-only reservoir never drops below its preferred fill, so only bias 0 lets a run use all of it), damping 1.5}
 *   B  OV_ECTL_RATEMANAGE2_SET {active, hard min mn, no max, no average, reservoir 0.25 s * mn, bias 1.0, damping 2.5}
 *   C  OV_ECTL_RATEMANAGE2_SET {active, hard max hi + hard min lo, average (hi+lo)/2, reservoir 0.5 s * hi, bias 0.2, damping 3.0}
 *   N  OV_ECTL_RATEMANAGE2_SET with NULL (documented: disables bitrate management)
 *   S  OV_ECTL_RATEMANAGE_SET  (deprecated v1) {active, hard max (mx+2), window 0.5 s, no average}
 *   H  OV_ECTL_RATEMANAGE_HARD (deprecated v1) {hard min mn, window 0.25 s}
 *   V  OV_ECTL_RATEMANAGE_AVG  (deprecated v1) {av_lo = av_hi = 0}
 *   K  OV_ECTL_COUPLING_SET 1      k  OV_ECTL_COUPLING_SET 0      L  OV_ECTL_LOWPASS_SET lp      I  OV_ECTL_IBLOCK_SET -5
 *   g  the read requests OV_ECTL_RATEMANAGE2_GET, OV_ECTL_RATEMANAGE_GET, OV_ECTL_LOWPASS_GET, OV_ECTL_IBLOCK_GET, OV_ECTL_COUPLING_GET
 * bases: m = vorbis_encode_setup_managed(-1, nominal, -1);  x = vorbis_encode_setup_managed(hard max hi, nominal, -1);
 *        v = vorbis_encode_setup_vbr(q)  (management is switched on by A/B/C/S)
 *
 * REFERENCE MODEL (deliberately boring).  The model is initialised from OV_ECTL_RATEMANAGE2_GET right after the base set-up.
 *   - accepted RATEMANAGE2_SET(struct): every member := the requested value (the last accepted request that sets a member wins);
 *     the read-back must show exactly the requested values                      -> cfg:<member>_not_as_requested_after_ratemanage2_set
 *   - accepted RATEMANAGE2_SET(NULL): management_active := 0 (read-back checked), the other members are re-read (not judged)
 *   - deprecated v1 requests: the header only says the old windowing interface "is simulated" and its units disagree with the code
 *     (kbps vs bps), so their mapping onto the reservoir is NOT judged: the model is re-read through RATEMANAGE2_GET afterwards
 *   - a rejected rate request (rc != 0): model re-read, not judged (the header does not promise that a refused request has no effect)
 *   - every other request (coupling, lowpass, impulse block, all reads), accepted or rejected, does not mention rate management and
 *     must not change any of the 7 members: RATEMANAGE2_GET before == after      -> cfg:<member>_changed_by_<request>
 * Every judged state is then set up on a fresh object (requests only, no interleaved reads), read back once more
 * (-> cfg:final_get_<member>_differs_from_requested), vorbis_encode_setup_init, and encoded on signals that press against the limits;
 * the packets are judged against the MODEL's (= application-requested) limits and reservoir exactly like c14_e2e.c does: installed ==
 * configured, every contiguous packet run (exact O(n^2) evaluation), the same slack terms (see c14_e2e.c header).
 *
 * case lines
 *   <idx> bfs <base> <rate> <ch> <nominal_kbps> <q> <mx> <mn> <hi> <lo> <lp> <alphabet> <depth> <nsamp> <shard> <nshards> <sigs max> <sigs min> <sigs both>
 *        every shard repeats the (cheap) graph exploration and encodes the judged states with index % nshards == shard
 *   <idx> seq <base> <rate> <ch> <nominal_kbps> <q> <mx> <mn> <hi> <lo> <lp> <requests | -> <signal> <nsamp>
 *        one explicit request sequence: the same per-request checks, then the encode (replays)
 */
#include "common.h"
#include <math.h>
#include "codec_internal.h"

#define NB PACKETBLOBS
#define SLACK 14
#define MAXP 20000
#define MAXDEPTH 6
#define MAXSYM 16
#define MAXV 24

typedef struct ovectl_ratemanage2_arg r2;
typedef struct { char base; long rate; int ch; long tmplk; double q; long mx,mn,hi,lo; double lp; } par;

static volatile long g_cur=-1;
static void on_alarm(int s){ char b[64]; int n=snprintf(b,sizeof(b),"%ld TIMEOUT\n",g_cur); (void)s; fflush(stdout); if(write(1,b,n)<0){} _exit(3); }

/* ------------------------------------------------------------------------------------------------ violations of one case line */
typedef struct { char kind[96],mode[8],seq[MAXDEPTH+2],sig[8],det[420]; } vrec;
static vrec V[MAXV]; static int nV;
static void addviol(const char *kind,const char *mode,const char *seq,const char *sig,const char *det){
  int i;
  for(i=0;i<nV;i++)if(!strcmp(V[i].kind,kind)&&!strcmp(V[i].mode,mode))return;     /* first (= shortest, BFS order) witness per kind */
  if(nV>=MAXV)return;
  snprintf(V[nV].kind,sizeof V[nV].kind,"%s",kind); snprintf(V[nV].mode,sizeof V[nV].mode,"%s",mode);
  snprintf(V[nV].seq,sizeof V[nV].seq,"%s",seq[0]?seq:"-"); snprintf(V[nV].sig,sizeof V[nV].sig,"%s",sig); snprintf(V[nV].det,sizeof V[nV].det,"%s",det);
  for(i=0;V[nV].det[i];i++)if(V[nV].det[i]=='"'||V[nV].det[i]=='|')V[nV].det[i]='\'';
  nV++;
}

/* ------------------------------------------------------------------------------------------------ requests */
enum { RQ_RATE2, RQ_RATE2NULL, RQ_RATE1, RQ_OTHER };
static int reqkind(char s){ switch(s){ case 'A': case 'B': case 'C': return RQ_RATE2; case 'N': return RQ_RATE2NULL; case 'S': case 'H': case 'V': return RQ_RATE1; } return RQ_OTHER; }
static const char *reqname(char s){
  switch(s){ case 'A': case 'B': case 'C': return "ratemanage2_set"; case 'N': return "ratemanage2_set_null"; case 'S': return "ratemanage_set"; case 'H': return "ratemanage_hard";
             case 'V': return "ratemanage_avg"; case 'K': case 'k': return "coupling_set"; case 'L': return "lowpass_set"; case 'I': return "iblock_set"; case 'g': return "get"; }
  return "unknown";
}
static int known_sym(char s){ return strchr("ABCNSHVKkLIg",s)!=NULL&&s; }

/* issues the real request; *want receives the requested member values for RQ_RATE2 */
static int apply(vorbis_info *vi,char s,const par *p,r2 *want){
  r2 a; struct ovectl_ratemanage_arg o; int iv,rc; double dv;
  memset(&a,0,sizeof a); memset(&o,0,sizeof o);
  switch(s){
  case 'A': a.management_active=1; a.bitrate_limit_max_kbps=p->mx; a.bitrate_limit_reservoir_bits=p->mx*250; a.bitrate_limit_reservoir_bias=0.; a.bitrate_average_damping=1.5; break;
  case 'B': a.management_active=1; a.bitrate_limit_min_kbps=p->mn; a.bitrate_limit_reservoir_bits=p->mn*250; a.bitrate_limit_reservoir_bias=1.; a.bitrate_average_damping=2.5; break;
  case 'C': a.management_active=1; a.bitrate_limit_max_kbps=p->hi; a.bitrate_limit_min_kbps=p->lo; a.bitrate_average_kbps=(p->hi+p->lo)/2;
            a.bitrate_limit_reservoir_bits=p->hi*500; a.bitrate_limit_reservoir_bias=.2; a.bitrate_average_damping=3.; break;
  }
  switch(s){
  case 'A': case 'B': case 'C': *want=a; return vorbis_encode_ctl(vi,OV_ECTL_RATEMANAGE2_SET,&a);
  case 'N': return vorbis_encode_ctl(vi,OV_ECTL_RATEMANAGE2_SET,NULL);
  case 'S': o.management_active=1; o.bitrate_hard_max=(p->mx+2)*1000; o.bitrate_hard_window=.5; o.bitrate_av_window=.5; o.bitrate_av_window_center=.5;
            return vorbis_encode_ctl(vi,OV_ECTL_RATEMANAGE_SET,&o);
  case 'H': o.management_active=1; o.bitrate_hard_min=p->mn*1000; o.bitrate_hard_window=.25; o.bitrate_av_window=.25; o.bitrate_av_window_center=.5;
            return vorbis_encode_ctl(vi,OV_ECTL_RATEMANAGE_HARD,&o);
  case 'V': o.management_active=1; o.bitrate_av_window=.5; o.bitrate_av_window_center=.5;
            return vorbis_encode_ctl(vi,OV_ECTL_RATEMANAGE_AVG,&o);
  case 'K': iv=1; return vorbis_encode_ctl(vi,OV_ECTL_COUPLING_SET,&iv);
  case 'k': iv=0; return vorbis_encode_ctl(vi,OV_ECTL_COUPLING_SET,&iv);
  case 'L': dv=p->lp; return vorbis_encode_ctl(vi,OV_ECTL_LOWPASS_SET,&dv);
  case 'I': dv=-5.; return vorbis_encode_ctl(vi,OV_ECTL_IBLOCK_SET,&dv);
  case 'g': rc=vorbis_encode_ctl(vi,OV_ECTL_RATEMANAGE2_GET,&a); rc|=vorbis_encode_ctl(vi,OV_ECTL_RATEMANAGE_GET,&o);
            rc|=vorbis_encode_ctl(vi,OV_ECTL_LOWPASS_GET,&dv); rc|=vorbis_encode_ctl(vi,OV_ECTL_IBLOCK_GET,&dv); rc|=vorbis_encode_ctl(vi,OV_ECTL_COUPLING_GET,&iv);
            return rc;
  }
  return -9999;
}
static int base_setup(vorbis_info *vi,const par *p){
  switch(p->base){
  case 'm': return vorbis_encode_setup_managed(vi,p->ch,p->rate,-1,p->tmplk*1000,-1);
  case 'x': return vorbis_encode_setup_managed(vi,p->ch,p->rate,p->hi*1000,p->tmplk*1000,-1);
  case 'v': return vorbis_encode_setup_vbr(vi,p->ch,p->rate,(float)p->q);
  }
  return -9999;
}
static void getcfg(vorbis_info *vi,r2 *g){ r2 t; memset(&t,0,sizeof t); if(vorbis_encode_ctl(vi,OV_ECTL_RATEMANAGE2_GET,&t))t.management_active=-777; memset(g,0,sizeof *g);
  g->management_active=t.management_active; g->bitrate_limit_min_kbps=t.bitrate_limit_min_kbps; g->bitrate_limit_max_kbps=t.bitrate_limit_max_kbps;
  g->bitrate_limit_reservoir_bits=t.bitrate_limit_reservoir_bits; g->bitrate_limit_reservoir_bias=t.bitrate_limit_reservoir_bias;
  g->bitrate_average_kbps=t.bitrate_average_kbps; g->bitrate_average_damping=t.bitrate_average_damping; }

#define NMEMB 7
static const char *MEMB[NMEMB]={"active","min","max","reservoir","bias","avg","damping"};
static int memb_diff(const r2 *a,const r2 *b,int k){
  switch(k){
  case 0: return a->management_active!=b->management_active;
  case 1: return a->bitrate_limit_min_kbps!=b->bitrate_limit_min_kbps;
  case 2: return a->bitrate_limit_max_kbps!=b->bitrate_limit_max_kbps;
  case 3: return a->bitrate_limit_reservoir_bits!=b->bitrate_limit_reservoir_bits;
  case 4: return memcmp(&a->bitrate_limit_reservoir_bias,&b->bitrate_limit_reservoir_bias,sizeof(double))!=0;
  case 5: return a->bitrate_average_kbps!=b->bitrate_average_kbps;
  case 6: return memcmp(&a->bitrate_average_damping,&b->bitrate_average_damping,sizeof(double))!=0;
  }
  return 0;
}
static void cfgstr(const r2 *c,char *o){ sprintf(o,"{active=%d max=%ld min=%ld avg=%ld R=%ld bias=%g damping=%g}",c->management_active,c->bitrate_limit_max_kbps,c->bitrate_limit_min_kbps,
  c->bitrate_average_kbps,c->bitrate_limit_reservoir_bits,c->bitrate_limit_reservoir_bias,c->bitrate_average_damping); }
static const char *modeof(const r2 *m){ long mx=m->bitrate_limit_max_kbps,mn=m->bitrate_limit_min_kbps;
  if(m->management_active<=0)return "off"; if(mx>0&&mn>0)return mx==mn?"cbr":(mn>mx?"unsat":"both"); if(mx>0)return "max"; if(mn>0)return "min"; return "nolimit"; }

/* one request on a live object: real call, read-backs, reference model update, cfg oracle.  seq = history INCLUDING this request. */
static int step(vorbis_info *vi,char s,const par *p,r2 *model,const char *seq,long *nresync){
  r2 before,after,want; int rc,k; char kind[96],det[420],b1[160],b2[160];
  getcfg(vi,&before);
  rc=apply(vi,s,p,&want);
  getcfg(vi,&after);
  switch(reqkind(s)){
  case RQ_RATE2:
    if(rc==0){
      *model=want;
      for(k=0;k<NMEMB;k++)if(memb_diff(&after,&want,k)){
        cfgstr(&want,b1); cfgstr(&after,b2); snprintf(kind,sizeof kind,"cfg:%s_not_as_requested_after_ratemanage2_set",MEMB[k]);
        snprintf(det,sizeof det,"accepted OV_ECTL_RATEMANAGE2_SET %s reads back as %s",b1,b2); addviol(kind,modeof(&want),seq,"-",det); }
    }else{ *model=after; (*nresync)++; }
    break;
  case RQ_RATE2NULL:
    if(rc==0&&after.management_active!=0){ cfgstr(&after,b2); snprintf(det,sizeof det,"OV_ECTL_RATEMANAGE2_SET(NULL) returned 0 but management is still reported active: %s",b2);
      addviol("cfg:active_not_cleared_by_ratemanage2_set_null","off",seq,"-",det); }
    *model=after; if(rc==0)model->management_active=0; else (*nresync)++;
    break;
  case RQ_RATE1:
    *model=after; (*nresync)++;
    break;
  default:
    for(k=0;k<NMEMB;k++)if(memb_diff(&after,&before,k)){
      cfgstr(&before,b1); cfgstr(&after,b2); snprintf(kind,sizeof kind,"cfg:%s_changed_by_%s",MEMB[k],reqname(s));
      snprintf(det,sizeof det,"request '%c' (%s, rc=%d) does not mention rate management but OV_ECTL_RATEMANAGE2_GET changed from %s to %s",s,reqname(s),rc,b1,b2);
      addviol(kind,modeof(model),seq,"-",det); }
    break;
  }
  return rc;
}

/* ------------------------------------------------------------------------------------------------ canonical state */
typedef struct { int version,channels; long rate,bu,bn,bl,bw; highlevel_encode_setup hi; uint64_t rest; } rkey;     /* the real object */
typedef struct { rkey r; r2 model; } skey;
static void canon_real(vorbis_info *vi,rkey *k){
  codec_setup_info *ci=(codec_setup_info*)vi->codec_setup; highlevel_encode_setup *h=&ci->hi,*d; int i; uint64_t f=0xcbf29ce484222325ULL; const unsigned char *c=(const unsigned char*)ci; size_t j,lo,hi2;
  memset(k,0,sizeof *k); d=&k->hi;
  k->version=vi->version; k->channels=vi->channels; k->rate=vi->rate; k->bu=vi->bitrate_upper; k->bn=vi->bitrate_nominal; k->bl=vi->bitrate_lower; k->bw=vi->bitrate_window;
  d->set_in_stone=h->set_in_stone; d->setup=h->setup; d->base_setting=h->base_setting; d->impulse_noisetune=h->impulse_noisetune; d->req=h->req; d->managed=h->managed;
  d->bitrate_min=h->bitrate_min; d->bitrate_av=h->bitrate_av; d->bitrate_av_damp=h->bitrate_av_damp; d->bitrate_max=h->bitrate_max; d->bitrate_reservoir=h->bitrate_reservoir;
  d->bitrate_reservoir_bias=h->bitrate_reservoir_bias; d->impulse_block_p=h->impulse_block_p; d->noise_normalize_p=h->noise_normalize_p; d->coupling_p=h->coupling_p;
  d->stereo_point_setting=h->stereo_point_setting; d->lowpass_kHz=h->lowpass_kHz; d->lowpass_altered=h->lowpass_altered; d->ath_floating_dB=h->ath_floating_dB; d->ath_absolute_dB=h->ath_absolute_dB;
  d->amplitude_track_dBpersec=h->amplitude_track_dBpersec; d->trigger_setting=h->trigger_setting;
  for(i=0;i<4;i++){ d->block[i].tone_mask_setting=h->block[i].tone_mask_setting; d->block[i].tone_peaklimit_setting=h->block[i].tone_peaklimit_setting;
    d->block[i].noise_bias_setting=h->block[i].noise_bias_setting; d->block[i].noise_compand_setting=h->block[i].noise_compand_setting; }
  lo=offsetof(codec_setup_info,hi); hi2=lo+sizeof(highlevel_encode_setup);
  for(j=0;j<sizeof(codec_setup_info);j++){ if(j>=lo&&j<hi2)continue; f=(f^c[j])*0x100000001b3ULL; }
  k->rest=f;
}
static void canon_model(const r2 *m,r2 *d){ memset(d,0,sizeof *d); d->management_active=m->management_active; d->bitrate_limit_min_kbps=m->bitrate_limit_min_kbps; d->bitrate_limit_max_kbps=m->bitrate_limit_max_kbps;
  d->bitrate_limit_reservoir_bits=m->bitrate_limit_reservoir_bits; d->bitrate_limit_reservoir_bias=m->bitrate_limit_reservoir_bias; d->bitrate_average_kbps=m->bitrate_average_kbps; d->bitrate_average_damping=m->bitrate_average_damping; }

/* ------------------------------------------------------------------------------------------------ encode + run oracle (as c14_e2e.c) */
static unsigned lcg=12345;
static float noise(void){ lcg=lcg*1103515245u+12345u; return ((lcg>>8)&0xffff)/32768.f-1.f; }
typedef struct { long bits; int W; long g; long res; } pkt;
static pkt P[MAXP];
typedef struct { long n,nshort,nlong,trunc,pad,hit0,hitfull,limited,runs; double worstp,worstm; long R; } encstat;

/* vi: after vorbis_encode_setup_init.  cfg: the application-requested configuration.  returns 0 ok, 1 violation (kind/det filled), 2 executor problem (det) */
static int encode_judge(vorbis_info *vi,const r2 *cfg,const char *sig,long nsamp,encstat *es,char *kind,char *det){
  vorbis_comment vc; vorbis_dsp_state vd; vorbis_block vb; ogg_packet op;
  int eos=0,n=0,i,j,ret=0; long done=0,chunk=1024,rate=vi->rate; int ch=vi->channels; long R=cfg->bitrate_limit_reservoir_bits,maxr=cfg->bitrate_limit_max_kbps*1000,minr=cfg->bitrate_limit_min_kbps*1000,bs[2],hs,spl;
  long ntrunc=0,npad=0,hit0=0,hitfull=0,nshort=0,nlong=0,limited=0; const char *viol=NULL,*notinst=NULL; char ndet[400],rdet[300]; codec_setup_info *ci; bitrate_manager_state *bm; private_state *ps;
  ndet[0]=0; rdet[0]=0; kind[0]=0; det[0]=0; memset(es,0,sizeof *es); es->R=R; es->worstp=es->worstm=-1e18;
  vorbis_comment_init(&vc);
  vorbis_analysis_init(&vd,vi);
  vorbis_block_init(&vd,&vb);
  { ogg_packet h1,h2,h3; vorbis_analysis_headerout(&vd,&vc,&h1,&h2,&h3); }
  ci=(codec_setup_info*)vi->codec_setup; ps=(private_state*)vd.backend_state; bm=&ps->bms;
  bs[0]=ci->blocksizes[0]; bs[1]=ci->blocksizes[1]; hs=bs[0]>>1; spl=bs[1]/bs[0];
  {
    long Mc=(long)rint(1.*maxr*hs/rate),mc=(long)rint(1.*minr*hs/rate);
    if(minr>0&&(!bm->managed||ci->bi.min_rate!=minr||bm->min_bitsper!=mc))notinst="min";
    else if(maxr>0&&(!bm->managed||ci->bi.max_rate!=maxr||bm->max_bitsper!=Mc))notinst="max";
    else if(!bm->managed||ci->bi.reservoir_bits!=R)notinst="reservoir";
    if(notinst)snprintf(ndet,sizeof ndet,"requested max=%ld min=%ld R=%ld; installed managed=%d max_rate=%ld min_rate=%ld reservoir_bits=%ld max_bitsper=%ld min_bitsper=%ld",
                        maxr,minr,R,bm->managed,ci->bi.max_rate,ci->bi.min_rate,ci->bi.reservoir_bits,bm->max_bitsper,bm->min_bitsper);
  }
  lcg=12345u+(unsigned)(rate*7+ch);
  while(!eos&&!viol){
    if(done>=nsamp){ vorbis_analysis_wrote(&vd,0); }
    else{
      long c=nsamp-done>chunk?chunk:nsamp-done,t0; int k;
      float **b=vorbis_analysis_buffer(&vd,c);
      for(t0=0;t0<c;t0++){
        long t=done+t0;
        for(k=0;k<ch;k++){
          float v=0;
          if(!strcmp(sig,"noise"))v=0.5f*noise();
          else if(!strcmp(sig,"sil"))v=0;
          else if(!strcmp(sig,"alt"))v=((t*5/rate)&1)?0.f:0.7f*noise();
          else if(!strcmp(sig,"tla"))v=((t*5/rate)&1)?0.7f*noise():0.f;                      /* alternation starting with silence */
          else if(!strcmp(sig,"imp"))v=(t%(rate/11+1)==(17+13*k))?0.95f:0.f;
          else if(!strcmp(sig,"mix"))v=0.3f*sinf(2*M_PI*(300.0+170.0*k)*t/rate)+0.2f*noise()+((t%(rate/5))==700?0.8f:0.f);
          b[k][t0]=v;
        }
      }
      vorbis_analysis_wrote(&vd,c); done+=c;
    }
    while(!viol&&vorbis_analysis_blockout(&vd,&vb)==1){
      long sz[NB],res0,allowance; int choice; vorbis_block_internal *vbi=(vorbis_block_internal*)vb.internal; long k;
      vorbis_analysis(&vb,NULL);
      for(i=0;i<NB;i++)sz[i]=oggpack_bytes(vbi->packetblob[i]);
      res0=bm->minmax_reservoir;
      vorbis_bitrate_addblock(&vb);
      while(vorbis_bitrate_flushpacket(&vd,&op)){
        if(n>=MAXP){ viol="too_many_packets"; break; }
        choice=bm->managed?bm->choice:NB/2;
        P[n].bits=op.bytes*8; P[n].W=vb.W; P[n].g=op.granulepos; P[n].res=bm->minmax_reservoir;
        if(vb.W)nlong++; else nshort++;
        if(P[n].res==0)hit0++; if(P[n].res==R)hitfull++;
        if(notinst){ if(op.e_o_s)eos=1; n++; continue; }       /* internal oracles presuppose installed == requested */
        if(choice<0||choice>=NB){ viol="choice_out_of_range"; sprintf(det,"packet %d choice=%d",n,choice); break; }
        if(choice<NB/2)limited++;
        allowance=(vb.W?bm->max_bitsper*spl:bm->max_bitsper)+(R-res0);
        if(op.bytes<sz[choice]){
          ntrunc++;
          if(!(choice==0&&maxr>0&&8*sz[0]>allowance)){ viol="truncated_without_need"; sprintf(det,"packet %d choice=%d blob=%ldB packet=%ldB allowance=%ldbits",n,choice,sz[choice],(long)op.bytes,allowance); break; }
        }else if(op.bytes>sz[choice]){
          npad++;
          for(k=sz[choice];k<op.bytes;k++)if(op.packet[k]){ viol="padding_not_zero"; sprintf(det,"packet %d byte %ld=%d",n,k,op.packet[k]); break; }
        }
        if(P[n].res<(R<7?R-7:0)||P[n].res>(R<7?7:R)){
          viol=P[n].res<0?"reservoir_underflow":"reservoir_overflow"; sprintf(det,"packet %d reservoir %ld -> %ld outside [0,R=%ld]",n,res0,P[n].res,R); break;
        }
        if(op.e_o_s)eos=1;
        n++;
      }
    }
  }
  if(!viol){
    long G=0; long long qmax,qmin,tr_max,tr_min; __int128 base; double worstp=-1e18,worstm=-1e18;
    long Mq=(long)rint(1.*maxr*hs/rate),mq=(long)rint(1.*minr*hs/rate);
    for(i=0;i<n;i++){
      if(i)G+=(bs[P[i-1].W]+bs[P[i].W])/4;
      if(i<n-1&&P[i].g!=G){ sprintf(det,"granule_model packet=%d g=%ld model=%ld",i,P[i].g,G); ret=2; goto done; }
      if(i==n-1&&P[i].g>G){ sprintf(det,"granule_model_last g=%ld model=%ld",P[i].g,G); ret=2; goto done; }
      P[i].g=G;
    }
    qmax=(long long)Mq*rate-(long long)maxr*hs; if(qmax<0)qmax=0;
    qmin=(long long)minr*hs-(long long)mq*rate; if(qmin<0)qmin=0;
    tr_max=(long long)maxr*(bs[1]-bs[0])/4; tr_min=(long long)minr*(bs[1]-bs[0])/4;
    base=(__int128)rate*((__int128)R+SLACK);
    for(i=0;i<n&&!viol;i++){
      long long bits=0,units=0; long gprev=(i?P[i-1].g:-(bs[P[0].W]/2));
      for(j=i;j<n;j++){
        long long dur=P[j].g-gprev,ex;
        bits+=P[j].bits; units+=(P[j].W?spl:1);
        if(maxr>0){
          ex=bits*rate-(long long)maxr*dur;
          if((double)ex/rate-R>worstp)worstp=(double)ex/rate-R;
          if((__int128)ex>base+tr_max+(__int128)units*qmax){
            viol="excess_over_max_exceeds_reservoir";
            sprintf(rdet,"packets %d..%d: %lld bits in %lld samples, excess %.1f bits > requested R=%ld + %.1f",i,j,bits,dur,(double)ex/rate,R,(double)(base+tr_max+units*qmax)/rate-R);
            break;
          }
        }
        if(minr>0){
          ex=(long long)minr*dur-bits*rate;
          if((double)ex/rate-R>worstm)worstm=(double)ex/rate-R;
          if((__int128)ex>base+tr_min+(__int128)units*qmin){
            viol="deficit_below_min_exceeds_reservoir";
            sprintf(rdet,"packets %d..%d: %lld bits in %lld samples, deficit %.1f bits > requested R=%ld + %.1f",i,j,bits,dur,(double)ex/rate,R,(double)(base+tr_min+units*qmin)/rate-R);
            break;
          }
        }
      }
    }
    es->worstp=worstp; es->worstm=worstm;
    if(viol)strcpy(det,rdet);
  }
  es->n=n; es->nshort=nshort; es->nlong=nlong; es->trunc=ntrunc; es->pad=npad; es->hit0=hit0; es->hitfull=hitfull; es->limited=limited; es->runs=(long)n*(n+1)/2;
  if(notinst){
    /* a requested limit / reservoir that never reached the rate manager; the run oracle result against the REQUESTED values goes along */
    char t[800]; snprintf(t,sizeof t,"%s; run oracle against the requested configuration: %s %s",ndet,viol?viol:"none",viol?det:"");
    snprintf(det,420,"%s",t);
    if(viol&&(!strcmp(viol,"excess_over_max_exceeds_reservoir")||!strcmp(viol,"deficit_below_min_exceeds_reservoir")))snprintf(kind,96,"limit_not_installed_%s+%s",notinst,viol);
    else snprintf(kind,96,"limit_not_installed_%s",notinst);
    ret=1;
  }else if(viol){ snprintf(kind,96,"%s",viol); ret=1; }
 done:
  vorbis_block_clear(&vb); vorbis_dsp_clear(&vd); vorbis_comment_clear(&vc);
  return ret;
}

/* fresh object: base + requests (no interleaved reads), final read-back vs the model, setup_init, encode, judge.
   expect: canonical real state the history must reproduce (NULL: not compared).  returns -1 diverged, -2 executor problem, else encode_judge's result */
static int fresh_encode(const par *p,const char *seq,const r2 *model,const rkey *expect,const char *sig,long nsamp,encstat *es,char *kind,char *det){
  vorbis_info vi; r2 want,fin; int i,rc,k; rkey rk; char b1[160],b2[160],kd[96],d2[420];
  vorbis_info_init(&vi);
  rc=base_setup(&vi,p);
  if(rc){ sprintf(det,"base_setup=%d",rc); vorbis_info_clear(&vi); return -2; }
  for(i=0;seq[i];i++)apply(&vi,seq[i],p,&want);
  if(expect){ canon_real(&vi,&rk); if(memcmp(&rk,expect,sizeof rk)){ sprintf(det,"history '%s' replayed on a fresh object does not reproduce the copied state",seq); vorbis_info_clear(&vi); return -1; } }
  getcfg(&vi,&fin);
  for(k=0;k<NMEMB;k++)if(memb_diff(&fin,model,k)){
    cfgstr(model,b1); cfgstr(&fin,b2); snprintf(kd,sizeof kd,"cfg:final_get_%s_differs_from_requested",MEMB[k]);
    snprintf(d2,sizeof d2,"after base '%c' + requests '%s' the application has requested %s but OV_ECTL_RATEMANAGE2_GET before vorbis_encode_setup_init reports %s",p->base,seq,b1,b2);
    addviol(kd,modeof(model),seq,"-",d2); }
  rc=vorbis_encode_setup_init(&vi);
  if(rc){ sprintf(det,"setup_init=%d",rc); vorbis_info_clear(&vi); return -2; }
  rc=encode_judge(&vi,model,sig,nsamp,es,kind,det);
  vorbis_info_clear(&vi);
  return rc==2?-2:rc;
}

/* ------------------------------------------------------------------------------------------------ the set-up graph */
typedef struct { skey key; codec_setup_info ci; vorbis_info vis; int parent; char sym; int depth; uint64_t tot[3]; int *next; signed char *nrc; } st;
static st *S; static int nS,capS;
static int *HT; static int htcap;
static uint64_t keyhash(const skey *k){ uint64_t f=0xcbf29ce484222325ULL; const unsigned char *c=(const unsigned char*)k; size_t j; for(j=0;j<sizeof *k;j++)f=(f^c[j])*0x100000001b3ULL; return f; }
static void ht_rebuild(void){ int i; htcap=capS*4; free(HT); HT=malloc(sizeof(int)*htcap); for(i=0;i<htcap;i++)HT[i]=-1;
  for(i=0;i<nS;i++){ uint64_t h=keyhash(&S[i].key)%htcap; while(HT[h]>=0)h=(h+1)%htcap; HT[h]=i; } }
static int intern(const skey *k,vorbis_info *vi,int parent,char sym,int depth,int nsym,int *isnew){
  uint64_t h=keyhash(k)%htcap; int i;
  while(HT[h]>=0){ if(!memcmp(&S[HT[h]].key,k,sizeof *k)){ *isnew=0; return HT[h]; } h=(h+1)%htcap; }
  if(nS>=capS){ capS*=2; S=realloc(S,sizeof(st)*capS); ht_rebuild(); h=keyhash(k)%htcap; while(HT[h]>=0)h=(h+1)%htcap; }
  i=nS++; memset(&S[i],0,sizeof(st)); S[i].key=*k; memcpy(&S[i].ci,vi->codec_setup,sizeof(codec_setup_info)); S[i].vis=*vi; S[i].parent=parent; S[i].sym=sym; S[i].depth=depth;
  S[i].next=malloc(sizeof(int)*nsym); S[i].nrc=malloc(nsym); { int j; for(j=0;j<nsym;j++)S[i].next[j]=-1; }
  HT[h]=i; *isnew=1; return i;
}
static void pathof(int s,char *out){ char t[MAXDEPTH+2]; int n=0,i; while(S[s].parent>=0&&n<MAXDEPTH+1){ t[n++]=S[s].sym; s=S[s].parent; } for(i=0;i<n;i++)out[i]=t[n-1-i]; out[n]=0; }
static void restore(vorbis_info *w,const st *s){ void *cs=w->codec_setup; memcpy(cs,&s->ci,sizeof(codec_setup_info)); *w=s->vis; w->codec_setup=cs; }

/* flag automaton over request histories: 0 = the reservoir in force was not requested by a RATEMANAGE2_SET with a hard max,
   1 = it was, 2 = it was AND a COUPLING_SET has been accepted since */
static int flagstep(int f,char s,int rc){
  if(rc)return f;
  switch(s){ case 'A': case 'C': return 1; case 'B': case 'S': case 'H': case 'N': return 0; case 'K': case 'k': return f>=1?2:f; }
  return f;
}

static void print_viols(void){ int i; printf(" nv=%d",nV); for(i=0;i<nV;i++)printf(" v%d=\"%s|%s|%s|%s|%s\"",i,V[i].kind,V[i].mode,V[i].seq,V[i].sig,V[i].det); }

static void run_bfs(long idx,const par *p,const char *alpha,int depth,long nsamp,int shard,int nshards,const char *sigmax,const char *sigmin,const char *sigboth){
  vorbis_info W; int nsym=strlen(alpha),i,a,d,isnew,rc; skey k; r2 model; long ntrans=0,nresync=0,nrej=0; char seq[MAXDEPTH+2],accs[(MAXSYM+1)*MAXDEPTH+2];
  uint64_t *cur=NULL,*nxt=NULL,paths=0; int acc[MAXDEPTH][MAXSYM]; long layer[MAXDEPTH+1];
  long judged=0,enc=0,validated=0,diverged=0,unmanaged=0,nolimit=0,unsat=0,byMode[4]={0,0,0,0};
  long packets=0,runs=0,trunc=0,pad=0,hit0=0,hitfull=0,nshort=0,nlong=0,nearmax=0,nearmin=0,kafter_states=0,kafter_judged_states=0; uint64_t kafter_near_paths=0,kafter_paths=0; double worstp=-1e18,worstm=-1e18;
  char execerr[300]; execerr[0]=0;
  nV=0; memset(acc,0,sizeof acc);
  if(depth>MAXDEPTH||nsym>MAXSYM){ printf("%ld cfgerr bounds\n",idx); return; }
  for(i=0;i<nsym;i++)if(!known_sym(alpha[i])){ printf("%ld cfgerr alphabet\n",idx); return; }
  nS=0; capS=1024; S=malloc(sizeof(st)*capS); HT=NULL; ht_rebuild();
  vorbis_info_init(&W);
  rc=base_setup(&W,p);
  if(rc){ printf("%ld cfgerr base_setup=%d\n",idx,rc); vorbis_info_clear(&W); free(S); free(HT); return; }
  getcfg(&W,&model);
  memset(&k,0,sizeof k); canon_real(&W,&k.r); canon_model(&model,&k.model);
  intern(&k,&W,-1,0,0,nsym,&isnew);
  { size_t cap=1<<16; cur=calloc(3*cap,sizeof(uint64_t)); nxt=calloc(3*cap,sizeof(uint64_t));
    cur[0]=1; S[0].tot[0]=1; paths=1; layer[0]=1;
    for(d=0;d<depth;d++){
      int nS0=nS; long lcount=0;
      memset(nxt,0,3*cap*sizeof(uint64_t));
      for(i=0;i<nS0;i++){
        int f;
        if(!(cur[3*i]|cur[3*i+1]|cur[3*i+2]))continue;
        for(a=0;a<nsym;a++){
          int t;
          if(S[i].next[a]<0){
            r2 m=S[i].key.model;
            restore(&W,&S[i]);
            pathof(i,seq); { int l=strlen(seq); seq[l]=alpha[a]; seq[l+1]=0; }
            rc=step(&W,alpha[a],p,&m,seq,&nresync);
            ntrans++; if(rc)nrej++;
            memset(&k,0,sizeof k); canon_real(&W,&k.r); canon_model(&m,&k.model);
            if(alpha[a]=='g'&&memcmp(&k.r,&S[i].key.r,sizeof(rkey)))addviol("cfg:state_changed_by_get",modeof(&m),seq,"-","the read requests changed the set-up object");
            t=intern(&k,&W,i,alpha[a],d+1,nsym,&isnew);
            if((size_t)nS>=cap){ printf("%ld cfgerr too_many_states\n",idx); goto out; }
            S[i].next[a]=t; S[i].nrc[a]=(rc==0?0:1);
          }
          t=S[i].next[a]; rc=S[i].nrc[a];
          if(!rc)acc[d][a]=1;
          for(f=0;f<3;f++)if(cur[3*i+f]){ int f2=flagstep(f,alpha[a],rc); nxt[3*t+f2]+=cur[3*i+f]; }
        }
      }
      for(i=0;i<nS;i++){ int f; for(f=0;f<3;f++){ S[i].tot[f]+=nxt[3*i+f]; paths+=nxt[3*i+f]; } if(nxt[3*i]|nxt[3*i+1]|nxt[3*i+2])lcount++; }
      layer[d+1]=lcount;
      { uint64_t *t=cur; cur=nxt; nxt=t; }
    }
  }
  /* judged states */
  for(i=0;i<nS;i++){
    const r2 *m=&S[i].key.model; const char *mode=modeof(m),*sigs; char sl[64],*tok,*sv; int mi; int near_any=0,nenc_here=0;
    if(!strcmp(mode,"off")){ unmanaged++; continue; }
    if(!strcmp(mode,"nolimit")){ nolimit++; continue; }
    if(!strcmp(mode,"unsat")){ unsat++; continue; }
    mi=!strcmp(mode,"max")?0:!strcmp(mode,"min")?1:!strcmp(mode,"both")?2:3; byMode[mi]++;
    if(S[i].tot[2]){ kafter_judged_states++; kafter_paths+=S[i].tot[2]; }
    if((judged++)%nshards!=shard)continue;
    sigs=mi==0?sigmax:mi==1?sigmin:sigboth;
    snprintf(sl,sizeof sl,"%s",sigs); pathof(i,seq);
    for(tok=strtok_r(sl,",",&sv);tok;tok=strtok_r(NULL,",",&sv)){
      encstat es; char kind[96],det[420]; int r;
      r=fresh_encode(p,seq,m,&S[i].key.r,tok,nsamp,&es,kind,det);
      if(r==-1){ diverged++; snprintf(execerr,sizeof execerr,"%s",det); break; }
      if(r==-2){ snprintf(execerr,sizeof execerr,"seq=%s sig=%s %s",seq,tok,det); continue; }
      if(!nenc_here++)validated++;            /* the history reproduced the copied state on a fresh object */
      enc++;
      packets+=es.n; runs+=es.runs; trunc+=es.trunc; pad+=es.pad; hit0+=es.hit0; hitfull+=es.hitfull; nshort+=es.nshort; nlong+=es.nlong;
      if(m->bitrate_limit_max_kbps>0&&es.worstp>worstp)worstp=es.worstp;
      if(m->bitrate_limit_min_kbps>0&&es.worstm>worstm)worstm=es.worstm;
      if(m->bitrate_limit_max_kbps>0&&es.worstp>=-0.1*es.R){ nearmax++; near_any=1; }
      if(m->bitrate_limit_min_kbps>0&&es.worstm>=-0.1*es.R)nearmin++;
      if(r==1)addviol(kind,mode,seq,tok,det);
    }
    if(near_any&&S[i].tot[2]){ kafter_states++; kafter_near_paths+=S[i].tot[2]; }
  }
 out:
  { int j=0; for(d=0;d<depth;d++){ for(a=0;a<nsym;a++)accs[j++]=acc[d][a]?'1':'0'; accs[j++]=(d==depth-1)?0:'/'; } accs[j]=0; }
  if(execerr[0]&&!diverged){ printf("%ld cfgerr %s\n",idx,execerr); }
  else{
    char wps[32],wms[32];
    if(worstp>-1e17)sprintf(wps,"%.1f",worstp); else strcpy(wps,"na");
    if(worstm>-1e17)sprintf(wms,"%.1f",worstm); else strcpy(wms,"na");
    printf("%ld %s states=%d trans=%ld paths=%llu depth=%d nsym=%d rejected=%ld resync=%ld acc=%s layers=",idx,nV?"VIOL":"ok",nS,ntrans,(unsigned long long)paths,depth,nsym,nrej,nresync,accs);
    for(d=0;d<=depth;d++)printf("%ld%s",layer[d],d==depth?"":"/");
    printf(" judged=%ld jmax=%ld jmin=%ld jboth=%ld jcbr=%ld off=%ld nolimit=%ld unsat=%ld enc=%ld validated=%ld diverged=%ld packets=%ld runs=%ld trunc=%ld pad=%ld hit0=%ld hitfull=%ld short=%ld long=%ld"
           " nearmax=%ld nearmin=%ld worstp=%s worstm=%s kafter_judged_states=%ld kafter_paths=%llu kafter_near_states=%ld kafter_near_paths=%llu",
           judged,byMode[0],byMode[1],byMode[2],byMode[3],unmanaged,nolimit,unsat,enc,validated,diverged,packets,runs,trunc,pad,hit0,hitfull,nshort,nlong,
           nearmax,nearmin,wps,wms,kafter_judged_states,(unsigned long long)kafter_paths,kafter_states,(unsigned long long)kafter_near_paths);
    if(diverged)printf(" divergence=\"%s\"",execerr);
    if(nV)print_viols();
    printf("\n");
  }
  free(cur); free(nxt);
  for(i=0;i<nS;i++){ free(S[i].next); free(S[i].nrc); }
  vorbis_info_clear(&W); free(S); free(HT); S=NULL; HT=NULL;
}

static void run_seq(long idx,const par *p,const char *seq,const char *sig,long nsamp){
  vorbis_info W; r2 model; int i,rc,r; long nresync=0; char hist[MAXDEPTH+2],rcs[64],kind[96],det[420]; encstat es; const char *mode; rkey rk;
  nV=0; rcs[0]=0;
  if(!strcmp(seq,"-"))seq="";
  if(strlen(seq)>MAXDEPTH){ printf("%ld cfgerr bounds\n",idx); return; }
  for(i=0;seq[i];i++)if(!known_sym(seq[i])){ printf("%ld cfgerr alphabet\n",idx); return; }
  vorbis_info_init(&W);
  rc=base_setup(&W,p);
  if(rc){ printf("%ld cfgerr base_setup=%d\n",idx,rc); vorbis_info_clear(&W); return; }
  getcfg(&W,&model);
  for(i=0;seq[i];i++){ memcpy(hist,seq,i+1); hist[i+1]=0; rc=step(&W,seq[i],p,&model,hist,&nresync); sprintf(rcs+strlen(rcs),"%s%d",i?",":"",rc); }
  canon_real(&W,&rk);
  vorbis_info_clear(&W);
  mode=modeof(&model);
  if(!strcmp(mode,"off")||!strcmp(mode,"nolimit")||!strcmp(mode,"unsat")){
    printf("%ld %s mode=%s rcs=%s enc=0",idx,nV?"VIOL":"ok",mode,rcs[0]?rcs:"-"); if(nV)print_viols(); printf("\n"); return; }
  r=fresh_encode(p,seq,&model,&rk,sig,nsamp,&es,kind,det);
  if(r==-1){ printf("%ld cfgerr diverged %s\n",idx,det); return; }
  if(r==-2){ printf("%ld cfgerr %s\n",idx,det); return; }
  if(r==1)addviol(kind,mode,seq,sig,det);
  { char cs[200]; cfgstr(&model,cs);
    printf("%ld %s mode=%s rcs=%s enc=1 requested=%s n=%ld short=%ld long=%ld worstp=%.1f worstm=%.1f trunc=%ld pad=%ld hit0=%ld hitfull=%ld runs=%ld",idx,nV?"VIOL":"ok",mode,rcs[0]?rcs:"-",cs,
           es.n,es.nshort,es.nlong,es.worstp>-1e17?es.worstp:0.,es.worstm>-1e17?es.worstm:0.,es.trunc,es.pad,es.hit0,es.hitfull,es.runs); }
  if(nV)print_viols();
  printf("\n");
}

int main(int argc,char **argv){
  const char *cases=NULL; int i; FILE *cf; char *line=NULL; size_t lcap=0; int timeout=600;
  for(i=1;i<argc;i++){ if(!strcmp(argv[i],"--cases"))cases=argv[++i]; else if(!strcmp(argv[i],"--timeout"))timeout=atoi(argv[++i]); }
  if(!cases)return 2;
  cf=fopen(cases,"r"); if(!cf)return 2;
  signal(SIGVTALRM,on_alarm);
  { struct rlimit rl; rl.rlim_cur=rl.rlim_max=(rlim_t)3<<30; setrlimit(RLIMIT_AS,&rl); }
  while(getline(&line,&lcap,cf)>0){
    long idx,nsamp; par p; char mode[16],base[8],alpha[64],sig[16],s1[64],s2[64],s3[64]; int depth,shard,nshards,nf; struct itimerval it;
    memset(&p,0,sizeof p);
    if(sscanf(line,"%ld %15s",&idx,mode)!=2)continue;
    g_cur=idx;
    memset(&it,0,sizeof(it)); it.it_value.tv_sec=timeout; setitimer(ITIMER_VIRTUAL,&it,NULL);
    if(!strcmp(mode,"bfs")){
      nf=sscanf(line,"%*d %*s %7s %ld %d %ld %lf %ld %ld %ld %ld %lf %63s %d %ld %d %d %63s %63s %63s",base,&p.rate,&p.ch,&p.tmplk,&p.q,&p.mx,&p.mn,&p.hi,&p.lo,&p.lp,alpha,&depth,&nsamp,&shard,&nshards,s1,s2,s3);
      if(nf!=18||nshards<1){ printf("%ld cfgerr parse\n",idx); }
      else { p.base=base[0]; run_bfs(idx,&p,alpha,depth,nsamp,shard,nshards,s1,s2,s3); }
    }else if(!strcmp(mode,"seq")){
      nf=sscanf(line,"%*d %*s %7s %ld %d %ld %lf %ld %ld %ld %ld %lf %63s %15s %ld",base,&p.rate,&p.ch,&p.tmplk,&p.q,&p.mx,&p.mn,&p.hi,&p.lo,&p.lp,alpha,sig,&nsamp);
      if(nf!=13){ printf("%ld cfgerr parse\n",idx); }
      else { p.base=base[0]; run_seq(idx,&p,alpha,sig,nsamp); }
    }else printf("%ld cfgerr mode\n",idx);
    fflush(stdout);
    memset(&it,0,sizeof(it)); setitimer(ITIMER_VIRTUAL,&it,NULL);
  }
  return 0;
}
