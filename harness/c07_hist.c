/* c07_hist: C07 family "plain seek judged after a history of the OTHER state-changing vorbisfile calls".
 *
 * Every case opens a fresh seekable handle THIS (and lazily a second handle OTHER on the same file), replays a
 * short history of prior calls, then issues ONE judged plain seek whose target may be given relative to the
 * position the handle reports at that moment, and finally reads THIS through to the end, comparing with the
 * uninterrupted linear decode (full-rate or half-rate reference, whichever mode the handle is in).
 *
 * usage: c07_hist --files list.txt --cases cases.txt [--timeout s]
 * case line:  <idx> <file#> op op ... J <judged op>
 *   reads        rf<n>  ri<bytes>  rE (ov_read_float(4096) until it returns 0)
 *   plain seeks  ps<t> pp<t> ts<t> tp<t> rs<t>          lapped seeks  PS<t> PP<t> TS<t> TP<t> RS<t>
 *       <t> for ps/pp/ts/tp (and lapped twins): a SAMPLE position; the time kinds convert it to "the time of that sample"
 *           seconds = sum of ov_time_total of the earlier links + (p - link start + 0.25)/rate   (p<0 -> -1.0 s; p>=total -> total duration (+1 s if beyond))
 *       <t> for rs/RS: a byte offset
 *       <t> = integer | @+N | @-N | @+h | @-h | @+H | @-H     (@ = ov_pcm_tell, for rs/RS ov_raw_tell; h = short block/2, H = long block/2 of the current link)
 *   half rate    h1 h0
 *   crosslap     XA<p> : [ov_pcm_seek(OTHER,p) unless p is '-'] ov_crosslap(THIS,OTHER)      (THIS donates its tail)
 *                XB<p> : [ov_pcm_seek(OTHER,p) unless '-'] ov_read_float(OTHER,37) ov_crosslap(OTHER,THIS)   (THIS receives the lap)
 * output: <idx> R=rc:tell,... J=<rc of judged> B=<tell before judged> G=<resolved target> T=<tell after> S=<half-rate at judged> P=<probe> H=<state hash before judged> F=<flags> X=<most lapout calls on one decoded block> I=<1: case finished in an isolated continuation>
 *     flag oobwrite: the bytes behind a decoder PCM buffer changed during a prior call (see the monitor below)
 *     or: <idx> LAPDIED ...   (the isolated continuation died before it could report)
 */
#include "vfcommon.h"
#include <math.h>
#include <setjmp.h>

/* ---- lap exposure monitor (link-time wrappers, see pylib/c07_hist.py WRAPS) --------------------------------------------
 * ov_crosslap and the *_lap seeks take the pointer vorbis_synthesis_lapout() hands out and splice up to half a short block
 * into it without looking at the count it returns.  lapout is not idempotent on streams with two block sizes: every call on
 * the same decoded block moves the data and the pointer further up.  A history that exposes one block several times can make
 * _ov_splice write behind the PCM buffer, and a damaged heap would poison every later case of this process.
 * The wrapper does not predict anything: when lapout returns a pointer with less than half a short block of buffer behind it,
 * the rest of the CASE is continued in a forked child (the real library code decides what happens; the child reports the
 * case and exits), the parent abandons the case without executing the splice.  The child additionally keeps a copy of the
 * bytes directly behind the buffer and compares them when the API call returns: a difference is proof of an out-of-bounds
 * write (flag oobwrite); no difference proves nothing and is not reported. */
#include <sys/wait.h>
extern int __real_vorbis_synthesis_lapout(vorbis_dsp_state *v,float ***pcm);
extern int __real_vorbis_synthesis_blockin(vorbis_dsp_state *v,vorbis_block *vb);
extern int __real_vorbis_synthesis_restart(vorbis_dsp_state *v);
extern int __real_vorbis_synthesis_init(vorbis_dsp_state *v,vorbis_info *vi);
#if defined(__SANITIZE_ADDRESS__)
#define C07_ASAN 1
#elif defined(__has_feature)
#if __has_feature(address_sanitizer)
#define C07_ASAN 1
#endif
#endif
static jmp_buf g_case_jmp; static int g_in_op=0; static int g_child=0; static int g_timeout=20;
static volatile long g_cur_idx=-1; static char g_optok[64];
static vorbis_dsp_state *g_ex_vd[2]; static int g_ex_cnt[2]; static int g_ex_max=0;
#define SNAPMAX 4096
static int g_snap_on=0,g_snap_ch=0; static long g_snap_n=0; static float *g_snap_at[8]; static float g_snap[8][SNAPMAX];
static long g_iso_ret=0,g_iso_store=0; static int g_iso_expo=0;
static int *ex_slot(vorbis_dsp_state *v){ int i; for(i=0;i<2;i++)if(g_ex_vd[i]==v)return &g_ex_cnt[i]; for(i=0;i<2;i++)if(!g_ex_vd[i]){ g_ex_vd[i]=v; g_ex_cnt[i]=0; return &g_ex_cnt[i]; } return NULL; }
static void ex_reset(vorbis_dsp_state *v){ int *c=ex_slot(v); if(c)*c=0; }
int __wrap_vorbis_synthesis_lapout(vorbis_dsp_state *v,float ***pcm){
  int r=__real_vorbis_synthesis_lapout(v,pcm); int *c=ex_slot(v); int e=0;
  if(c){ e=++*c; if(e>g_ex_max)g_ex_max=e; }
  if(g_in_op&&pcm&&v->pcm_returned>=0&&v->vi&&v->vi->codec_setup&&v->backend_state){
    codec_setup_info *ci=(codec_setup_info*)v->vi->codec_setup; int hs=((private_state*)v->backend_state)->halfrate;
    long n0=ci->blocksizes[0]>>(1+hs);
    if(v->pcm_returned+n0>v->pcm_storage&&!g_snap_on){
      pid_t pid; fflush(stdout); fflush(stderr);
      g_iso_ret=v->pcm_returned; g_iso_store=v->pcm_storage; g_iso_expo=e;
      pid=fork();
      if(pid<0){ printf("%ld FORKFAIL\n",g_cur_idx); fflush(stdout); longjmp(g_case_jmp,1); }
      if(pid>0){
        int st=0; while(waitpid(pid,&st,0)<0&&errno==EINTR){}
        if(WIFSIGNALED(st)||(WIFEXITED(st)&&WEXITSTATUS(st)!=0&&WEXITSTATUS(st)!=3)){
          /* the continuation died before it could report */
          printf("%ld LAPDIED %s%d op=%s exposures=%d pcm_returned=%ld storage=%ld\n",g_cur_idx,WIFSIGNALED(st)?"signal":"exit",WIFSIGNALED(st)?WTERMSIG(st):WEXITSTATUS(st),g_optok,e,g_iso_ret,g_iso_store);
          fflush(stdout);
        }
        longjmp(g_case_jmp,1);
      }
      /* child: go on with the real code */
      g_child=1;
      { struct itimerval it; memset(&it,0,sizeof(it)); it.it_value.tv_sec=g_timeout; setitimer(ITIMER_VIRTUAL,&it,NULL); }
#ifndef C07_ASAN
      {
        int j; long from=v->pcm_returned>v->pcm_storage?v->pcm_returned:v->pcm_storage; long to=v->pcm_returned+n0;
        g_snap_n=to-from; if(g_snap_n>SNAPMAX)g_snap_n=SNAPMAX;
        g_snap_ch=v->vi->channels>8?8:v->vi->channels;
        for(j=0;j<g_snap_ch;j++){ g_snap_at[j]=v->pcm[j]+from; memcpy(g_snap[j],g_snap_at[j],sizeof(float)*g_snap_n); }
        g_snap_on=1;
      }
#endif
    }
  }
  return r;
}
int __wrap_vorbis_synthesis_blockin(vorbis_dsp_state *v,vorbis_block *vb){ ex_reset(v); return __real_vorbis_synthesis_blockin(v,vb); }
int __wrap_vorbis_synthesis_restart(vorbis_dsp_state *v){ ex_reset(v); return __real_vorbis_synthesis_restart(v); }
int __wrap_vorbis_synthesis_init(vorbis_dsp_state *v,vorbis_info *vi){ ex_reset(v); return __real_vorbis_synthesis_init(v,vi); }

static void on_alarm(int s){
  char b[64]; int n=snprintf(b,sizeof(b),"%ld TIMEOUT\n",g_cur_idx);
  (void)s; fflush(stdout); if(write(1,b,n)<0){} _exit(3);
}

static int cur_hs(OggVorbis_File *vf){
  return (vf->vi&&vf->vi->codec_setup)?((codec_setup_info*)vf->vi->codec_setup)->halfrate_flag:0;
}

/* the oracle: position reported now = T; everything read from here on must be the linear decode from T on */
static void read_through(OggVorbis_File *vf,vfile *F,char *out,size_t outn){
  int hs=cur_hs(vf); refdec *r; long nread=0,T0,pos,expect=0; int l;
  if(hs){ need_href(F); r=&F->href; } else { need_ref(F); r=&F->ref; }
  if(!r->ok){ snprintf(out,outn,"noref"); return; }
  T0=(long)ov_pcm_tell(vf); pos=T0;
  if(T0<0){ snprintf(out,outn,"bad:negtell:%ld",T0); return; }
  for(;;){
    float **pcm; int bs=-1,c; long t=(long)ov_pcm_tell(vf),n,idx,ta;
    n=ov_read_float(vf,&pcm,4096,&bs);
    if(n==0)break;
    if(n<0){ snprintf(out,outn,"bad:readerr%ld:%ld",n,t); return; }
    ta=(long)ov_pcm_tell(vf);
    if(bs<0||bs>=r->nlinks){ snprintf(out,outn,"bad:link%d:%ld",bs,t); return; }
    if(t<r->start[bs]){ snprintf(out,outn,"bad:tellbeforelink%d:%ld",bs,t); return; }
    if(hs&&((t-r->start[bs])&1)){ snprintf(out,outn,"bad:oddtell:%ld",t); return; }
    idx=(t-r->start[bs])>>hs;
    if(idx+n>r->len[bs]){ snprintf(out,outn,"bad:overrun:%ld:link%d:idx%ld+%ld>%ld",t,bs,idx,n,r->len[bs]); return; }
    if(ov_info(vf,-1)->channels!=r->ch[bs]){ snprintf(out,outn,"bad:channels:%ld",t); return; }
    for(c=0;c<r->ch[bs];c++){
      if(memcmp(pcm[c],r->pcm[bs][c]+idx,sizeof(float)*n)){
        long k; for(k=0;k<n;k++)if(memcmp(&pcm[c][k],&r->pcm[bs][c][idx+k],sizeof(float)))break;
        snprintf(out,outn,"bad:pcm:%ld:link%d:ch%d:off%ld",t,bs,c,k); return;
      }
    }
    if(ta!=t+(n<<hs)){ snprintf(out,outn,"bad:advance:%ld:%ld->%ld",t,n,ta); return; }
    if(t!=pos){
      /* a jump is legitimate only at a link boundary in half-rate mode behind an odd-length link */
      int okb=0; for(l=1;l<r->nlinks;l++)if(t==r->start[l]&&hs&&pos==t+1)okb=1;
      if(!okb){ snprintf(out,outn,"bad:discont:%ld:expected%ld",t,pos); return; }
    }
    pos=ta; nread+=n;
  }
  for(l=0;l<r->nlinks;l++){
    long s=r->start[l],li0=(T0<=s)?0:((T0-s+hs)>>hs);
    if(li0<r->len[l])expect+=r->len[l]-li0;
  }
  if(nread!=expect){ snprintf(out,outn,"bad:count:%ld:read%ld:expected%ld",T0,nread,expect); return; }
  /* read through to the end ends at the total (one past it in half-rate mode when the total is odd) */
  if(nread>0&&pos!=F->pcm_total&&!(hs&&pos==F->pcm_total+1)){ snprintf(out,outn,"bad:endpos:%ld:total%ld",pos,F->pcm_total); return; }
  snprintf(out,outn,"ok:%ld",nread);
}

/* "the time of sample p" as vorbisfile's own link arithmetic sees it */
static double time_of_sample(OggVorbis_File *vf,long p){
  int k,link=0; long start=0,s=0; double tt=0.,t0=0.; long total=(long)ov_pcm_total(vf,-1);
  if(p<0)return -1.0;
  if(p>=total)return ov_time_total(vf,-1)+(p>total?1.0:0.0);
  for(k=0;k<vf->links;k++){
    if(s<=p){ link=k; start=s; t0=tt; }
    s+=(long)ov_pcm_total(vf,k); tt+=ov_time_total(vf,k);
  }
  return t0+((double)(p-start)+0.25)/(double)ov_info(vf,link)->rate;
}

/* resolve a target token; base = current pcm tell (or raw tell) */
static long resolve(OggVorbis_File *vf,const char *s,long base){
  if(s[0]=='@'){
    int sign=(s[1]=='-')?-1:1; const char *a=s+2; long d;
    vorbis_info *vi=ov_info(vf,-1);
    if(a[0]=='h')d=vi?vorbis_info_blocksize(vi,0)/2:0;
    else if(a[0]=='H')d=vi?vorbis_info_blocksize(vi,1)/2:0;
    else d=atol(a);
    return base+sign*d;
  }
  return atol(s);
}

typedef struct { OggVorbis_File vf; memio m; int open; } handle;
static handle *g_A=NULL,*g_B=NULL;

int main(int argc,char **argv){
  const char *files=NULL,*cases=NULL; int timeout=20; int i; FILE *cf; char *line=NULL; size_t cap=0;
  for(i=1;i<argc;i++){
    if(!strcmp(argv[i],"--files"))files=argv[++i];
    else if(!strcmp(argv[i],"--cases"))cases=argv[++i];
    else if(!strcmp(argv[i],"--timeout"))timeout=atoi(argv[++i]);
  }
  g_timeout=timeout;
  if(!files||!cases){ fprintf(stderr,"usage\n"); return 2; }
  load_files(files);
  cf=fopen(cases,"r"); if(!cf)return 2;
  signal(SIGVTALRM,on_alarm);
  while(getline(&line,&cap,cf)>0){
    char *sv,*tok; long idx; int fno; vfile *F; handle A,B; struct itimerval it;
    char rbuf[4096]; size_t rl=0; char flags[256]; char pres[256]; char hx[40];
    int judged=0,seenJ=0; long jrc=-999,jb=-1,jg=-1,jt=-1; int jhs=0;
    flags[0]=0; rbuf[0]=0; strcpy(pres,"-"); strcpy(hx,"-");
    tok=strtok_r(line," \n",&sv); if(!tok)continue; idx=atol(tok); g_cur_idx=idx;
    tok=strtok_r(NULL," \n",&sv); if(!tok){ printf("%ld BADCASE\n",idx); continue; }
    fno=atoi(tok);
    if(fno<0||fno>=g_nfiles){ printf("%ld BADCASE\n",idx); continue; }
    F=&g_files[fno];
    need_href(F);                                  /* references outside the watchdog */
    memset(&it,0,sizeof(it)); it.it_value.tv_sec=timeout; setitimer(ITIMER_VIRTUAL,&it,NULL);
    memset(&A,0,sizeof(A)); memset(&B,0,sizeof(B));
    mio_init(&A.m,F->data,F->len);
    if(ov_open_callbacks(&A.m,&A.vf,NULL,0,mio_cb_seekable)<0){ printf("%ld OPENFAIL\n",idx); fflush(stdout); continue; }
    A.open=1;
    g_ex_vd[0]=g_ex_vd[1]=NULL; g_ex_cnt[0]=g_ex_cnt[1]=0; g_ex_max=0; g_in_op=0;
    if(setjmp(g_case_jmp)){
      /* parent side of an isolated continuation (or a nested one inside a child): the case has been reported by the child */
      g_in_op=0;
      memset(&it,0,sizeof(it)); setitimer(ITIMER_VIRTUAL,&it,NULL);
      if(g_child)_exit(0);
      if(g_A&&g_A->open)ov_clear(&g_A->vf);
      if(g_B&&g_B->open)ov_clear(&g_B->vf);
      continue;
    }
    g_A=&A; g_B=&B; g_snap_on=0;
    while((tok=strtok_r(NULL," \n",&sv))){
      OggVorbis_File *vf=&A.vf; long rc=0,ta;
      strncpy(g_optok,tok,sizeof(g_optok)-1); g_optok[sizeof(g_optok)-1]=0; g_in_op=1;
      if(judged){ printf("%ld BADOP trailing %s\n",idx,tok); goto next; }
      if(!strcmp(tok,"J")){ seenJ=1; continue; }
      if(seenJ){
        h128 sh; h_init(&sh); vf_state_hash(vf,&A.m,&sh); h_hex(&sh,hx);
        jb=(long)ov_pcm_tell(vf); jhs=cur_hs(vf);
      }
      if(!strncmp(tok,"rf",2)){ float **pcm; int bs=-1; rc=ov_read_float(vf,&pcm,atoi(tok+2),&bs); }
      else if(!strncmp(tok,"ri",2)){ static char buf[1<<16]; int bs=-1; int len=atoi(tok+2); if(len>(int)sizeof(buf))len=sizeof(buf); rc=ov_read(vf,buf,len,0,2,1,&bs); }
      else if(!strcmp(tok,"rE")){ float **pcm; int bs=-1; long n,g=0; while((n=ov_read_float(vf,&pcm,4096,&bs))>0&&g++<100000){} rc=n; }
      else if(!strcmp(tok,"h1"))rc=ov_halfrate(vf,1);
      else if(!strcmp(tok,"h0"))rc=ov_halfrate(vf,0);
      else if((tok[0]=='X')&&(tok[1]=='A'||tok[1]=='B')){
        if(!B.open){
          mio_init(&B.m,F->data,F->len);
          if(ov_open_callbacks(&B.m,&B.vf,NULL,0,mio_cb_seekable)<0){ printf("%ld OPENFAIL other\n",idx); goto next; }
          B.open=1;
        }
        if(tok[2]!='-'){ if(ov_pcm_seek(&B.vf,atol(tok+2))){ strcat(flags,flags[0]?",other_seek_failed":"other_seek_failed"); } }
        if(tok[1]=='A')rc=ov_crosslap(&A.vf,&B.vf);
        else{ float **pcm; int bs=-1; ov_read_float(&B.vf,&pcm,37,&bs); rc=ov_crosslap(&B.vf,&A.vf); }
      }
      else if(strlen(tok)>2&&strchr("prtPRT",tok[0])&&strchr("spSP",tok[1])){
        int lap=(tok[0]>='A'&&tok[0]<='Z'); char k0=lap?(char)(tok[0]-'A'+'a'):tok[0]; char k1=lap?(char)(tok[1]-'A'+'a'):tok[1];
        long base=(k0=='r')?(long)ov_raw_tell(vf):(long)ov_pcm_tell(vf);
        long tgt=resolve(vf,tok+2,base);
        if(seenJ)jg=tgt;
        if(k0=='p'&&k1=='s')rc=lap?ov_pcm_seek_lap(vf,tgt):ov_pcm_seek(vf,tgt);
        else if(k0=='p'&&k1=='p')rc=lap?ov_pcm_seek_page_lap(vf,tgt):ov_pcm_seek_page(vf,tgt);
        else if(k0=='r'&&k1=='s')rc=lap?ov_raw_seek_lap(vf,tgt):ov_raw_seek(vf,tgt);
        else if(k0=='t'&&k1=='s'){ double s=time_of_sample(vf,tgt); rc=lap?ov_time_seek_lap(vf,s):ov_time_seek(vf,s); }
        else if(k0=='t'&&k1=='p'){ double s=time_of_sample(vf,tgt); rc=lap?ov_time_seek_page_lap(vf,s):ov_time_seek_page(vf,s); }
        else { printf("%ld BADOP %s\n",idx,tok); goto next; }
        if(seenJ&&lap){ printf("%ld BADOP judged call must be a plain seek: %s\n",idx,tok); goto next; }
      }
      else { printf("%ld BADOP %s\n",idx,tok); goto next; }
      g_in_op=0;
      if(g_snap_on==1){
        int j; g_snap_on=2;                       /* one isolation per case; the comparison is made once, right after the API call that was continued */
        for(j=0;j<g_snap_ch;j++)if(memcmp(g_snap[j],g_snap_at[j],sizeof(float)*g_snap_n)){ strcat(flags,flags[0]?",oobwrite":"oobwrite"); break; }
      }
      ta=(long)ov_pcm_tell(vf);
      if(seenJ){ judged=1; jrc=rc; jt=ta; }
      else if(rl+48<sizeof(rbuf))rl+=snprintf(rbuf+rl,sizeof(rbuf)-rl,"%s%ld:%ld",rl?",":"",rc,ta);
    }
    if(judged&&jrc==0)read_through(&A.vf,F,pres,sizeof(pres));
    else if(!seenJ)read_through(&A.vf,F,pres,sizeof(pres));      /* a bare history: probe the state itself (used for the linear-decode row only) */
    memset(&it,0,sizeof(it)); setitimer(ITIMER_VIRTUAL,&it,NULL);
    printf("%ld R=%s J=%ld B=%ld G=%ld T=%ld S=%d P=%s H=%s F=%s X=%d I=%d\n",idx,rbuf[0]?rbuf:"-",jrc,jb,jg,jt,jhs,pres,hx,flags[0]?flags:"-",g_ex_max,g_child);
    fflush(stdout);
    if(g_child)_exit(0);                           /* isolated continuation: reported, done (the heap of this process is not trusted any more) */
    next:
    if(g_child)_exit(0);
    if(A.open)ov_clear(&A.vf);
    if(B.open)ov_clear(&B.vf);
    memset(&it,0,sizeof(it)); setitimer(ITIMER_VIRTUAL,&it,NULL);
  }
  return 0;
}
