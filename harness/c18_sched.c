/* c18_sched: stateless model checking of thread schedules over independent codec instances (property C18).
 *
 *  - N real OS threads, exactly one runnable at a time (semaphore hand-off), scheduling points at
 *      level 1 : step boundaries of a body (groups of API calls, 8-14 per body)      "g1"
 *      level 2 : every single API call boundary                                      "g1f"
 *      level 3 : every allocator call made while a thread is inside an API call      "g2"
 *    granularity G: points of level <= G are scheduling points.
 *  - DFS over choice sequences in canonical order (running thread first when still enabled, then ascending ids),
 *    replay a prefix then choice 0; a switch away from a still-enabled thread costs one preemption; all schedules
 *    with <= c preemptions below a shard prefix are executed.  Every schedule runs in a freshly forked child so
 *    that any file-scope state of the library is cold for every schedule and a crash is attributed to one schedule.
 *  - Oracle: per-thread digest (return codes, packet bytes, PCM) == solo digest; fenv control state unchanged by
 *    every API call.
 *  - modes: --cases <file> (plan / sched / one / fill lines), --free (free-running threads; the TSan pass when
 *    built with -DC18_TSAN on the tsan flavour), --solo-raw (for valgrind), --mkfloor0 (synthesise a floor-0 stream),
 *    --selfrace (TSan engine self-test).
 */
#define WA_SLOTS (1<<15)
#include "common.h"
#include "codec_internal.h"
#include "registry.h"
#include "codebook.h"
#include <pthread.h>
#include <semaphore.h>
#include <fenv.h>
#include <math.h>
#include <sys/mman.h>
#include <time.h>
#include <xmmintrin.h>
#include <stddef.h>
#if defined(__has_include)
# if __has_include(<valgrind/memcheck.h>)
#  include <valgrind/memcheck.h>
#  define HAVE_VG 1
# endif
#endif
#ifndef HAVE_VG
# define VALGRIND_CHECK_MEM_IS_DEFINED(p,n) 0
# define RUNNING_ON_VALGRIND 0
#endif

#ifdef C18_TSAN
/* the tsan flavour is linked without --wrap: give common.h's __real_* a plain meaning */
void *__real_malloc(size_t n){ return malloc(n); }
void *__real_calloc(size_t a,size_t b){ return calloc(a,b); }
void *__real_realloc(void *p,size_t n){ return realloc(p,n); }
void __real_free(void *p){ free(p); }
#endif

#define MAXT 4
#define MAXD (1<<18)          /* max recorded decisions per schedule */
#define MAXSTEP 48

/* ------------------------------------------------------------------ streams (read-only after start-up) */
typedef struct { unsigned char *data; long len; int npk; unsigned char **pk; long *pkn; ogg_int64_t *gran; int have; } stream_t;
enum { ST_S1=0, ST_S2, ST_F0, ST_CH, ST_PL, ST_PR, ST_CQ, NSTREAMS };
static stream_t g_st[NSTREAMS];
static const char *g_stname[NSTREAMS]={"s1","s2","f0","ch","pl","pr","cq"};   /* pl/pr: coupled stereo with a digitally silent left/right channel */

static void stream_load(stream_t *s,const char *path){
  ogg_sync_state oy; ogg_stream_state os; ogg_page og; ogg_packet op; int init=0; long off=0; int cap=0;
  s->data=load_file(path,&s->len); s->have=1;
  ogg_sync_init(&oy);
  while(off<s->len){
    long c=s->len-off>4096?4096:s->len-off; char *b=ogg_sync_buffer(&oy,c); memcpy(b,s->data+off,c); ogg_sync_wrote(&oy,c); off+=c;
    while(ogg_sync_pageout(&oy,&og)==1){
      if(!init){ ogg_stream_init(&os,ogg_page_serialno(&og)); init=1; }
      if(ogg_page_serialno(&og)!=os.serialno)continue;   /* first logical stream only */
      ogg_stream_pagein(&os,&og);
      while(ogg_stream_packetout(&os,&op)==1){
        if(s->npk>=cap){ cap=cap?cap*2:64; s->pk=(unsigned char**)__real_realloc(s->pk,cap*sizeof(*s->pk)); s->pkn=(long*)__real_realloc(s->pkn,cap*sizeof(long)); s->gran=(ogg_int64_t*)__real_realloc(s->gran,cap*sizeof(ogg_int64_t)); }
        s->pk[s->npk]=(unsigned char*)__real_malloc(op.bytes+1); memcpy(s->pk[s->npk],op.packet,op.bytes);
        s->pkn[s->npk]=op.bytes; s->gran[s->npk]=op.granulepos; s->npk++;
      }
    }
  }
  if(init)ogg_stream_clear(&os);
  ogg_sync_clear(&oy);
}

/* ------------------------------------------------------------------ per-thread context */
typedef struct tctx {
  int tid, body;
  h128 dig;
  long pc[4];                /* pc[l]: points of level <= l passed so far (l=1..3) */
  int in_api; long api_allocs; int just_stepped;
  long napi, nsteps;         /* API calls / steps executed */
  int fenv_bad; char fenv_where[48];
  int cur_round; unsigned cur_csr; unsigned short cur_cw;
  unsigned lcg;
  uint64_t stepdig[MAXSTEP]; char stepname[MAXSTEP][12];
  long nonzero;              /* non-zero PCM samples / packet bytes observed */
  long padded;               /* packets ending in >=16 zero bytes (bitrate-floor padding) */
  long lap2ok;               /* VLAP/VLAQ: lapped seeks that succeeded from the "raw seek into the last page" state (decoder kept, no lap data) */
  long tiny_packets,tiny_empty; /* ENCT/ENCS: audio packets produced; sub-encodes with input but no audio packet */
  int undef;                 /* valgrind: an observed buffer had undefined bytes */
} tctx;
static __thread tctx *me=0;

/* ------------------------------------------------------------------ shared result block (child -> parent) */
typedef struct { h128 dig; long pc[4]; long napi,nsteps,nonzero,padded,tiny_packets,tiny_empty,lap2ok; int fenv_bad; char fenv_where[48]; uint64_t stepdig[MAXSTEP]; char stepname[MAXSTEP][12]; } thres;
typedef struct {
  int done, err; char errmsg[160];
  int n;
  thres th[MAXT];
  int depth;                 /* decisions recorded (points where >=2 threads were enabled, incl. the initial one) */
  int preempts, switches, midbody;
  long points;               /* scheduling points passed in total at the granularity */
  int norder; char order[256];   /* thread id of every level-1 step in execution order */
  h128 order2;               /* hash of the thread id sequence of API calls */
  unsigned char nopts[MAXD], curen[MAXD], cur[MAXD], pick[MAXD];
  uint64_t pcs[MAXD];
} shres;
static shres *R=0;

/* ------------------------------------------------------------------ scheduler */
static struct {
  int on, gran, K, n;
  sem_t sem[MAXT], ctl;
  int finished[MAXT];
  int cur;
  const unsigned char *prefix; int plen;
  tctx *T[MAXT];
} S;

static uint64_t pc_tuple(void){ uint64_t v=0; int i; for(i=0;i<S.n;i++)v|=((uint64_t)(S.T[i]->pc[S.gran]&0xfffff))<<(20*i); return v; }

/* decide who runs next; called by the running thread (or the controller at start / a thread at its end) */
static int sched_decide(void){
  int opts[MAXT],no=0,i,cur=S.cur,curen=(cur>=0&&!S.finished[cur]),choice,d;
  if(curen)opts[no++]=cur;
  for(i=0;i<S.n;i++)if(!S.finished[i]&&!(curen&&i==cur))opts[no++]=i;
  if(no==0)return -1;
  if(no==1)return opts[0];                     /* forced: not a decision */
  d=R->depth;
  if(d>=MAXD){ if(!R->err){ R->err=1; snprintf(R->errmsg,sizeof(R->errmsg),"decision depth overflow"); } return opts[0]; }
  choice=d<S.plen?S.prefix[d]:0;
  if(choice>=no){ if(!R->err){ R->err=2; snprintf(R->errmsg,sizeof(R->errmsg),"choice %d out of range (%d options) at depth %d",choice,no,d); } choice=0; }
  R->nopts[d]=no; R->curen[d]=curen; R->cur[d]=(unsigned char)(cur<0?255:cur); R->pick[d]=opts[choice]; R->pcs[d]=pc_tuple();
  R->depth=d+1;
  if(curen&&choice>0){ R->preempts++; if(S.T[cur]->pc[S.gran]>1)R->midbody++; }
  return opts[choice];
}
static void sched_point(int level){
  int l,next,self;
  if(!me)return;
  for(l=level;l<=3;l++)me->pc[l]++;
  if(!S.on||level>S.gran)return;
  R->points++;
  next=sched_decide(); self=me->tid;
  if(next==self||next<0)return;
  R->switches++;
  S.cur=next;
  sem_post(&S.sem[next]);
  while(sem_wait(&S.sem[self])!=0){}
}
static void alloc_hook(void){
  if(!me||!me->in_api)return;
  me->api_allocs++;
  if(S.K>0&&me->api_allocs>S.K)return;   /* restricted g2: only the first K allocator calls of each API call are points */
  sched_point(3);
}

/* ------------------------------------------------------------------ observation helpers */
static inline unsigned short x87cw(void){ unsigned short cw=0; __asm__ __volatile__("fnstcw %0":"=m"(cw)); return cw; }
#define CSR_CTL 0xFFC0u       /* MXCSR control bits: DAZ, exception masks, rounding control, FTZ (sticky status flags excluded) */
/* stack pre-fill: before every API call the dead stack below the caller (256 KiB) is overwritten with a 32-bit pattern, so that
   a library function that reads an alloca/automatic buffer before writing it produces pattern-dependent output */
static int g_sfill_on=0; static uint32_t g_sfill_word=0;
static void __attribute__((noinline)) stack_prefill(void){
  size_t n=(256u<<10)/4,i; volatile uint32_t *a=(volatile uint32_t*)alloca(256u<<10);
  for(i=0;i<n;i++)a[i]=g_sfill_word;
  __asm__ __volatile__(""::"r"(a):"memory");
}
static long __attribute__((noinline)) stack_probe(void){   /* self-test: how much of a fresh, unwritten alloca shows the pattern */
  size_t n=(64u<<10)/4,i; long hit=0; volatile uint32_t *a=(volatile uint32_t*)alloca(64u<<10);
  __asm__ __volatile__(""::"r"(a):"memory");
  for(i=0;i<n;i++)if(a[i]==g_sfill_word)hit++;
  return hit;
}
static void api_enter(void){
  tctx *T=me;
  if(T->just_stepped)T->just_stepped=0; else sched_point(2);
  T->cur_round=fegetround(); T->cur_csr=_mm_getcsr()&CSR_CTL; T->cur_cw=x87cw();
  T->api_allocs=0; T->napi++;
  if(S.on)h_bytes(&R->order2,&T->tid,sizeof(int));
  T->in_api=1;
  if(g_sfill_on)stack_prefill();
}
static void api_leave(const char *what){
  tctx *T=me;
  T->in_api=0;
  if(T->fenv_bad<0&&(fegetround()!=T->cur_round||(_mm_getcsr()&CSR_CTL)!=T->cur_csr||x87cw()!=T->cur_cw)){
    T->fenv_bad=(int)T->napi; snprintf(T->fenv_where,sizeof(T->fenv_where),"%.47s",what);
  }
}
#define API(expr) do{ api_enter(); expr; api_leave(#expr); }while(0)
static void step_close(tctx *T){ if(T->nsteps>0&&T->nsteps<=MAXSTEP)T->stepdig[T->nsteps-1]=T->dig.a^T->dig.b; }
static void STEP(const char *name){
  tctx *T=me;
  step_close(T);
  sched_point(1);
  T->just_stepped=1;
  if(T->nsteps<MAXSTEP)snprintf(T->stepname[T->nsteps],12,"%s",name);
  T->nsteps++;
  h_tag(&T->dig,name);
  if(S.on&&R->norder<(int)sizeof(R->order)-1){ R->order[R->norder++]='0'+T->tid; R->order[R->norder]=0; }
}
static void OBS_I(long v){ h_i64(&me->dig,v); }
static void OBS_B(const void *p,size_t n){
  if(RUNNING_ON_VALGRIND&&n){ if(VALGRIND_CHECK_MEM_IS_DEFINED(p,n))me->undef++; }
  h_i64(&me->dig,(int64_t)n); h_bytes(&me->dig,p,n);
}
static void OBS_PKT(const ogg_packet *op){
  long i; OBS_B(op->packet,op->bytes); OBS_I(op->b_o_s); OBS_I(op->e_o_s); OBS_I(op->granulepos); OBS_I(op->packetno);
  for(i=0;i<op->bytes;i++)if(op->packet[i])me->nonzero++;
  { long z=0; for(i=op->bytes-1;i>=0&&!op->packet[i];i--)z++; if(z>=16)me->padded++; }
}
static void OBS_PCM(float **pcm,int ch,long n){
  int c; long i;
  for(c=0;c<ch;c++){ OBS_B(pcm[c],sizeof(float)*n); for(i=0;i<n;i++)if(pcm[c][i]!=0.f)me->nonzero++; }
}

/* ------------------------------------------------------------------ bodies */
static float sig(tctx *T,int k,long t,long rate){
  T->lcg=T->lcg*1103515245u+12345u;
  return 0.35f*sinf(6.2831853f*(330.f+90.f*k)*(float)t/(float)rate)+0.2f*(((T->lcg>>8)&0xffff)/32768.f-1.f)+((t%900)==(450+17*k)?0.7f:0.f);
}
typedef struct { int ch; long rate; int mode; float q; long mx,nom,mn; int rounds; int chunk; long quiet_after; long resv_bits; float qamp; long quiet_before; unsigned silent_mask; } enc_cfg;   /* silent_mask: channels that are exact digital zero from the first sample */   /* qamp: amplitude of the quiet parts (0: 1e-5); quiet_before: the first quiet_before samples are quiet too */   /* mode 0: vbr, 1: managed init, 2: 3-step managed setup + ctl, 3: managed with hard minimum and a small reservoir (RATEMANAGE2_SET); input is near silence (1e-5 sine) from sample quiet_after on (0: never) */

static void body_enc(tctx *T,const enc_cfg *c){
  vorbis_info vi; vorbis_comment vc; vorbis_dsp_state vd; vorbis_block vb; ogg_packet op,h1,h2,h3; int r=0,round; long done=0;
  STEP("init");
  API(vorbis_info_init(&vi));
  if(c->mode==0)API(r=vorbis_encode_init_vbr(&vi,c->ch,c->rate,c->q));
  else if(c->mode==1)API(r=vorbis_encode_init(&vi,c->ch,c->rate,c->mx,c->nom,c->mn));
  else if(c->mode==2){
    API(r=vorbis_encode_setup_managed(&vi,c->ch,c->rate,c->mx,c->nom,c->mn)); OBS_I(r);
    if(!r){ double lp=3.5; struct ovectl_ratemanage2_arg ai; memset(&ai,0,sizeof(ai));
      API(r=vorbis_encode_ctl(&vi,OV_ECTL_LOWPASS_SET,&lp)); OBS_I(r);
      API(r=vorbis_encode_ctl(&vi,OV_ECTL_RATEMANAGE2_GET,&ai)); OBS_I(r); OBS_I(ai.management_active); OBS_I(ai.bitrate_limit_min_kbps); OBS_I(ai.bitrate_limit_max_kbps);
      API(r=vorbis_encode_setup_init(&vi)); }
  }
  else{
    API(r=vorbis_encode_setup_managed(&vi,c->ch,c->rate,c->mx,c->nom,c->mn)); OBS_I(r);
    if(!r){ struct ovectl_ratemanage2_arg ai; memset(&ai,0,sizeof(ai));
      API(r=vorbis_encode_ctl(&vi,OV_ECTL_RATEMANAGE2_GET,&ai)); OBS_I(r);
      ai.bitrate_limit_reservoir_bits=c->resv_bits; ai.bitrate_limit_reservoir_bias=0.;
      API(r=vorbis_encode_ctl(&vi,OV_ECTL_RATEMANAGE2_SET,&ai)); OBS_I(r);
      API(r=vorbis_encode_setup_init(&vi)); }
  }
  OBS_I(r);
  if(r){ API(vorbis_info_clear(&vi)); return; }
  OBS_I(vi.channels); OBS_I(vi.rate); OBS_I(vi.bitrate_nominal);
  STEP("ainit");
  API(r=vorbis_analysis_init(&vd,&vi)); OBS_I(r);
  API(r=vorbis_block_init(&vd,&vb)); OBS_I(r);
  STEP("header");
  API(vorbis_comment_init(&vc));
  API(vorbis_comment_add_tag(&vc,"TITLE","c18"));
  API(r=vorbis_analysis_headerout(&vd,&vc,&h1,&h2,&h3)); OBS_I(r);
  if(!r){ OBS_PKT(&h1); OBS_PKT(&h2); OBS_PKT(&h3); }
  for(round=0;round<=c->rounds;round++){
    int last=(round==c->rounds);
    STEP(last?"eos":"write");
    if(!last){
      float **b=0; long j; int k;
      API(b=vorbis_analysis_buffer(&vd,c->chunk));
      for(j=0;j<c->chunk;j++)for(k=0;k<c->ch;k++){ float v=sig(T,k,done+j,c->rate); b[k][j]=((c->quiet_after&&done+j>=c->quiet_after)||done+j<c->quiet_before)?(c->qamp>0.f?c->qamp:1e-5f)*sinf(0.3f*(float)(done+j)+(float)k):v; if((c->silent_mask>>k)&1u)b[k][j]=0.f; }   /* near silence, not exact zeros: the analysis still does its full work */
      API(r=vorbis_analysis_wrote(&vd,c->chunk)); OBS_I(r); done+=c->chunk;
    }else{ API(r=vorbis_analysis_wrote(&vd,0)); OBS_I(r); }
    STEP("drain");
    while(1){
      API(r=vorbis_analysis_blockout(&vd,&vb)); OBS_I(r);
      if(r!=1)break;
      API(r=vorbis_analysis(&vb,NULL)); OBS_I(r);
      API(r=vorbis_bitrate_addblock(&vb)); OBS_I(r);
      while(1){ API(r=vorbis_bitrate_flushpacket(&vd,&op)); OBS_I(r); if(r!=1)break; OBS_PKT(&op); }
    }
  }
  STEP("clear");
  API(vorbis_block_clear(&vb)); API(vorbis_dsp_clear(&vd)); API(vorbis_comment_clear(&vc)); API(vorbis_info_clear(&vi));
}

/* very short encodes: total input of n samples per channel (0..100), fed in one wrote() call or in 3-sample pieces, then end of stream.
   With <= 32 samples the encoder skips its reverse pre-extrapolation and the end-of-stream LPC extrapolation is trained on the
   lead-in of the freshly allocated pcm vectors, so this is where "output independent of prior heap contents" is decided. */
static void tiny_encode(tctx *T,int ch,long rate,int n,int split){
  vorbis_info vi; vorbis_comment vc; vorbis_dsp_state vd; vorbis_block vb; ogg_packet op,h1,h2,h3; int r=0; long done=0,audio=0;
  API(vorbis_info_init(&vi));
  API(r=vorbis_encode_init_vbr(&vi,ch,rate,0.3f)); OBS_I(r);
  if(r){ API(vorbis_info_clear(&vi)); return; }
  API(r=vorbis_analysis_init(&vd,&vi)); OBS_I(r);
  API(r=vorbis_block_init(&vd,&vb)); OBS_I(r);
  API(vorbis_comment_init(&vc));
  API(r=vorbis_analysis_headerout(&vd,&vc,&h1,&h2,&h3)); OBS_I(r);
  if(!r){ OBS_PKT(&h1); OBS_PKT(&h3); }
  while(1){
    int last=(done>=n),c=0;
    if(!last){
      float **b=0; long j; int k;
      c=split?(n-done>3?3:(int)(n-done)):(int)(n-done);
      API(b=vorbis_analysis_buffer(&vd,c));
      for(j=0;j<c;j++)for(k=0;k<ch;k++)b[k][j]=sig(T,k,done+j,rate);
      API(r=vorbis_analysis_wrote(&vd,c)); OBS_I(r); done+=c;
    }else{ API(r=vorbis_analysis_wrote(&vd,0)); OBS_I(r); }
    while(1){
      API(r=vorbis_analysis_blockout(&vd,&vb)); OBS_I(r);
      if(r!=1)break;
      API(r=vorbis_analysis(&vb,NULL)); OBS_I(r);
      API(r=vorbis_bitrate_addblock(&vb)); OBS_I(r);
      while(1){ API(r=vorbis_bitrate_flushpacket(&vd,&op)); OBS_I(r); if(r!=1)break; OBS_PKT(&op); audio++; }
    }
    if(last)break;
  }
  OBS_I(audio); T->tiny_packets+=audio; if(n>0&&audio<1)T->tiny_empty++;
  API(vorbis_block_clear(&vb)); API(vorbis_dsp_clear(&vd)); API(vorbis_comment_clear(&vc)); API(vorbis_info_clear(&vi));
}
static void body_tiny(tctx *T,int subset){
  static const int lens[7]={0,1,7,20,32,33,100}; int ch,li,sp; char nm[12];
  for(ch=1;ch<=2;ch++)for(li=0;li<7;li++)for(sp=0;sp<2;sp++){
    if(subset&&!((lens[li]==7&&sp==0)||(lens[li]==32&&sp==1)))continue;
    snprintf(nm,sizeof(nm),"t%d_%d_%c",ch,lens[li],sp?'s':'o');
    STEP(nm);
    tiny_encode(T,ch,ch==1?8000:11025,lens[li],sp);
  }
}

typedef struct { int st; int groups; int restart_after; int half; } dec_cfg;
static void body_dec(tctx *T,const dec_cfg *c){
  const stream_t *s=&g_st[c->st]; vorbis_info vi; vorbis_comment vc; vorbis_dsp_state vd; vorbis_block vb; ogg_packet op; int r=0,i,g,na,per;
  (void)T;
  STEP("init");
  API(vorbis_info_init(&vi)); API(vorbis_comment_init(&vc));
  STEP("headers");
  for(i=0;i<3&&i<s->npk;i++){
    memset(&op,0,sizeof(op)); op.packet=s->pk[i]; op.bytes=s->pkn[i]; op.b_o_s=(i==0); op.packetno=i; op.granulepos=s->gran[i];
    API(r=vorbis_synthesis_idheader(&op)); OBS_I(r);
    API(r=vorbis_synthesis_headerin(&vi,&vc,&op)); OBS_I(r);
    if(r)break;
  }
  if(r||s->npk<3){ API(vorbis_comment_clear(&vc)); API(vorbis_info_clear(&vi)); return; }
  OBS_I(vi.channels); OBS_I(vi.rate); OBS_I(vc.comments);
  if(c->half){ API(r=vorbis_synthesis_halfrate(&vi,1)); OBS_I(r); }
  STEP("sinit");
  API(r=vorbis_synthesis_init(&vd,&vi)); OBS_I(r);
  API(r=vorbis_block_init(&vd,&vb)); OBS_I(r);
  na=s->npk-3; per=(na+c->groups-1)/c->groups; if(per<1)per=1;
  for(g=0;g<c->groups;g++){
    STEP("decode");
    for(i=3+g*per;i<3+(g+1)*per&&i<s->npk;i++){
      float **pcm=0; int n=0;
      memset(&op,0,sizeof(op)); op.packet=s->pk[i]; op.bytes=s->pkn[i]; op.packetno=i; op.granulepos=s->gran[i]; op.e_o_s=(i==s->npk-1);
      API(r=vorbis_packet_blocksize(&vi,&op)); OBS_I(r);
      API(r=vorbis_synthesis(&vb,&op)); OBS_I(r);
      if(r==0){ API(r=vorbis_synthesis_blockin(&vd,&vb)); OBS_I(r); }
      while(1){
        API(n=vorbis_synthesis_pcmout(&vd,&pcm)); OBS_I(n);
        if(n<=0)break;
        OBS_PCM(pcm,vi.channels,n);
        API(r=vorbis_synthesis_read(&vd,n)); OBS_I(r);
      }
    }
    if(g==c->restart_after){ STEP("restart"); API(r=vorbis_synthesis_restart(&vd)); OBS_I(r); }
  }
  STEP("clear");
  API(vorbis_block_clear(&vb)); API(vorbis_dsp_clear(&vd)); API(vorbis_comment_clear(&vc)); API(vorbis_info_clear(&vi));
}

typedef struct { int st; int usefloat; int seek1_num; int seek2kind; } vf_cfg;   /* seek1 at total*num/16; seek2kind 0: time, 1: raw, 2: pcm_seek_lap */
static void vf_reads(OggVorbis_File *vf,int k,int usefloat){
  int i,bs=-1; long r=0;
  for(i=0;i<k;i++){
    if(usefloat){ float **pcm=0; API(r=ov_read_float(vf,&pcm,300,&bs)); OBS_I(r); OBS_I(bs); if(r>0){ int ch=0; vorbis_info *vi=0; API(vi=ov_info(vf,-1)); ch=vi?vi->channels:0; OBS_PCM(pcm,ch,r); } }
    else{ char buf[1024]; long j; API(r=ov_read(vf,buf,sizeof(buf),0,2,1,&bs)); OBS_I(r); OBS_I(bs); if(r>0){ OBS_B(buf,r); for(j=0;j<r;j++)if(buf[j])me->nonzero++; } }
    if(r<=0)break;
  }
}
static void body_vf(tctx *T,const vf_cfg *c){
  const stream_t *s=&g_st[c->st]; OggVorbis_File vf; memio m; int r=0,i; ogg_int64_t tot=0,p=0; double d=0; vorbis_info *vi=0; vorbis_comment *vc=0;
  (void)T;
  STEP("open");
  mio_init(&m,s->data,s->len);
  API(r=ov_open_callbacks(&m,&vf,NULL,0,mio_cb_seekable)); OBS_I(r);
  if(r<0){ OBS_I(m.nclose); return; }
  STEP("info");
  API(r=ov_streams(&vf)); OBS_I(r);
  API(r=ov_seekable(&vf)); OBS_I(r);
  API(tot=ov_pcm_total(&vf,-1)); OBS_I(tot);
  API(d=ov_time_total(&vf,-1)); OBS_B(&d,sizeof(d));
  API(p=ov_raw_total(&vf,-1)); OBS_I(p);
  API(vi=ov_info(&vf,0)); if(vi){ OBS_I(vi->channels); OBS_I(vi->rate); }
  API(vc=ov_comment(&vf,0)); if(vc){ OBS_I(vc->comments); for(i=0;i<vc->comments;i++)OBS_B(vc->user_comments[i],vc->comment_lengths[i]); }
  API(r=ov_bitrate(&vf,-1)); OBS_I(r);
  STEP("read1"); vf_reads(&vf,3,c->usefloat);
  STEP("pcmseek");
  API(r=ov_pcm_seek(&vf,tot*c->seek1_num/16)); OBS_I(r);
  API(p=ov_pcm_tell(&vf)); OBS_I(p);
  STEP("read2"); vf_reads(&vf,3,c->usefloat);
  API(r=ov_bitrate_instant(&vf)); OBS_I(r);
  STEP("halfrate");
  API(r=ov_halfrate(&vf,1)); OBS_I(r);
  API(r=ov_halfrate_p(&vf)); OBS_I(r);
  STEP("read3"); vf_reads(&vf,2,c->usefloat);
  STEP("seek2");
  if(c->seek2kind==0){ API(r=ov_time_seek(&vf,0.05)); }
  else if(c->seek2kind==1){ API(r=ov_raw_seek(&vf,s->len/2)); }
  else{ API(r=ov_pcm_seek_lap(&vf,tot/3)); }
  OBS_I(r);
  API(p=ov_pcm_tell(&vf)); OBS_I(p);
  API(d=ov_time_tell(&vf)); OBS_B(&d,sizeof(d));
  STEP("read4"); vf_reads(&vf,3,!c->usefloat);
  STEP("clear");
  API(r=ov_clear(&vf)); OBS_I(r); OBS_I(m.nclose); OBS_I(m.nread); OBS_I(m.nseek);
}

/* comment handling: tags with empty and non-empty values, raw comments, queries, header packets */
static void obs_comments(vorbis_comment *vc){
  int i; OBS_I(vc->comments);
  for(i=0;i<vc->comments;i++){ OBS_I(vc->comment_lengths[i]); OBS_B(vc->user_comments[i],vc->comment_lengths[i]); OBS_I((long)strlen(vc->user_comments[i])); }
}
static void body_cmt(tctx *T){
  static const char *tags[6][2]={{"TITLE","c18"},{"COMMENT",""},{"ARTIST","someone"},{"EMPTY",""},{"comment","lower"},{"X",""}};
  vorbis_info vi; vorbis_comment vc; vorbis_dsp_state vd; ogg_packet h1,h2,h3,cp; int r=0,i,n=0; char *q=0;
  (void)T;
  STEP("tags");
  API(vorbis_comment_init(&vc));
  for(i=0;i<6;i++){ API(vorbis_comment_add_tag(&vc,tags[i][0],tags[i][1])); obs_comments(&vc); }
  API(vorbis_comment_add(&vc,"RAW=")); API(vorbis_comment_add(&vc,"NOEQUALS")); obs_comments(&vc);
  STEP("query");
  for(i=0;i<6;i++){
    API(n=vorbis_comment_query_count(&vc,tags[i][0])); OBS_I(n);
    API(q=vorbis_comment_query(&vc,tags[i][0],0)); OBS_I(q!=0); if(q)OBS_B(q,strlen(q));
    API(q=vorbis_comment_query(&vc,tags[i][0],1)); OBS_I(q!=0); if(q)OBS_B(q,strlen(q));
  }
  API(q=vorbis_comment_query(&vc,"RAW",0)); OBS_I(q!=0); if(q)OBS_B(q,strlen(q));
  STEP("hdrout");
  memset(&cp,0,sizeof(cp));
  API(r=vorbis_commentheader_out(&vc,&cp)); OBS_I(r);
  if(!r){ OBS_PKT(&cp); _ogg_free(cp.packet); }
  STEP("headers");
  API(vorbis_info_init(&vi));
  API(r=vorbis_encode_init_vbr(&vi,1,8000,0.3f)); OBS_I(r);
  if(!r){
    API(r=vorbis_analysis_init(&vd,&vi)); OBS_I(r);
    API(r=vorbis_analysis_headerout(&vd,&vc,&h1,&h2,&h3)); OBS_I(r);
    if(!r){ OBS_PKT(&h1); OBS_PKT(&h2); }
    STEP("reparse");
    if(!r){ vorbis_info vi2; vorbis_comment vc2;
      API(vorbis_info_init(&vi2)); API(vorbis_comment_init(&vc2));
      API(r=vorbis_synthesis_headerin(&vi2,&vc2,&h1)); OBS_I(r);
      API(r=vorbis_synthesis_headerin(&vi2,&vc2,&h2)); OBS_I(r);
      obs_comments(&vc2); if(vc2.vendor)OBS_B(vc2.vendor,strlen(vc2.vendor));
      API(vorbis_comment_clear(&vc2)); API(vorbis_info_clear(&vi2)); }
    API(vorbis_dsp_clear(&vd));
  }
  STEP("clear");
  API(vorbis_comment_clear(&vc)); API(vorbis_info_clear(&vi));
}

/* every lapped seek variant from every interesting handle state, each on a fresh handle (one g1 step per combination) */
static void body_lap(tctx *T,int st){
  static const char vn[6]={'p','P','t','T','r','x'}; const stream_t *s=&g_st[st]; int state,v;
  (void)T;
  for(state=0;state<5;state++)for(v=0;v<6;v++){
    OggVorbis_File vf,vf2; memio m,m2; int r=0,have2=0; ogg_int64_t tot=0,p=0; double dur=0,d=0; char nm[12];
    snprintf(nm,sizeof(nm),"L%d%c",state,vn[v]);
    STEP(nm);
    mio_init(&m,s->data,s->len);
    API(r=ov_open_callbacks(&m,&vf,NULL,0,mio_cb_seekable)); OBS_I(r);
    if(r<0)continue;
    API(tot=ov_pcm_total(&vf,-1)); OBS_I(tot);
    API(dur=ov_time_total(&vf,-1)); OBS_B(&dur,sizeof(dur));
    switch(state){
      case 0: break;                                                                      /* fresh handle */
      case 1: vf_reads(&vf,3,1); break;                                                   /* in the middle of linear reading */
      case 2: API(r=ov_pcm_seek(&vf,tot-tot/4)); OBS_I(r); vf_reads(&vf,2,1); API(p=ov_raw_total(&vf,-1)); OBS_I(p); API(r=ov_raw_seek(&vf,p-1)); OBS_I(r); break;       /* raw seek into the last page: decoder restarted, no lap data, stream at EOF */
      case 3: API(r=ov_pcm_seek(&vf,tot>150?tot-150:0)); OBS_I(r); vf_reads(&vf,4,1); vf_reads(&vf,1,1); break;   /* read to the end of the stream */
      default: vf_reads(&vf,2,1); API(r=ov_pcm_seek(&vf,tot+1000)); OBS_I(r); break;      /* after a rejected seek */
    }
    switch(v){
      case 0: API(r=ov_pcm_seek_lap(&vf,tot/3)); break;
      case 1: API(r=ov_pcm_seek_page_lap(&vf,tot/2)); break;
      case 2: API(r=ov_time_seek_lap(&vf,dur/3.)); break;
      case 3: API(r=ov_time_seek_page_lap(&vf,dur*0.6)); break;
      case 4: API(r=ov_raw_seek_lap(&vf,s->len/3)); break;
      default:
        mio_init(&m2,s->data,s->len);
        API(r=ov_open_callbacks(&m2,&vf2,NULL,0,mio_cb_seekable)); OBS_I(r);
        if(r<0){ r=-999; break; }
        have2=1;
        API(r=ov_pcm_seek(&vf2,tot/4)); OBS_I(r);
        API(r=ov_crosslap(&vf,&vf2)); break;
    }
    OBS_I(r);
    if(state==2&&r==0)T->lap2ok++;
    if(have2){ API(p=ov_pcm_tell(&vf2)); OBS_I(p); vf_reads(&vf2,3,1); API(r=ov_clear(&vf2)); OBS_I(r); }
    else{ API(p=ov_pcm_tell(&vf)); OBS_I(p); API(d=ov_time_tell(&vf)); OBS_B(&d,sizeof(d)); vf_reads(&vf,3,1); }
    API(r=ov_clear(&vf)); OBS_I(r);
  }
}

enum { B_ENCA=0,B_ENCB,B_ENCC,B_ENCD,B_ENCM,B_ENCH,B_ENCW,B_ENCQ,B_ENCP,B_ENMR,B_ENML,B_ENM6,B_ENM0,B_ENCT,B_ENCS,B_DECA,B_DECB,B_DECF,B_DECH,B_DECL,B_DECR,B_VFA,B_VFB,B_VFF,B_VFC,B_VFL,B_VFR,B_VLAP,B_VLAQ,B_CMT,NBODY };
static const char *g_bname[NBODY]={"ENCA","ENCB","ENCC","ENCD","ENCM","ENCH","ENCW","ENCQ","ENCP","ENMR","ENML","ENM6","ENM0","ENCT","ENCS","DECA","DECB","DECF","DECH","DECL","DECR","VFA","VFB","VFF","VFC","VFL","VFR","VLAP","VLAQ","CMT"};
static const enc_cfg g_enc[13]={
  {2,44100,0,0.4f,0,0,0,3,1024,0,0},            /* ENCA stereo 44.1k VBR */
  {1,8000,2,0,-1,12000,-1,3,1024,0,0},          /* ENCB mono 8k, 3-step managed setup + ctl */
  {6,44100,0,0.3f,0,0,0,2,1024,0,0},            /* ENCC 5.1 VBR */
  {2,22050,1,0,40000,32000,24000,3,1024,0,0},   /* ENCD stereo 22k managed with hard limits */
  {2,44100,3,0,-1,128000,96000,8,4096,4096,8000},  /* ENCM stereo 44.1k, hard MINIMUM 96 kbit/s, 8000-bit reservoir, tone then near silence: packets are padded up to the floor */
  {2,96000,0,0.5f,0,0,0,7,4096,0,0},               /* ENCH stereo 96k VBR q0.5, 0.3 s (Nyquist beyond the end of the ATH table) */
  {1,64000,0,0.5f,0,0,0,5,4096,0,0},               /* ENCW mono 64k VBR q0.5, 0.3 s */
  {1,44100,0,0.4f,0,0,0,5,2048,6144,0,2e-8f,0},    /* ENCQ mono 44.1k: ends in a 2e-8 amplitude tail (end-of-stream LPC sees energy below its epsilon, not exact silence) */
  {1,44100,0,0.4f,0,0,0,5,2048,0,0,2e-8f,6144},    /* ENCP mono 44.1k: starts with a 2e-8 amplitude lead-in (pre-extrapolation LPC takes the same early exit) */
  {2,44100,1,0,-1,96000,-1,3,1024,0,0,0,0,2u},      /* ENMR stereo ABR 96k, right channel digitally silent (managed: all PACKETBLOBS floor fits are consulted) */
  {2,44100,1,0,160000,112000,64000,3,1024,0,0,0,0,1u}, /* ENML stereo managed with min/max, left channel digitally silent */
  {6,44100,1,0,-1,256000,-1,2,1024,0,0,0,0,32u},    /* ENM6 5.1 ABR, LFE (channel 5) digitally silent */
  {1,44100,1,0,-1,64000,-1,3,1024,0,0,0,0,1u}       /* ENM0 mono ABR, all digital silence */
};
static const dec_cfg g_dec[6]={ {ST_S1,5,2,0},{ST_S2,5,-1,0},{ST_F0,5,1,0},{ST_S2,4,-1,1},{ST_PL,5,-1,0},{ST_PR,5,3,0} };
static const vf_cfg g_vf[6]={ {ST_S1,0,5,0},{ST_S2,1,9,2},{ST_F0,1,7,1},{ST_CH,0,11,0},{ST_PL,1,6,0},{ST_PR,0,10,2} };
static int body_stream(int b){ if(b>=B_DECA&&b<=B_DECR)return g_dec[b-B_DECA].st; if(b>=B_VFA&&b<=B_VFR)return g_vf[b-B_VFA].st; if(b==B_VLAP)return ST_PR; if(b==B_VLAQ)return ST_CQ; return -1; }
static int body_id(const char *n){ int i; for(i=0;i<NBODY;i++)if(!strcmp(n,g_bname[i]))return i; return -1; }
static void run_body(tctx *T){
  int b=T->body;
  if(b<=B_ENM0)body_enc(T,&g_enc[b]);
  else if(b==B_CMT)body_cmt(T);
  else if(b==B_ENCT)body_tiny(T,0);
  else if(b==B_ENCS)body_tiny(T,1);
  else if(b<=B_DECR)body_dec(T,&g_dec[b-B_DECA]);
  else if(b<=B_VFR)body_vf(T,&g_vf[b-B_VFA]);
  else body_lap(T,b==B_VLAP?ST_PR:ST_CQ);
  step_close(T);
}
static void tctx_init(tctx *T,int tid,int body){ memset(T,0,sizeof(*T)); T->tid=tid; T->body=body; T->fenv_bad=-1; T->lcg=4711u+97u*(unsigned)body; h_init(&T->dig); }
static void tctx_export(const tctx *T,thres *o){
  o->dig=T->dig; memcpy(o->pc,T->pc,sizeof(o->pc)); o->napi=T->napi; o->nsteps=T->nsteps; o->nonzero=T->nonzero; o->padded=T->padded; o->tiny_packets=T->tiny_packets; o->tiny_empty=T->tiny_empty; o->lap2ok=T->lap2ok; o->fenv_bad=T->fenv_bad;
  memcpy(o->fenv_where,T->fenv_where,sizeof(o->fenv_where)); memcpy(o->stepdig,T->stepdig,sizeof(o->stepdig)); memcpy(o->stepname,T->stepname,sizeof(o->stepname));
}

/* ------------------------------------------------------------------ one execution (inside a forked child) */
static void *thread_main(void *arg){
  tctx *T=(tctx*)arg; me=T;
  while(sem_wait(&S.sem[T->tid])!=0){}
  run_body(T);
  if(S.on){
    int next;
    S.finished[T->tid]=1;
    next=sched_decide();
    if(next>=0){ R->switches++; S.cur=next; sem_post(&S.sem[next]); } else sem_post(&S.ctl);
  }
  me=0;
  return 0;
}
/* runs `n` bodies under the scheduler (sched=1) or a single body alone (sched=0, n=1) and fills R */
static void execute(const int *bodies,int n,int sched,int gran,int K,const unsigned char *prefix,int plen,int fill){
  static tctx T[MAXT]; pthread_t th[MAXT]; int i;
  memset(&S,0,sizeof(S));
  S.on=sched; S.gran=gran; S.K=K; S.n=n; S.prefix=prefix; S.plen=plen; S.cur=-1;
  R->n=n; h_init(&R->order2);
  for(i=0;i<n;i++){ tctx_init(&T[i],i,bodies[i]); S.T[i]=&T[i]; sem_init(&S.sem[i],0,0); }
  sem_init(&S.ctl,0,0);
  wa_reset(); wa_hook=alloc_hook; wa_fill=fill;
  for(i=0;i<n;i++)if(pthread_create(&th[i],NULL,thread_main,&T[i])){ R->err=3; snprintf(R->errmsg,sizeof(R->errmsg),"pthread_create failed"); return; }
  wa_on=1;
  if(sched){
    int first=sched_decide();
    S.cur=first; sem_post(&S.sem[first]);
    while(sem_wait(&S.ctl)!=0){}
  }else for(i=0;i<n;i++)sem_post(&S.sem[i]);
  for(i=0;i<n;i++)pthread_join(th[i],NULL);
  wa_on=0;
  for(i=0;i<n;i++)tctx_export(&T[i],&R->th[i]);
  if(wa_overflow&&!R->err){ R->err=4; snprintf(R->errmsg,sizeof(R->errmsg),"allocator table overflow"); }
  R->done=1;
}
enum { RC_OK=0, RC_CRASH, RC_TIMEOUT, RC_MACH };
static int g_crashdetail=0;
static long g_children=0;
static int run_child(const int *bodies,int n,int sched,int gran,int K,const unsigned char *prefix,int plen,int fill){
  pid_t pid; int st;
  memset(R,0,offsetof(shres,nopts));
  fflush(stdout); fflush(stderr);
  g_children++;
  pid=fork();
  if(pid<0){ perror("fork"); exit(2); }
  if(pid==0){
    struct rlimit rl; struct itimerval z; memset(&z,0,sizeof(z));
    setitimer(ITIMER_VIRTUAL,&z,NULL);
    rl.rlim_cur=30; rl.rlim_max=31; setrlimit(RLIMIT_CPU,&rl);
    rl.rlim_cur=rl.rlim_max=0; setrlimit(RLIMIT_CORE,&rl);
    signal(SIGALRM,SIG_DFL); alarm(180);
    execute(bodies,n,sched,gran,K,prefix,plen,fill);
    _exit(R->done?0:5);
  }
  while(waitpid(pid,&st,0)<0&&errno==EINTR){}
  if(WIFEXITED(st)&&WEXITSTATUS(st)==0&&R->done)return RC_OK;
  if(WIFSIGNALED(st)){ g_crashdetail=WTERMSIG(st); if(g_crashdetail==SIGALRM||g_crashdetail==SIGXCPU||g_crashdetail==SIGKILL)return RC_TIMEOUT; return RC_CRASH; }
  g_crashdetail=WIFEXITED(st)?1000+WEXITSTATUS(st):-1;
  if(R->err)return RC_MACH;
  return RC_CRASH;
}

/* ------------------------------------------------------------------ solo references (per worker process, cached) */
static thres g_solo[NBODY]; static int g_solo_have[NBODY];
static int solo_get(int b){
  if(g_solo_have[b])return 0;
  if(run_child(&b,1,0,0,0,NULL,0,-1)!=RC_OK)return -1;
  g_solo[b]=R->th[0]; g_solo_have[b]=1;
  return 0;
}

/* ------------------------------------------------------------------ explorer */
typedef struct { char **v; int n,cap; } strset;
static void ss_add(strset *s,const char *x){ int i; for(i=0;i<s->n;i++)if(!strcmp(s->v[i],x))return; if(s->n>=s->cap){ s->cap=s->cap?s->cap*2:256; s->v=(char**)__real_realloc(s->v,s->cap*sizeof(char*)); } s->v[s->n]=(char*)__real_malloc(strlen(x)+1); strcpy(s->v[s->n++],x); }
typedef struct { uint64_t *v; long n,cap; } u64set;   /* open addressing; 0 reserved */
static void us_add(u64set *s,uint64_t x){
  long i,m; x=x*2+1;
  if(s->n*2>=s->cap){ long oc=s->cap,j; uint64_t *ov=s->v; s->cap=oc?oc*2:4096; s->v=(uint64_t*)__real_calloc(s->cap,8); s->n=0; for(j=0;j<oc;j++)if(ov[j]){ uint64_t y=(ov[j]-1)/2; us_add(s,y); } if(ov)__real_free(ov); }
  m=s->cap-1; i=(long)((x*0x9E3779B97F4A7C15ULL)>>20)&m;
  while(s->v[i]){ if(s->v[i]==x)return; i=(i+1)&m; }
  s->v[i]=x; s->n++;
}
typedef struct {
  long sch, byp[8], nodes, trans, midbody, aux, switches;
  strset orders; u64set pcs; u64set orders2;
  int viol; int viol_pre; char violtxt[1200];
  int mach; char machtxt[300];
} xstats;
static unsigned char *X_choice,*X_nopts,*X_curen,*X_cur; static uint64_t *X_pcs;
static void x_alloc(void){ if(X_choice)return; X_choice=(unsigned char*)__real_calloc(MAXD,1); X_nopts=(unsigned char*)__real_calloc(MAXD,1); X_curen=(unsigned char*)__real_calloc(MAXD,1); X_cur=(unsigned char*)__real_calloc(MAXD,1); X_pcs=(uint64_t*)__real_calloc(MAXD,8); }

static void fmt_choices(char *out,size_t cap,const unsigned char *ch,int plen){
  int d; size_t o=0; out[0]=0;
  for(d=0;d<plen;d++)if(ch[d]){ int w=snprintf(out+o,cap-o,"%s%d:%d",o?",":"",d,ch[d]); if(w<0||(size_t)w>=cap-o)break; o+=w; }
  if(!o)snprintf(out,cap,"-");
}
/* judge the schedule in R against the solo references; returns 0 ok, else writes a description */
static int judge(const int *bodies,int n,int rc,char *txt,size_t cap,char *key,size_t kcap){
  int i;
  if(rc==RC_CRASH){ snprintf(txt,cap,"schedule crashed (signal/exit %d) after %d decisions, order=%s",g_crashdetail,R->depth,R->order); snprintf(key,kcap,"crash"); return 1; }
  if(rc==RC_TIMEOUT){ snprintf(txt,cap,"schedule did not terminate (signal %d) after %d decisions, order=%s",g_crashdetail,R->depth,R->order); snprintf(key,kcap,"timeout"); return 1; }
  for(i=0;i<n;i++){
    const thres *a=&R->th[i],*s=&g_solo[bodies[i]];
    if(a->fenv_bad>=0){ snprintf(txt,cap,"thread %d (%s): floating-point environment changed across API call #%d `%s`",i,g_bname[bodies[i]],a->fenv_bad,a->fenv_where); snprintf(key,kcap,"fenv:%s",g_bname[bodies[i]]); return 1; }
    if(a->dig.a!=s->dig.a||a->dig.b!=s->dig.b){
      int k; const char *sn="?"; int si=-1;
      for(k=0;k<MAXSTEP&&k<s->nsteps;k++)if(k>=a->nsteps||a->stepdig[k]!=s->stepdig[k]){ si=k; sn=s->stepname[k]; break; }
      snprintf(txt,cap,"thread %d (%s): output digest differs from solo run; first differing step #%d `%s` (steps %ld vs solo %ld, api calls %ld vs %ld); order=%s",i,g_bname[bodies[i]],si,sn,a->nsteps,s->nsteps,a->napi,s->napi,R->order);
      snprintf(key,kcap,"digest:%s:%s",g_bname[bodies[i]],sn); return 1;
    }
  }
  return 0;
}
static void x_account(xstats *X,int newfrom){
  int d;
  X->sch++; X->byp[R->preempts<7?R->preempts:7]++;
  X->nodes+=R->depth-newfrom; X->trans+=R->points; X->midbody+=R->midbody; X->switches+=R->switches;
  ss_add(&X->orders,R->order); us_add(&X->orders2,R->order2.a);
  for(d=0;d<R->depth;d++)us_add(&X->pcs,R->pcs[d]*4+(R->cur[d]==255?3:R->cur[d]));
}
/* DFS below the base prefix X_choice[0..plen0): all schedules with <= bound preemptions */
static void dfs(const int *bodies,int n,int gran,int K,int bound,int plen0,int known,xstats *X,const char *bodytxt,double deadline,int *cut){
  int plen=plen0,d,rc; char txt[900],key[100],cs[400];
  while(1){
    int pre;
    if(deadline>0){ struct timespec ts; clock_gettime(CLOCK_REALTIME,&ts); if(ts.tv_sec+ts.tv_nsec*1e-9>deadline){ *cut=1; return; } }
    rc=run_child(bodies,n,1,gran,K,X_choice,plen,-1);
    if(rc==RC_MACH||(rc==RC_OK&&R->err)){ X->mach=1; snprintf(X->machtxt,sizeof(X->machtxt),"machinery error: %s",R->errmsg); return; }
    if(rc==RC_OK&&R->depth<plen){ X->mach=1; snprintf(X->machtxt,sizeof(X->machtxt),"replay divergence: schedule ended after %d decisions, prefix has %d",R->depth,plen); return; }
    for(d=0;d<known&&d<R->depth;d++)
      if(R->nopts[d]!=X_nopts[d]||R->curen[d]!=X_curen[d]||R->cur[d]!=X_cur[d]||R->pcs[d]!=X_pcs[d]){
        if(rc==RC_OK){ X->mach=1; snprintf(X->machtxt,sizeof(X->machtxt),"replay divergence at depth %d: options %d/%d cur %d/%d pcs %llx/%llx",d,R->nopts[d],X_nopts[d],R->cur[d],X_cur[d],(unsigned long long)R->pcs[d],(unsigned long long)X_pcs[d]); return; }
        break;
      }
    for(d=known;d<R->depth;d++){ X_nopts[d]=R->nopts[d]; X_curen[d]=R->curen[d]; X_cur[d]=R->cur[d]; X_pcs[d]=R->pcs[d]; }
    for(d=plen;d<R->depth;d++)X_choice[d]=0;
    x_account(X,plen-1<0?0:plen-1);
    if(judge(bodies,n,rc,txt,sizeof(txt),key,sizeof(key))){
      if(!X->viol||R->preempts<X->viol_pre){
        X->viol=1; X->viol_pre=R->preempts; fmt_choices(cs,sizeof(cs),X_choice,plen);
        snprintf(X->violtxt,sizeof(X->violtxt),"key=%s|bodies=%s|gran=%d|K=%d|preempts=%d|choices=%s|%s",key,bodytxt,gran,K,R->preempts,cs,txt);
      }
    }
    /* backtrack */
    { int depth=R->depth;
      /* preemptions before each depth */
      pre=0; for(d=0;d<depth;d++)pre+=(X_curen[d]&&X_choice[d]>0);
      for(d=depth-1;d>=plen0;d--){
        pre-=(X_curen[d]&&X_choice[d]>0);     /* preemptions in choices[0..d) */
        if(X_choice[d]+1<X_nopts[d]&&pre+(X_curen[d]?1:0)<=bound){ X_choice[d]++; plen=d+1; known=d+1; break; }
      }
      if(d<plen0)return;
    }
  }
}

/* ------------------------------------------------------------------ case handlers */
static int parse_bodies(const char *s,int *b){
  char tmp[200]; char *t; int n=0; snprintf(tmp,sizeof(tmp),"%s",s);
  for(t=strtok(tmp,"+");t;t=strtok(NULL,"+")){ int id=body_id(t); if(id<0||n>=MAXT)return -1; if(body_stream(id)>=0&&!g_st[body_stream(id)].have)return -2; b[n++]=id; }
  return n;
}
static void print_sets(const xstats *X,int gran){
  int i; long j;
  printf(" orders=");
  for(i=0;i<X->orders.n;i++)printf("%s%s",i?",":"",X->orders.v[i]);
  if(!X->orders.n)printf("-");
  printf(" norders2=%ld npcs=%ld pcs=",X->orders2.n,X->pcs.n);
  if(gran<=2&&X->pcs.n){ int first=1; for(j=0;j<X->pcs.cap;j++)if(X->pcs.v[j]){ printf("%s%llx",first?"":",",(unsigned long long)((X->pcs.v[j]-1)/2)); first=0; } }
  else printf("-");
}
static int same_obs(const shres *a,const shres *b){
  int i;
  if(a->n!=b->n||a->depth!=b->depth||a->preempts!=b->preempts||a->points!=b->points||strcmp(a->order,b->order)||a->order2.a!=b->order2.a)return 0;
  for(i=0;i<a->n;i++)if(memcmp(&a->th[i].dig,&b->th[i].dig,sizeof(h128))||memcmp(a->th[i].pc,b->th[i].pc,sizeof(a->th[i].pc))||a->th[i].napi!=b->th[i].napi)return 0;
  if(memcmp(a->nopts,b->nopts,a->depth)||memcmp(a->pick,b->pick,a->depth)||memcmp(a->pcs,b->pcs,8*(size_t)a->depth))return 0;
  return 1;
}
static shres *g_keep=0;
static void keep_R(void){ if(!g_keep)g_keep=(shres*)__real_malloc(sizeof(shres)); memcpy(g_keep,R,offsetof(shres,nopts)); memcpy(g_keep->nopts,R->nopts,R->depth); memcpy(g_keep->pick,R->pick,R->depth); memcpy(g_keep->pcs,R->pcs,8*(size_t)R->depth); }

static double g_deadline=0;
static void do_case(long idx,char *line){
  char kind[16],btxt[200]; int b[MAXT],n,i;
  if(sscanf(line,"%15s %199s",kind,btxt)!=2){ printf("%ld BADCASE\n",idx); return; }
  n=parse_bodies(btxt,b);
  if(n<=0){ printf("%ld BADCASE bodies %s (%d)\n",idx,btxt,n); return; }
  for(i=0;i<n;i++)if(solo_get(b[i])){
    /* the body does not even complete alone (no scheduler, no fill): valid API usage on valid input that crashes or hangs */
    int pat=-1; unsigned w=0;
    if(!strcmp(kind,"fill")&&sscanf(line,"%*s %*s %d",&pat)==1){
      int rc=run_child(b,1,0,0,0,NULL,0,pat);
      if(rc!=RC_OK){ printf("%ld viol key=fill_%s:%s:0x%02x|pattern=0x%02x|solo body %s under heap fill 0x%02x: %s (%d); it does not complete without fill either\n",idx,rc==RC_TIMEOUT?"timeout":"crash",g_bname[b[0]],pat,pat,g_bname[b[0]],pat,rc==RC_TIMEOUT?"did not terminate":"crashed",g_crashdetail); return; }
    }
    if(!strcmp(kind,"sfill")&&sscanf(line,"%*s %*s %x",&w)==1){
      int rc; g_sfill_on=1; g_sfill_word=w; rc=run_child(b,1,0,0,0,NULL,0,-1); g_sfill_on=0;
      if(rc!=RC_OK){ printf("%ld viol key=stackfill_%s:%s:0x%08x|word=0x%08x|solo body %s with stack pre-filled with 0x%08x: %s (%d); it does not complete without pre-fill either\n",idx,rc==RC_TIMEOUT?"timeout":"crash",g_bname[b[0]],w,w,g_bname[b[0]],w,rc==RC_TIMEOUT?"did not terminate":"crashed",g_crashdetail); return; }
    }
    printf("%ld viol key=solo_crash:%s|body=%s|body %s run alone (no scheduler, no fill) did not complete: signal/exit %d\n",idx,g_bname[b[i]],g_bname[b[i]],g_bname[b[i]],g_crashdetail); return;
  }
  x_alloc();
  if(!strcmp(kind,"solo")){
    /* solo <body>: reference digests and point counts (run twice: determinism of the reference itself) */
    thres first=g_solo[b[0]]; char hx[40]; int det;
    g_solo_have[b[0]]=0; if(solo_get(b[0])){ printf("%ld viol key=solo_crash:%s|body=%s|body %s run alone did not complete the second time: signal/exit %d\n",idx,g_bname[b[0]],g_bname[b[0]],g_bname[b[0]],g_crashdetail); return; }
    det=!memcmp(&first.dig,&g_solo[b[0]].dig,sizeof(h128))&&first.napi==g_solo[b[0]].napi&&first.pc[3]==g_solo[b[0]].pc[3];
    h_hex(&first.dig,hx);
    printf("%ld ok body=%s dig=%s steps=%ld api=%ld allocs=%ld nonzero=%ld padded=%ld tinypk=%ld tinyempty=%ld lap2ok=%ld fenv=%d det=%d\n",idx,g_bname[b[0]],hx,first.nsteps,first.napi,first.pc[3]-first.pc[2],first.nonzero,first.padded,first.tiny_packets,first.tiny_empty,first.lap2ok,first.fenv_bad,det);
    return;
  }
  if(!strcmp(kind,"fill")){
    /* fill <body> <pattern> */
    int pat=-1,rc; char hx[40],hs[40];
    sscanf(line,"%*s %*s %d",&pat);
    rc=run_child(b,1,0,0,0,NULL,0,pat);
    if(rc!=RC_OK){ printf("%ld viol key=fill_%s:%s:0x%02x|pattern=0x%02x|solo body %s under heap fill 0x%02x: %s (%d)\n",idx,rc==RC_TIMEOUT?"timeout":"crash",g_bname[b[0]],pat,pat,g_bname[b[0]],pat,rc==RC_TIMEOUT?"did not terminate":"crashed",g_crashdetail); return; }
    h_hex(&R->th[0].dig,hx); h_hex(&g_solo[b[0]].dig,hs);
    if(strcmp(hx,hs)){
      int k; const char *sn="?"; const thres *a=&R->th[0],*s=&g_solo[b[0]];
      for(k=0;k<MAXSTEP&&k<s->nsteps;k++)if(k>=a->nsteps||a->stepdig[k]!=s->stepdig[k]){ sn=s->stepname[k]; break; }
      printf("%ld viol key=fill_digest:%s:%s|pattern=0x%02x|solo body %s: output depends on heap contents (fresh memory filled with 0x%02x, freed memory with 0x%02x): digest %s vs %s, first differing step `%s`\n",idx,g_bname[b[0]],sn,pat,g_bname[b[0]],pat,pat^0x5a,hx,hs,sn);
    }else printf("%ld ok dig=%s fenv=%d\n",idx,hx,R->th[0].fenv_bad);
    return;
  }
  if(!strcmp(kind,"sfill")){
    /* sfill <body> <hex word>: solo body with the dead stack pre-filled before every API call */
    unsigned w=0; int rc; char hx[40],hs[40];
    sscanf(line,"%*s %*s %x",&w);
    g_sfill_on=1; g_sfill_word=w;
    { long hit; stack_prefill(); hit=stack_probe(); if(hit<8000){ printf("%ld MACHINERY stack pre-fill not effective (probe saw %ld of 16384 words)\n",idx,hit); g_sfill_on=0; return; } }
    rc=run_child(b,1,0,0,0,NULL,0,-1);
    g_sfill_on=0;
    if(rc!=RC_OK){ printf("%ld viol key=stackfill_%s:%s:0x%08x|word=0x%08x|solo body %s with stack pre-filled with 0x%08x: %s (%d)\n",idx,rc==RC_TIMEOUT?"timeout":"crash",g_bname[b[0]],w,w,g_bname[b[0]],w,rc==RC_TIMEOUT?"did not terminate":"crashed",g_crashdetail); return; }
    h_hex(&R->th[0].dig,hx); h_hex(&g_solo[b[0]].dig,hs);
    if(strcmp(hx,hs)){
      int k; const char *sn="?"; const thres *a=&R->th[0],*s=&g_solo[b[0]];
      for(k=0;k<MAXSTEP&&k<s->nsteps;k++)if(k>=a->nsteps||a->stepdig[k]!=s->stepdig[k]){ sn=s->stepname[k]; break; }
      printf("%ld viol key=stackfill_digest:%s:%s|word=0x%08x|solo body %s: output depends on dead stack contents (256 KiB below the caller filled with 0x%08x before every API call): digest %s vs %s, first differing step `%s`\n",idx,g_bname[b[0]],sn,w,g_bname[b[0]],w,hx,hs,sn);
    }else printf("%ld ok dig=%s fenv=%d\n",idx,hx,R->th[0].fenv_bad);
    return;
  }
  if(!strcmp(kind,"plan")||!strcmp(kind,"one")){
    /* plan <bodies> <gran> <K>         : default schedule (all choices 0), its decision structure, solo references
       one  <bodies> <gran> <K> <d:k,..>: a single schedule */
    int gran=1,K=0,rc,plen=0,d; char cs[4000]="-",txt[900],key[100]; xstats X; int det;
    sscanf(line,"%*s %*s %d %d %3999s",&gran,&K,cs);
    memset(X_choice,0,MAXD);
    if(strcmp(cs,"-")){ char *t; for(t=strtok(cs,",");t;t=strtok(NULL,",")){ int dd,kk; if(sscanf(t,"%d:%d",&dd,&kk)==2&&dd>=0&&dd<MAXD){ X_choice[dd]=kk; if(dd+1>plen)plen=dd+1; } } }
    memset(&X,0,sizeof(X));
    rc=run_child(b,n,1,gran,K,X_choice,plen,-1);
    if(rc==RC_MACH||(rc==RC_OK&&R->err)){ printf("%ld MACHINERY %s\n",idx,R->errmsg); return; }
    x_account(&X,plen?plen-1:0); if(!plen)X.nodes+=1;   /* + root */
    if(judge(b,n,rc,txt,sizeof(txt),key,sizeof(key))){
      fmt_choices(cs,sizeof(cs),X_choice,plen);
      printf("%ld viol key=%s|bodies=%s|gran=%d|K=%d|preempts=%d|choices=%s|%s\n",idx,key,btxt,gran,K,R->preempts,cs,txt); return;
    }
    keep_R();
    rc=run_child(b,n,1,gran,K,X_choice,plen,-1);
    det=(rc==RC_OK&&same_obs(g_keep,R));
    printf("%ld ok L=%d sch=1 byp=%d,%d,%d,%d nodes=%ld trans=%ld mid=%d det=%d pts=",idx,R->depth,R->preempts==0,R->preempts==1,R->preempts==2,R->preempts>=3,X.nodes,X.trans,R->midbody,det);
    for(i=0;i<n;i++)printf("%s%s:%ld/%ld/%ld",i?",":"",g_bname[b[i]],R->th[i].pc[1],R->th[i].pc[2],R->th[i].pc[3]);
    printf(" free=");
    { int first=1; for(d=0;d<R->depth;d++)if(!R->curen[d]&&R->nopts[d]>1){ printf("%s%d",first?"":",",d); first=0; } if(first)printf("-"); }
    print_sets(&X,gran);
    printf("\n");
    return;
  }
  if(!strcmp(kind,"sched")){
    /* sched <bodies> <gran> <K> <bound> <base> <d0> <d1> : all schedules with <= bound preemptions that follow the base choices
       (then default choices) up to their FIRST further deviation, which lies at a depth d in [d0,d1), d beyond the base */
    int gran=1,K=0,bound=0,d0=0,d1=0,rc,L,d,k,cut=0,det=1,blen=0,bpre; xstats X; unsigned char *dn,*dc,*dcur,*bch; uint64_t *dp; double dl=g_deadline; char base[4000]="-";
    if(sscanf(line,"%*s %*s %d %d %d %3999s %d %d",&gran,&K,&bound,base,&d0,&d1)!=6){ printf("%ld BADCASE\n",idx); return; }
    memset(&X,0,sizeof(X));
    memset(X_choice,0,MAXD);
    if(strcmp(base,"-")){ char *t; for(t=strtok(base,",");t;t=strtok(NULL,",")){ int dd,kk; if(sscanf(t,"%d:%d",&dd,&kk)==2&&dd>=0&&dd<MAXD){ X_choice[dd]=kk; if(dd+1>blen)blen=dd+1; } } }
    rc=run_child(b,n,1,gran,K,X_choice,blen,-1); X.aux++;
    if(rc!=RC_OK||R->err){ printf("%ld MACHINERY base schedule failed rc=%d %s\n",idx,rc,R->errmsg); return; }
    L=R->depth; bpre=R->preempts;
    dn=(unsigned char*)__real_malloc(L+1); dc=(unsigned char*)__real_malloc(L+1); dcur=(unsigned char*)__real_malloc(L+1); dp=(uint64_t*)__real_malloc(8*(L+1)); bch=(unsigned char*)__real_calloc(L+1,1);
    memcpy(dn,R->nopts,L); memcpy(dc,R->curen,L); memcpy(dcur,R->cur,L); memcpy(dp,R->pcs,8*(size_t)L); memcpy(bch,X_choice,blen<L?blen:L);
    if(d0<blen)d0=blen;
    for(d=d0;d<d1&&d<L&&!X.mach&&!cut;d++){
      for(k=1;k<dn[d]&&!X.mach&&!cut;k++){
        if(bpre+(dc[d]?1:0)>bound)continue;
        memset(X_choice,0,L+8<MAXD?L+8:MAXD); memcpy(X_choice,bch,L);
        memcpy(X_nopts,dn,L); memcpy(X_curen,dc,L); memcpy(X_cur,dcur,L); memcpy(X_pcs,dp,8*(size_t)L);
        X_choice[d]=k;
        dfs(b,n,gran,K,bound,d+1,d+1,&X,btxt,dl,&cut);
      }
    }
    if(X.mach){ printf("%ld MACHINERY %s\n",idx,X.machtxt); return; }
    if(X.sch>0&&!cut&&!X.viol){
      /* determinism: re-execute the last schedule of this shard and compare every observation */
      int plen=0; for(d=0;d<R->depth;d++)if(X_choice[d])plen=d+1;
      keep_R();
      rc=run_child(b,n,1,gran,K,X_choice,plen,-1); X.aux++;
      det=(rc==RC_OK&&same_obs(g_keep,R));
    }
    printf("%ld %s sch=%ld byp=%ld,%ld,%ld,%ld nodes=%ld trans=%ld mid=%ld sw=%ld aux=%ld det=%d",idx,cut?"cut":"ok",X.sch,X.byp[0],X.byp[1],X.byp[2],X.byp[3]+X.byp[4]+X.byp[5]+X.byp[6]+X.byp[7],X.nodes,X.trans,X.midbody,X.switches,X.aux,det);
    print_sets(&X,gran);
    if(X.viol)printf(" viol %s",X.violtxt);
    printf("\n");
    __real_free(dn); __real_free(dc); __real_free(dcur); __real_free(dp); __real_free(bch);
    return;
  }
  printf("%ld BADCASE kind %s\n",idx,kind);
}

/* ------------------------------------------------------------------ free-running mode (TSan pass) */
static pthread_barrier_t g_bar; static int g_active=0,g_maxactive=0; static long g_overlaps=0;
static void *free_main(void *arg){
  tctx *T=(tctx*)arg; int a,m;
  me=T;
  pthread_barrier_wait(&g_bar);
  a=__atomic_add_fetch(&g_active,1,__ATOMIC_SEQ_CST);
  m=__atomic_load_n(&g_maxactive,__ATOMIC_SEQ_CST);
  while(a>m&&!__atomic_compare_exchange_n(&g_maxactive,&m,a,0,__ATOMIC_SEQ_CST,__ATOMIC_SEQ_CST)){}
  if(a>=2)__atomic_add_fetch(&g_overlaps,1,__ATOMIC_SEQ_CST);
  run_body(T);
  __atomic_sub_fetch(&g_active,1,__ATOMIC_SEQ_CST);
  me=0;
  return 0;
}
static void *solo_main(void *arg){ tctx *T=(tctx*)arg; me=T; run_body(T); me=0; return 0; }
static int free_mode(int nth,int reps,const char *list){
  /* NOTE: the solo references are computed AFTER the concurrent phase so that the first repetition hits a cold library
     (a lazily initialised table would otherwise be warmed up single-threaded and never raced) */
  int lb[64],nl=0,i,rep,bad=0,fenvbad=0; char tmp[600]; char *t; static tctx T[64]; pthread_t th[64]; static tctx soloT[NBODY]; long runs=0,k;
  struct rec { h128 dig; int body,rep,thr,fenv; char where[48]; } *recs;
  snprintf(tmp,sizeof(tmp),"%s",list);
  for(t=strtok(tmp,"+,");t&&nl<64;t=strtok(NULL,"+,")){ int id=body_id(t); if(id<0||(body_stream(id)>=0&&!g_st[body_stream(id)].have)){ fprintf(stderr,"bad body %s\n",t); return 2; } lb[nl++]=id; }
  if(nth>64)nth=64;
  if(nl<1||nth<1||reps<1)return 2;
  recs=(struct rec*)calloc((size_t)nth*reps,sizeof(*recs));
  S.on=0; wa_on=0;
  for(rep=0;rep<reps;rep++){
    pthread_barrier_init(&g_bar,NULL,nth);
    for(i=0;i<nth;i++){ tctx_init(&T[i],i,lb[(i+rep*3+(i*rep)%5)%nl]); pthread_create(&th[i],NULL,free_main,&T[i]); }
    for(i=0;i<nth;i++)pthread_join(th[i],NULL);
    pthread_barrier_destroy(&g_bar);
    for(i=0;i<nth;i++){ struct rec *r=&recs[runs++]; r->dig=T[i].dig; r->body=T[i].body; r->rep=rep; r->thr=i; r->fenv=T[i].fenv_bad; memcpy(r->where,T[i].fenv_where,48); }
  }
  for(i=0;i<nl;i++){ pthread_t p; tctx_init(&soloT[lb[i]],0,lb[i]); pthread_create(&p,NULL,solo_main,&soloT[lb[i]]); pthread_join(p,NULL); }
  for(k=0;k<runs;k++){
    struct rec *r=&recs[k];
    if(memcmp(&r->dig,&soloT[r->body].dig,sizeof(h128))){ if(!bad)printf("MISMATCH rep=%d thread=%d body=%s\n",r->rep,r->thr,g_bname[r->body]); bad++; }
    if(r->fenv>=0){ if(!fenvbad)printf("FENV rep=%d thread=%d body=%s call=%s\n",r->rep,r->thr,g_bname[r->body],r->where); fenvbad++; }
  }
  printf("free threads=%d reps=%d runs=%ld maxactive=%d overlaps=%ld mismatches=%d fenv=%d\n",nth,reps,runs,g_maxactive,g_overlaps,bad,fenvbad);
  fflush(stdout);
  free(recs);
  return (bad||fenvbad)?1:0;
}
/* TSan engine self-test: two threads racing on a harness-owned variable must be reported */
static int g_racy=0;
static void *racer(void *a){ int i; pthread_barrier_wait(&g_bar); for(i=0;i<1000;i++)g_racy+=i; return a; }
static int selfrace(void){ pthread_t a,b; pthread_barrier_init(&g_bar,NULL,2); pthread_create(&a,NULL,racer,0); pthread_create(&b,NULL,racer,0); pthread_join(a,0); pthread_join(b,0); printf("selfrace %d\n",g_racy!=0); return 0; }

/* ------------------------------------------------------------------ floor-0 stream synthesiser */
static void wstr(oggpack_buffer *o,const char *s){ while(*s)oggpack_write(o,*s++,8); }
static void pk_out(ogg_stream_state *os,oggpack_buffer *o,int bos,int eos,ogg_int64_t gp,long no){
  ogg_packet op; memset(&op,0,sizeof(op)); op.packet=oggpack_get_buffer(o); op.bytes=oggpack_bytes(o); op.b_o_s=bos; op.e_o_s=eos; op.granulepos=gp; op.packetno=no;
  ogg_stream_packetin(os,&op);
}
static void pages_out(ogg_stream_state *os,FILE *f,int flush){ ogg_page og; while(flush?ogg_stream_flush(os,&og):ogg_stream_pageout(os,&og)){ fwrite(og.header,1,og.header_len,f); fwrite(og.body,1,og.body_len,f); } }
static int mkfloor0(const char *path,long rate,int npk){
  FILE *f=fopen(path,"wb"); ogg_stream_state os; oggpack_buffer o; vorbis_comment vc; ogg_packet cp; int i,p;
  static char l4[4]={2,2,2,2}; static char l2[2]={1,1}; static long q2[2]={0,1};
  static_codebook sb[3]; codebook cb[3]; vorbis_info_residue0 *ri=(vorbis_info_residue0*)__real_calloc(1,sizeof(*ri));
  const int bs[2]={256,1024}; ogg_int64_t gp=0; int prevW=0; unsigned lcg=99;
  if(!f)return 2;
  memset(sb,0,sizeof(sb));
  /* book 0: LSP values, dim 2, 4 entries, lattice {0.25,0.55} accumulated (sequencep) */
  sb[0].dim=2; sb[0].entries=4; sb[0].lengthlist=l4; sb[0].maptype=1; sb[0].q_min=_float32_pack(0.25f); sb[0].q_delta=_float32_pack(0.30f); sb[0].q_quant=1; sb[0].q_sequencep=1; sb[0].quantlist=q2;
  /* book 1: residue classification, dim 1, 2 entries, no values */
  sb[1].dim=1; sb[1].entries=2; sb[1].lengthlist=l2; sb[1].maptype=0;
  /* book 2: residue values, dim 2, 4 entries, lattice {-3,+3} */
  sb[2].dim=2; sb[2].entries=4; sb[2].lengthlist=l4; sb[2].maptype=1; sb[2].q_min=_float32_pack(-3.f); sb[2].q_delta=_float32_pack(6.f); sb[2].q_quant=1; sb[2].q_sequencep=0; sb[2].quantlist=q2;
  for(i=0;i<3;i++)if(vorbis_book_init_encode(&cb[i],&sb[i]))return 3;
  ogg_stream_init(&os,0xF100);
  /* identification header */
  oggpack_writeinit(&o);
  oggpack_write(&o,1,8); wstr(&o,"vorbis"); oggpack_write(&o,0,32); oggpack_write(&o,1,8); oggpack_write(&o,rate,32);
  oggpack_write(&o,0,32); oggpack_write(&o,0,32); oggpack_write(&o,0,32); oggpack_write(&o,8,4); oggpack_write(&o,10,4); oggpack_write(&o,1,1);
  pk_out(&os,&o,1,0,0,0); oggpack_writeclear(&o); pages_out(&os,f,1);
  /* comment header */
  vorbis_comment_init(&vc); vorbis_comment_add_tag(&vc,"TITLE","floor0"); vorbis_commentheader_out(&vc,&cp); cp.packetno=1; ogg_stream_packetin(&os,&cp);
  _ogg_free(cp.packet); vorbis_comment_clear(&vc);
  /* setup header */
  oggpack_writeinit(&o);
  oggpack_write(&o,5,8); wstr(&o,"vorbis");
  oggpack_write(&o,3-1,8); for(i=0;i<3;i++)if(vorbis_staticbook_pack(&sb[i],&o))return 4;
  oggpack_write(&o,0,6); oggpack_write(&o,0,16);                     /* time placeholders */
  oggpack_write(&o,0,6); oggpack_write(&o,0,16);                     /* one floor of type 0 */
  oggpack_write(&o,4,8); oggpack_write(&o,rate,16); oggpack_write(&o,40,16); oggpack_write(&o,6,6); oggpack_write(&o,90,8); oggpack_write(&o,0,4); oggpack_write(&o,0,8);
  oggpack_write(&o,0,6); oggpack_write(&o,1,16);                     /* one residue of type 1 */
  ri->begin=0; ri->end=96; ri->grouping=8; ri->partitions=2; ri->partvals=2; ri->groupbook=1; ri->secondstages[0]=0; ri->secondstages[1]=1; ri->booklist[0]=2;
  _residue_P[1]->pack((vorbis_info_residue*)ri,&o);
  oggpack_write(&o,0,6); oggpack_write(&o,0,16);                     /* one mapping of type 0 */
  oggpack_write(&o,0,1); oggpack_write(&o,0,1); oggpack_write(&o,0,2); oggpack_write(&o,0,8); oggpack_write(&o,0,8); oggpack_write(&o,0,8);
  oggpack_write(&o,2-1,6);                                           /* two modes: short, long */
  for(i=0;i<2;i++){ oggpack_write(&o,i,1); oggpack_write(&o,0,16); oggpack_write(&o,0,16); oggpack_write(&o,0,8); }
  oggpack_write(&o,1,1);
  pk_out(&os,&o,0,0,0,2); oggpack_writeclear(&o); pages_out(&os,f,1);
  /* audio packets */
  for(p=0;p<npk;p++){
    int W=(p%5==2||p%5==3)?1:0, nextW=((p+1)%5==2||(p+1)%5==3)?1:0, parts, q, e;
    oggpack_writeinit(&o);
    oggpack_write(&o,0,1); oggpack_write(&o,W,1);
    if(W){ oggpack_write(&o,prevW,1); oggpack_write(&o,nextW,1); }
    lcg=lcg*1103515245u+12345u;
    oggpack_write(&o,20+((lcg>>10)%40),6);                           /* floor amplitude > 0 */
    oggpack_write(&o,0,1);                                           /* book number (ilog(1)=1 bit) */
    for(i=0;i<2;i++){ lcg=lcg*1103515245u+12345u; vorbis_book_encode(&cb[0],(lcg>>12)&3,&o); }
    parts=96/8;
    for(q=0;q<parts;q++){
      int cls; lcg=lcg*1103515245u+12345u; cls=((lcg>>9)&3)!=0;
      vorbis_book_encode(&cb[1],cls,&o);
      if(cls)for(e=0;e<4;e++){ lcg=lcg*1103515245u+12345u; vorbis_book_encode(&cb[2],(lcg>>13)&3,&o); }
    }
    if(p>0)gp+=bs[prevW]/4+bs[W]/4;
    pk_out(&os,&o,0,p==npk-1,gp,3+p); oggpack_writeclear(&o);
    pages_out(&os,f,(p%4)==3||p==npk-1);
    prevW=W;
  }
  ogg_stream_clear(&os); fclose(f);
  for(i=0;i<3;i++)vorbis_book_clear(&cb[i]);
  printf("{\"file\":\"%s\",\"rate\":%ld,\"ch\":1,\"n\":%ld,\"packets\":%d}\n",path,rate,(long)gp,npk);
  return 0;
}

/* ------------------------------------------------------------------ hard-panned stereo stream (one channel exactly zero) */
static int mkpan(const char *path,int silent,long n){
  vorbis_info vi; vorbis_comment vc; vorbis_dsp_state vd; vorbis_block vb; ogg_stream_state os; ogg_page og; ogg_packet op,h1,h2,h3; FILE *f=fopen(path,"wb");
  long done=0; int eos=0; unsigned lcg=777u+silent; long packets=0;
  if(!f)return 2;
  vorbis_info_init(&vi);
  if(vorbis_encode_init_vbr(&vi,2,44100,0.5f))return 3;
  vorbis_comment_init(&vc); vorbis_comment_add_tag(&vc,"TITLE",silent?"right-silent":"left-silent");
  vorbis_analysis_init(&vd,&vi); vorbis_block_init(&vd,&vb); ogg_stream_init(&os,0x5180+silent);
  vorbis_analysis_headerout(&vd,&vc,&h1,&h2,&h3);
  ogg_stream_packetin(&os,&h1); ogg_stream_packetin(&os,&h2); ogg_stream_packetin(&os,&h3);
  while(ogg_stream_flush(&os,&og)){ fwrite(og.header,1,og.header_len,f); fwrite(og.body,1,og.body_len,f); }
  while(!eos){
    if(done>=n)vorbis_analysis_wrote(&vd,0);
    else{
      long c=n-done>1024?1024:n-done,j; float **b=vorbis_analysis_buffer(&vd,c);
      for(j=0;j<c;j++){
        long t=done+j; float v;
        lcg=lcg*1103515245u+12345u;
        v=0.4f*sinf(6.2831853f*523.f*(float)t/44100.f)+0.25f*(((lcg>>8)&0xffff)/32768.f-1.f)+((t%1700)==900?0.7f:0.f);
        b[silent][j]=0.f; b[1-silent][j]=v;
      }
      vorbis_analysis_wrote(&vd,c); done+=c;
    }
    while(vorbis_analysis_blockout(&vd,&vb)==1){
      vorbis_analysis(&vb,NULL); vorbis_bitrate_addblock(&vb);
      while(vorbis_bitrate_flushpacket(&vd,&op)){
        ogg_stream_packetin(&os,&op); packets++;
        while(!eos){ int r=(packets%3==0||op.e_o_s)?ogg_stream_flush(&os,&og):ogg_stream_pageout(&os,&og); if(!r)break; fwrite(og.header,1,og.header_len,f); fwrite(og.body,1,og.body_len,f); if(ogg_page_eos(&og))eos=1; }
      }
    }
  }
  fclose(f);
  ogg_stream_clear(&os); vorbis_block_clear(&vb); vorbis_dsp_clear(&vd); vorbis_comment_clear(&vc); vorbis_info_clear(&vi);
  printf("{\"file\":\"%s\",\"silent_channel\":%d,\"n\":%ld,\"packets\":%ld}\n",path,silent,n,packets);
  return 0;
}

/* ------------------------------------------------------------------ main */
static volatile long g_curcase=-1;
static void on_vtalrm(int s){ char b[64]; int n=snprintf(b,sizeof(b),"%ld TIMEOUT\n",g_curcase); (void)s; if(write(1,b,n)){} _exit(3); }
int main(int argc,char **argv){
  int i; const char *cases=0,*mode=0;
  for(i=1;i<argc;i++){
    int k;
    for(k=0;k<NSTREAMS;k++){ size_t l=strlen(g_stname[k]); if(!strncmp(argv[i],g_stname[k],l)&&argv[i][l]=='='){ stream_load(&g_st[k],argv[i]+l+1); break; } }
    if(k<NSTREAMS)continue;
    if(!strcmp(argv[i],"--cases")&&i+1<argc){ cases=argv[++i]; continue; }
    if(!strncmp(argv[i],"deadline=",9)){ g_deadline=atof(argv[i]+9); continue; }
    if(!strcmp(argv[i],"--mkfloor0")&&i+3<argc)return mkfloor0(argv[i+1],atol(argv[i+2]),atoi(argv[i+3]));
    if(!strcmp(argv[i],"--mkpan")&&i+3<argc)return mkpan(argv[i+1],atoi(argv[i+2]),atol(argv[i+3]));
    if(!strcmp(argv[i],"--selfrace"))return selfrace();
    if(!strcmp(argv[i],"--free")&&i+3<argc){ mode="free"; break; }
    if(!strcmp(argv[i],"--solo-raw")&&i+1<argc){ mode="soloraw"; break; }
  }
  if(mode&&!strcmp(mode,"free"))return free_mode(atoi(argv[i+1]),atoi(argv[i+2]),argv[i+3]);
  if(mode&&!strcmp(mode,"soloraw")){
    /* in-process, no fork, no allocator tracking: for valgrind */
    int b=body_id(argv[i+1]); static tctx T; pthread_t p; char hx[40];
    if(b<0||(body_stream(b)>=0&&!g_st[body_stream(b)].have)){ fprintf(stderr,"bad body\n"); return 2; }
    tctx_init(&T,0,b); pthread_create(&p,NULL,solo_main,&T); pthread_join(p,NULL);
    h_hex(&T.dig,hx); printf("solo body=%s dig=%s undef=%d fenv=%d\n",g_bname[b],hx,T.undef,T.fenv_bad);
    return T.undef?9:0;
  }
  if(!cases){ fprintf(stderr,"usage: c18_sched [s1=..] [s2=..] [f0=..] [ch=..] --cases <file> | --free n reps bodies | --solo-raw body | --mkfloor0 out rate npk\n"); return 2; }
#ifndef C18_TSAN
  R=(shres*)mmap(NULL,sizeof(shres),PROT_READ|PROT_WRITE,MAP_SHARED|MAP_ANONYMOUS,-1,0);
  if(R==MAP_FAILED){ perror("mmap"); return 2; }
  {
    FILE *f=fopen(cases,"r"); char *line=0; size_t cap=0; struct sigaction sa; memset(&sa,0,sizeof(sa)); sa.sa_handler=on_vtalrm; sigaction(SIGVTALRM,&sa,NULL);
    if(!f){ perror(cases); return 2; }
    while(getline(&line,&cap,f)>0){
      long idx; int off=0; struct itimerval it; size_t n=strlen(line); while(n&&(line[n-1]=='\n'||line[n-1]=='\r'))line[--n]=0;
      if(sscanf(line,"%ld %n",&idx,&off)<1)continue;
      g_curcase=idx;
      memset(&it,0,sizeof(it)); it.it_value.tv_sec=600; setitimer(ITIMER_VIRTUAL,&it,NULL);   /* CPU watchdog of the explorer itself; children have their own limits */
      do_case(idx,line+off);
      fflush(stdout);
    }
    fclose(f);
  }
#endif
  return 0;
}
