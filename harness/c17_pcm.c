/* c17_pcm: executor for C17 "integer PCM output is the rounded, clipped, interleaved float output".
 *
 * usage: c17_pcm --cases <file> [--deadline <unix time>] [--timeout <cpu s per case>] [--hash]
 *        c17_pcm --mkloud out.ogg ch rate n shift serial     (stream generator, see mkloud())
 *
 * case lines  "<idx> <kind> ..."           fmt = 0..7 : word = (fmt&4)?2:1, sgned = (fmt>>1)&1, bigendianp = fmt&1
 *   T <path> <fmt> <len> [half]   (len<0: negative-length probes interleaved with ordinary reads, see run_twin; half=1: ov_halfrate(vf,1) on both handles before the first read; ov_pcm_tell must then advance by
 *                                 exactly 2 per frame returned and the bytes are the conversion of the half-rate float decode)
 *                                 twin read-through: ov_read(A,len) against ov_read_float(B) at every position reached;
 *                                 when len is smaller than one frame of the link being read the call must be refused
 *                                 (negative return, 0 tolerated at end of stream) without touching the buffer; the walk then
 *                                 advances both handles with ov_read_float by 1,2,3.. frames.
 *   S <path> <fmt> <len> <n1:ch1,n2:ch2,..>   the twin read-through on NON-SEEKABLE handles of a chained stream (see run_stream)
 *   F <path> <fmt> <filt> <pattern>   ov_read_filter with a non-idempotent gain/offset filter under request patterns (see run_gain)
 *   P <path> <seekable> <half>    non-positive word sizes probed in every decoder state (see run_probe)
 *   W <path> <word> <len>         non-positive word: refused without writing at every position of a float walk
 *   V <path> <fmt> <lo> <hi> [len]   value enumeration: the filter callback of ov_read_filter overwrites the decoded block
 *                                 with the float bit patterns lo..hi-1 (frame-major, channel-minor); the packed bytes are
 *                                 compared with the reference for exactly those values.  The stream is looped with ov_pcm_seek(0).
 *   G <path> <fmt> <part> <nparts> [half]   same through the filter, but the values are slice part/nparts of the stratified
 *                                 boundary set built by strat_build() (sorted, deduplicated, identical in every process).
 *
 * reference (independent of the library, double arithmetic, exact for every float):
 *   s = x * 2^(8*word-1);  out in [ clip(ceil(s-0.5)), clip(floor(s+0.5)) ]  (either tie rule), clip to [-2^(8w-1), 2^(8w-1)-1],
 *   +2^(8w-1) for unsigned, byte order as requested, sample (frame j, channel c) at byte ((j*channels)+c)*word.
 *   NaN is not judged.  +-inf must go to the rail of their sign.
 *
 * result lines: "<idx> ok|bad|SKIP key=value ..."   (parsed by checks/c17.py)  */
#include "common.h"
#include <math.h>
#include <time.h>
#include "codec_internal.h"

/* ------------------------------------------------------------------ value classes */
enum { CL_EXACT=0, CL_ROUNDED, CL_TIE, CL_CLIPP, CL_CLIPN, CL_INFP, CL_INFN, CL_DENORM, CL_ZERO, CL_NEGZERO, NCLS };
static const char *cls_name[NCLS]={"exact","rounded","tie","clip+","clip-","inf+","inf-","denormal","zero","negzero"};

typedef struct { uint32_t lo,hi; int kind; int got; int elo,ehi; } badrun;
#define MAXRUNS 48
typedef struct {
  long long judged,nan,big;        /* big: values whose scaled product is >= 2^31 (outside int) */
  long long cls[NCLS];
  long long bad,bad1,bad2;         /* kind 1: positive value, product >= 2^31, packed as the NEGATIVE rail; kind 2: anything else */
  badrun runs[MAXRUNS]; int nruns; int runs_overflow;
  int envelope;                    /* values do not arrive in ascending contiguous order: keep one [min,max] envelope per (kind, got) */
} tally;

static inline int decode_out(const unsigned char *p,int word,int sgned,int be){
  if(word==1){ unsigned u=p[0]; return sgned?(int)(signed char)u:(int)u-128; }
  else{ unsigned u=be?((unsigned)p[0]<<8|p[1]):((unsigned)p[1]<<8|p[0]); return sgned?(int)(int16_t)u:(int)u-32768; }
}

/* returns 0 ok, 1 kind-1 mismatch, 2 other mismatch */
static inline int judge(uint32_t bits,int word,int sgned,int be,const unsigned char *p,tally *t){
  float x; double s,scale; int mn,mx,elo,ehi,v,k,cl;
  uint32_t ex=(bits>>23)&0xff,man=bits&0x7fffff;
  if(ex==0xff&&man){ t->nan++; return 0; }
  memcpy(&x,&bits,4);
  if(word==1){ scale=128.0; mn=-128; mx=127; } else { scale=32768.0; mn=-32768; mx=32767; }
  s=(double)x*scale;                         /* exact: 24-bit significand times a power of two */
  if(s>mx+0.5){ elo=ehi=mx; cl=CL_CLIPP; }
  else if(s<mn-0.5){ elo=ehi=mn; cl=CL_CLIPN; }
  else{
    double a=ceil(s-0.5),b=floor(s+0.5);     /* exact here: |s| < 2^16 */
    elo=(int)a; ehi=(int)b;
    if(elo<mn)elo=mn; if(ehi>mx)ehi=mx; if(elo>mx)elo=mx; if(ehi<mn)ehi=mn;
    cl=(a!=b)?CL_TIE:((double)(int)s==s?CL_EXACT:CL_ROUNDED);
  }
  if(ex==0xff)cl=(bits>>31)?CL_INFN:CL_INFP;
  else if(ex==0)cl=man?CL_DENORM:((bits>>31)?CL_NEGZERO:CL_ZERO);
  t->cls[cl]++; t->judged++;
  if(s>=2147483648.0)t->big++;
  v=decode_out(p,word,sgned,be);
  if(v>=elo&&v<=ehi)return 0;
  k=(!(bits>>31)&&s>=2147483648.0&&v==mn)?1:2;
  t->bad++; if(k==1)t->bad1++; else t->bad2++;
  if(t->envelope){ int q; for(q=0;q<t->nruns;q++){ badrun *r=&t->runs[q]; if(r->kind==k&&r->got==v&&((r->lo^bits)>>31)==0){ if(bits<r->lo)r->lo=bits; if(bits>r->hi)r->hi=bits; return k; } } }
  else if(t->nruns>0){ badrun *r=&t->runs[t->nruns-1]; if(r->kind==k&&r->got==v&&bits==r->hi+1){ r->hi=bits; return k; } }
  if(t->nruns<(k==1?MAXRUNS:MAXRUNS-8)){ badrun *r=&t->runs[t->nruns++];   /* the last 8 slots are kept for kind-1 runs */ r->lo=r->hi=bits; r->kind=k; r->got=v; r->elo=elo; r->ehi=ehi; }
  else t->runs_overflow=1;
  return k;
}

static void print_tally(const tally *t){
  int i;
  printf(" n=%lld nan=%lld big=%lld cls=",t->judged,t->nan,t->big);
  for(i=0;i<NCLS;i++)printf("%s%lld",i?",":"",t->cls[i]);
  printf(" badn=%lld bad1=%lld bad2=%lld runs=",t->bad,t->bad1,t->bad2);
  if(!t->nruns)printf("-");
  for(i=0;i<t->nruns;i++)printf("%s%d:%08x-%08x:%d:%d..%d",i?";":"",t->runs[i].kind,t->runs[i].lo,t->runs[i].hi,t->runs[i].got,t->runs[i].elo,t->runs[i].ehi);
  if(t->runs_overflow)printf(";more");
  printf(" env=%d",t->envelope);
}

/* ------------------------------------------------------------------ stratified boundary set */
static uint32_t *g_strat=NULL; static long g_nstrat=0,g_capstrat=0;
static void sp(uint32_t b){ if(g_nstrat>=g_capstrat){ g_capstrat=g_capstrat?g_capstrat*2:(1<<20); g_strat=(uint32_t*)__real_realloc(g_strat,g_capstrat*4); } g_strat[g_nstrat++]=b; }
/* order-preserving map between float bit patterns and integers, so that "+-k ulp" walks through zero */
static inline int64_t f2ord(uint32_t b){ return (b>>31)?-(int64_t)(b&0x7fffffff)-1:(int64_t)b; }
static inline uint32_t ord2f(int64_t o){ return o<0?(0x80000000u|(uint32_t)(-(o+1))):(uint32_t)o; }
static void sp_near(double v,int w){   /* v must be exactly representable as float */
  float f=(float)v; uint32_t b; int64_t o; int k;
  if((double)f!=v){ fprintf(stderr,"strat: %.17g is not a float\n",v); exit(2); }
  memcpy(&b,&f,4); o=f2ord(b);
  for(k=-w;k<=w;k++){ int64_t q=o+k; if(q>=-(int64_t)0x80000000LL&&q<=(int64_t)0x7fffffff)sp(ord2f(q)); }
}
static int cmp_u32(const void *a,const void *b){ uint32_t x=*(const uint32_t*)a,y=*(const uint32_t*)b; return x<y?-1:x>y; }
static void strat_build(void){
  long i,n; int e,sg,k,si;
  static const uint32_t mans[]={0x000000,0x7fffff,0x400000,0x200000,0x600000,0x100000,0x700000,0x555555,0x2aaaaa};
  if(g_strat)return;
  /* (1) every sign x exponent, mantissas around 0, all-ones and the binary fractions */
  for(sg=0;sg<2;sg++)for(e=0;e<256;e++)for(k=0;k<(int)(sizeof(mans)/4);k++){ int d; for(d=-16;d<=16;d++){ int64_t m=(int64_t)mans[k]+d; if(m<0||m>0x7fffff)continue; sp(((uint32_t)sg<<31)|((uint32_t)e<<23)|(uint32_t)m); } }
  /* (2) every integer and every half-step of the 16-bit grid from -33100 to 33100 and of the 8-bit grid from -430 to 430, +-3 ulp;
         quarter steps on a window around 0 and around the rails */
  for(si=0;si<2;si++){
    double scale=si?32768.0:128.0; long R=si?33100:430; long rails[5]; int r;
    for(i=-R;i<=R;i++){ sp_near((double)i/scale,3); sp_near(((double)i+0.5)/scale,3); }
    rails[0]=0; rails[1]=si?32767:127; rails[2]=-(si?32768:128); rails[3]=1; rails[4]=-1;
    for(r=0;r<5;r++)for(i=rails[r]-40;i<=rails[r]+40;i++){ sp_near(((double)i+0.25)/scale,2); sp_near(((double)i+0.75)/scale,2); }
    /* (3) where the scaled product leaves int / unsigned / int64 range, and where the float product itself overflows */
    { static const int pw[]={15,16,23,24,30,31,32,33,62,63,64,65,127}; int q;
      for(q=0;q<(int)(sizeof(pw)/sizeof(pw[0]));q++){ double v=ldexp(1.0,pw[q])/scale; sp_near(v,64); sp_near(-v,64); } }
  }
  sp_near(3.4028234663852886e38,64); sp_near(-3.4028234663852886e38,64);   /* FLT_MAX .. inf .. first NaNs */
  sp_near(1.0,64); sp_near(-1.0,64); sp_near(2.0,8); sp_near(-2.0,8); sp_near(65535.0,8); sp_near(1e9f,8); sp_near(-1e9f,8);
  qsort(g_strat,g_nstrat,4,cmp_u32);
  for(i=n=0;i<g_nstrat;i++)if(!n||g_strat[i]!=g_strat[n-1])g_strat[n++]=g_strat[i];
  g_nstrat=n;
}

/* ------------------------------------------------------------------ watchdog */
static volatile long g_cur=-1;
static int g_hash=0;   /* --hash: V/G result lines carry a hash of every packed byte (to compare two library builds byte for byte) */
static void on_alarm(int s){ char b[64]; int n=snprintf(b,sizeof(b),"%ld TIMEOUT\n",g_cur); if(write(1,b,n)<0){} _exit(3); }

/* ------------------------------------------------------------------ files */
typedef struct { char path[400]; unsigned char *data; long len; } fent;
static fent g_files[64]; static int g_nfiles=0;
static fent *get_file(const char *path){
  int i; for(i=0;i<g_nfiles;i++)if(!strcmp(g_files[i].path,path))return &g_files[i];
  if(g_nfiles>=64){ fprintf(stderr,"too many files\n"); exit(2); }
  strcpy(g_files[g_nfiles].path,path); g_files[g_nfiles].data=load_file(path,&g_files[g_nfiles].len);
  return &g_files[g_nfiles++];
}

/* ------------------------------------------------------------------ value enumeration through the filter */
typedef struct { uint64_t cur,hi; const uint32_t *arr; uint32_t *rec; long nrec,valid,cap; long ch,samples,calls; int overflow; } vsrc;
static void vfilter(float **pcm,long channels,long samples,void *param){
  vsrc *s=(vsrc*)param; long j,c;
  s->nrec=0; s->valid=0; s->ch=channels; s->samples=samples; s->calls++;
  if(channels*samples>s->cap){ s->overflow=1; return; }
  for(j=0;j<samples;j++)for(c=0;c<channels;c++){
    uint32_t b=0;
    if(s->cur<s->hi){ b=s->arr?s->arr[s->cur]:(uint32_t)s->cur; s->cur++; s->valid++; }
    s->rec[s->nrec++]=b; memcpy(&pcm[c][j],&b,4);
  }
}

#define GUARD 64
#define NEGBUF 16384   /* checked real buffer behind the pointer when a negative length is passed */
#define SLACK (1<<20)   /* unchecked room behind the trailing guard so that an over-long write is reported, not a heap smash */
static inline unsigned char canary(long i){ return (unsigned char)(0xA5^(i*29)^(i>>8)); }
static void fill_canary(unsigned char *raw,long n){ long i; for(i=0;i<n;i++)raw[i]=canary(i); }
static long first_touched(const unsigned char *raw,long from,long to){ long i; for(i=from;i<to;i++)if(raw[i]!=canary(i))return i; return -1; }

static void run_values(long idx,const char *path,int fmt,uint64_t lo,uint64_t hi,const uint32_t *arr,int len,int half){
  int word=(fmt&4)?2:1,sgned=(fmt>>1)&1,be=fmt&1; fent *f=get_file(path); memio m; OggVorbis_File vf; tally t; vsrc s; int orc;
  unsigned char *raw=(unsigned char*)__real_malloc(GUARD+len+GUARD+SLACK); char what[200]; long eofs=0,consec_eof=0,dirty=0; long maxframes=0,chans=0;
  h128 hh; char hx[40]="-";
  memset(&t,0,sizeof(t)); memset(&s,0,sizeof(s)); what[0]=0; t.envelope=(arr!=NULL); h_init(&hh);
  fill_canary(raw,GUARD+len+GUARD);
  s.cur=lo; s.hi=hi; s.arr=arr; s.cap=len+16; s.rec=(uint32_t*)__real_malloc(sizeof(uint32_t)*s.cap);
  mio_init(&m,f->data,f->len);
  orc=ov_open_callbacks(&m,&vf,NULL,0,mio_cb_seekable);
  if(orc<0){ printf("%ld bad what=open%d\n",idx,orc); __real_free(raw); __real_free(s.rec); return; }
  if(half&&ov_halfrate(&vf,1))snprintf(what,sizeof(what),"halfrate_refused");
  while(s.cur<s.hi&&!what[0]){
    int bs=-1; long r,fr,k,bps; ogg_int64_t p0=ov_pcm_tell(&vf),p1;
    for(k=GUARD;k<GUARD+dirty;k++)raw[k]=canary(k);     /* everything else was verified untouched after the previous call */
    dirty=0;
    s.nrec=0; s.valid=0; s.samples=-1;
    r=ov_read_filter(&vf,(char*)raw+GUARD,len,be,word,sgned,&bs,vfilter,&s);
    if(r==0){ eofs++; if((k=first_touched(raw,0,GUARD+len+GUARD))>=0){ snprintf(what,sizeof(what),"eof_but_wrote:off%ld",k-GUARD); break; } if(++consec_eof>2){ snprintf(what,sizeof(what),"stream_yields_nothing"); break; } if(ov_pcm_seek(&vf,0)){ snprintf(what,sizeof(what),"rewind_failed"); break; } continue; }
    consec_eof=0;
    if(r<0){ snprintf(what,sizeof(what),"read_error:%ld",r); break; }
    dirty=r>len?len:r;
    if(s.overflow){ snprintf(what,sizeof(what),"filter_block_larger_than_length:%ldx%ld",s.ch,s.samples); break; }
    if(s.samples<0){ snprintf(what,sizeof(what),"filter_not_called"); break; }
    bps=word*s.ch; chans=s.ch;
    if(r!=s.samples*bps){ snprintf(what,sizeof(what),"retval:%ld!=%ldx%ld",r,s.samples,bps); break; }
    if(r>len){ snprintf(what,sizeof(what),"retval_exceeds_length:%ld>%d",r,len); break; }
    fr=s.samples; if(fr>maxframes)maxframes=fr;
    p1=ov_pcm_tell(&vf);
    if(p1!=p0+(fr<<half)){ snprintf(what,sizeof(what),"tell_advance:%ld+%ldx%d!=%ld",(long)p0,fr,1<<half,(long)p1); break; }
    if((k=first_touched(raw,0,GUARD))>=0||(k=first_touched(raw,GUARD+r,GUARD+len+GUARD))>=0){ snprintf(what,sizeof(what),"canary_touched_at:%ld:ret%ld",k-GUARD,r); break; }
    for(k=0;k<s.valid;k++)judge(s.rec[k],word,sgned,be,raw+GUARD+k*word,&t);
    if(g_hash)h_bytes(&hh,raw+GUARD,s.valid*word);
  }
  ov_clear(&vf);
  printf("%ld %s",idx,(what[0]||t.bad)?"bad":"ok");
  print_tally(&t);
  if(g_hash)h_hex(&hh,hx);
  printf(" calls=%ld eofs=%ld ch=%ld maxframes=%ld half=%d hash=%s what=%s\n",s.calls,eofs,chans,maxframes,half,hx,what[0]?what:"-");
  __real_free(raw); __real_free(s.rec);
}

/* ------------------------------------------------------------------ twin read-through */
static int chans_at(OggVorbis_File *vf,ogg_int64_t pos){
  int i,nl=ov_streams(vf); ogg_int64_t cum=0;
  for(i=0;i<nl;i++){ cum+=ov_pcm_total(vf,i); if(pos<cum)return ov_info(vf,i)->channels; }
  return ov_info(vf,nl-1)->channels;
}

/* advance both handles by `want` frames of float reading; 0 at EOF, <0 on divergence */
static long float_step(OggVorbis_File *A,OggVorbis_File *B,long want,float *tmp,long tmpcap){
  float **pa,**pb; int b1,b2; long nA,nB,c,ch;
  nA=ov_read_float(A,&pa,(int)want,&b1); if(nA<0)return -1000+nA; if(nA==0){ nB=ov_read_float(B,&pb,(int)want,&b2); return nB==0?0:-2; }
  ch=ov_info(A,-1)->channels; if(nA*ch>tmpcap)return -3;
  for(c=0;c<ch;c++)memcpy(tmp+c*nA,pa[c],sizeof(float)*nA);
  nB=ov_read_float(B,&pb,(int)nA,&b2); if(nB!=nA)return -4;
  for(c=0;c<ch;c++)if(memcmp(tmp+c*nA,pb[c],sizeof(float)*nA))return -5;
  return nA;
}

static void run_twin(long idx,const char *path,int fmt,int reqlen,int wordover,int half){
  int word=(fmt&4)?2:1,sgned=(fmt>>1)&1,be=fmt&1; fent *f=get_file(path); memio ma,mb; OggVorbis_File A,B; tally t; char what[240];
  unsigned char *raw; long reads=0,rej=0,rejcodes[2]={0,0},frames_total=0,multi=0,maxch=0,minch=999,step=0; ogg_int64_t total; float *tmp; long tmpcap=255*128;
  int nonpos=(wordover<=0);   /* W case: word = wordover (<=0) */
  /* reqlen<0: the negative length is passed to ov_read alternately with ordinary reads of 1..5 frames (+1 byte on odd steps), the
     first probe right after open, the later ones while the rest of a decoded block is pending.  Behind the pointer is a real
     buffer of NEGBUF checked bytes (+SLACK unchecked), so a library that writes anyway is observed instead of smashing the heap. */
  int len=reqlen,blen,neg=(reqlen<0),phase=0,probe=0,probe_zero=0; long negprobes=0;
  if(nonpos)word=wordover;
  memset(&t,0,sizeof(t)); what[0]=0; t.envelope=1;
  blen=neg?NEGBUF:reqlen;
  raw=(unsigned char*)__real_malloc(GUARD+blen+GUARD+SLACK); tmp=(float*)__real_malloc(sizeof(float)*tmpcap);
  mio_init(&ma,f->data,f->len); mio_init(&mb,f->data,f->len);
  if(ov_open_callbacks(&ma,&A,NULL,0,mio_cb_seekable)<0){ printf("%ld bad what=openA\n",idx); return; }
  if(ov_open_callbacks(&mb,&B,NULL,0,mio_cb_seekable)<0){ printf("%ld bad what=openB\n",idx); ov_clear(&A); return; }
  total=ov_pcm_total(&A,-1);
  /* half-rate decoding switched on before the first read, on both handles: a frame is then worth 2 positions */
  if(half&&(ov_halfrate(&A,1)||ov_halfrate(&B,1)))snprintf(what,sizeof(what),"halfrate_refused");
  while(!what[0]){
    ogg_int64_t pa=ov_pcm_tell(&A),pb=ov_pcm_tell(&B),pa2; int ateof,ch,frame,bs=-1; long r,k;
    if(pa!=pb){ snprintf(what,sizeof(what),"twin_positions_differ:%ld:%ld",(long)pa,(long)pb); break; }
    ateof=(pa>=total); ch=chans_at(&A,pa); frame=(nonpos?1:word)*ch; if(ch>maxch)maxch=ch; if(ch<minch)minch=ch;
    if(neg){ probe=!(phase&1); phase++; if(probe)len=reqlen; else{ step=step%5+1; len=(int)step*frame+(int)(step&1); } }
    fill_canary(raw,GUARD+blen+GUARD);
    r=ov_read(&A,(char*)raw+GUARD,len,be,word,sgned,&bs);
    if(probe&&r>0){ snprintf(what,sizeof(what),"negative_length_not_refused:ret%ld:len%d:frame%d:pos%ld->%ld:wrote%s",r,len,frame,(long)pa,(long)ov_pcm_tell(&A),first_touched(raw,GUARD,GUARD+blen)>=0?"yes":"no"); break; }
    if((k=first_touched(raw,0,GUARD))>=0||(k=first_touched(raw,GUARD+blen,GUARD+blen+GUARD))>=0){ snprintf(what,sizeof(what),"wrote_outside_buffer:off%ld:len%d:pos%ld",k-GUARD,len,(long)pa); break; }
    if(nonpos||len<frame){
      long adv;
      if(!(r<0||(r==0&&!nonpos&&(ateof||half)))){ snprintf(what,sizeof(what),"%s_not_refused:ret%ld:len%d:frame%d:pos%ld",neg?"negative_length":(nonpos?"nonpositive_word":"small_buffer"),r,len,frame,(long)pa); break; }
      if((k=first_touched(raw,GUARD,GUARD+blen))>=0){ snprintf(what,sizeof(what),"%s_refused_but_wrote:off%ld:ret%ld:len%d:pos%ld",neg?"negative_length":(nonpos?"nonpositive_word":"small_buffer"),k-GUARD,r,len,(long)pa); break; }
      if(ov_pcm_tell(&A)!=pa){ snprintf(what,sizeof(what),"refused_read_moved_position:%ld->%ld",(long)pa,(long)ov_pcm_tell(&A)); break; }
      rej++; if(r==OV_EINVAL)rejcodes[0]++; else rejcodes[1]++;
      if(probe){ negprobes++; if(r==0)probe_zero=1; continue; }   /* the next iteration is an ordinary read at the same position */
      if(ateof&&!half)break;
      step=step%41+1;
      adv=float_step(&A,&B,step,tmp,tmpcap);
      if(adv<0){ snprintf(what,sizeof(what),"float_twins_diverged:%ld:pos%ld",adv,(long)pa); break; }
      /* half-rate: where the stream ends in position units is C20's business; end of stream = the float twins deliver nothing */
      if(r==0&&adv!=0){ snprintf(what,sizeof(what),"%s_not_refused:ret0_but_stream_continues:len%d:frame%d:pos%ld",neg?"negative_length":(nonpos?"nonpositive_word":"small_buffer"),len,frame,(long)pa); break; }
      if(adv==0){ if(!half&&!(ov_pcm_tell(&A)>=total))snprintf(what,sizeof(what),"float_eof_before_total:%ld<%ld",(long)ov_pcm_tell(&A),(long)total); break; }
      continue;
    }
    if(r<0){ snprintf(what,sizeof(what),"unexpected_error:ret%ld:len%d:pos%ld",r,len,(long)pa); break; }
    if(r==0){
      float **pp; long nb=ov_read_float(&B,&pp,1024,&bs);
      if(nb!=0){ snprintf(what,sizeof(what),"int_eof_but_float_continues:pos%ld:float%ld",(long)pa,nb); break; }
      if((k=first_touched(raw,GUARD,GUARD+blen))>=0){ snprintf(what,sizeof(what),"eof_but_wrote:off%ld",k-GUARD); break; }
      if(!half&&pa!=total){ snprintf(what,sizeof(what),"eof_before_total:%ld<%ld",(long)pa,(long)total); break; }
      break;
    }
    if(probe_zero){ snprintf(what,sizeof(what),"negative_length_not_refused:ret0_but_stream_continues:len%d:pos%ld",reqlen,(long)pa); break; }
    if(r>len){ snprintf(what,sizeof(what),"retval_exceeds_length:%ld>%d:pos%ld",r,len,(long)pa); break; }
    if(r%frame){ snprintf(what,sizeof(what),"retval_not_whole_frames:%ld%%%d:len%d:pos%ld",r,frame,len,(long)pa); break; }
    if((k=first_touched(raw,GUARD+r,GUARD+blen))>=0){ snprintf(what,sizeof(what),"wrote_beyond_returned_count:off%ld:ret%ld:len%d:pos%ld",k-GUARD,r,len,(long)pa); break; }
    {
      long fr=r/frame,got=0;
      pa2=ov_pcm_tell(&A);
      if(pa2!=pa+(fr<<half)){ snprintf(what,sizeof(what),"tell_advance:%ld+%ldx%d!=%ld:len%d",(long)pa,fr,1<<half,(long)pa2,len); break; }
      while(got<fr&&!what[0]){
        float **pp; int b2; long j,c,nb=ov_read_float(&B,&pp,(int)(fr-got),&b2);
        if(nb<=0){ snprintf(what,sizeof(what),"float_twin_short:%ld:after%ld_of%ld:pos%ld",nb,got,fr,(long)pa); break; }
        if(ov_info(&B,-1)->channels!=ch){ snprintf(what,sizeof(what),"channel_count_model:%d!=%d:pos%ld",ov_info(&B,-1)->channels,ch,(long)pa); break; }
        for(j=0;j<nb;j++)for(c=0;c<ch;c++){
          uint32_t bits; int kk; memcpy(&bits,&pp[c][j],4);
          kk=judge(bits,word,sgned,be,raw+GUARD+((got+j)*ch+c)*word,&t);
          if(kk==2&&!what[0])snprintf(what,sizeof(what),"value:pos%ld:frame%ld:ch%ld:bits%08x:len%d",(long)pa,got+j,c,bits,len);
        }
        got+=nb;
      }
      if(what[0])break;
      if(ov_pcm_tell(&B)!=pa2){ snprintf(what,sizeof(what),"twin_positions_differ_after:%ld:%ld",(long)pa2,(long)ov_pcm_tell(&B)); break; }
      reads++; frames_total+=fr; if(fr>=2&&ch>=3)multi++;
    }
  }
  ov_clear(&A); ov_clear(&B);
  printf("%ld %s",idx,(what[0]||t.bad2)?"bad":"ok");
  print_tally(&t);
  printf(" reads=%ld rej=%ld einval=%ld frames=%ld multi=%ld maxch=%ld minch=%ld total=%ld half=%d negprobes=%ld what=%s\n",reads,rej,rejcodes[0],frames_total,multi,maxch,minch,(long)total,half,negprobes,what[0]?what:"-");
  __real_free(raw); __real_free(tmp);
}

/* ------------------------------------------------------------------ twin read-through on NON-SEEKABLE handles (chained streams)
 * S <path> <fmt> <len> <n1:ch1,n2:ch2,...>
 * Both handles are opened with callbacks that have no seek/tell.  The channel count of the link being read comes from the
 * case line (construction ground truth: frames consumed so far against the link lengths), never from the handle under test.
 * ov_pcm_tell must advance by the frames returned within a link (the first read of a link is exempt: a streaming handle
 * re-bases its position when a link starts) and must equal the float twin's position after every read. */
static void run_stream(long idx,const char *path,int fmt,int len,const char *links){
  int word=(fmt&4)?2:1,sgned=(fmt>>1)&1,be=fmt&1; fent *f=get_file(path); memio ma,mb; OggVorbis_File A,B; tally t; char what[240];
  long ln[16]; int lc[16],nl=0,link=0; long cin=0,reads=0,rej=0,frames_total=0,crossed=0,step=0; unsigned char *raw; float *tmp; long tmpcap=255*128; const char *q=links;
  memset(&t,0,sizeof(t)); what[0]=0; t.envelope=1;
  while(*q&&nl<16){ char *e; ln[nl]=strtol(q,&e,10); if(*e!=':')break; lc[nl]=(int)strtol(e+1,&e,10); nl++; q=(*e==',')?e+1:e; }
  if(nl<1||len<0){ printf("%ld bad what=badcase\n",idx); return; }
  raw=(unsigned char*)__real_malloc(GUARD+len+GUARD+SLACK); tmp=(float*)__real_malloc(sizeof(float)*tmpcap);
  mio_init(&ma,f->data,f->len); mio_init(&mb,f->data,f->len);
  if(ov_open_callbacks(&ma,&A,NULL,0,mio_cb_stream)<0){ printf("%ld bad what=openA\n",idx); return; }
  if(ov_open_callbacks(&mb,&B,NULL,0,mio_cb_stream)<0){ printf("%ld bad what=openB\n",idx); ov_clear(&A); return; }
  if(ov_seekable(&A)||ov_seekable(&B))snprintf(what,sizeof(what),"handle_is_seekable");
  while(!what[0]){
    ogg_int64_t pa,pa2; int ateof,ch,frame,bs=-1; long r,k;
    while(link<nl&&cin>=ln[link]){ link++; cin=0; if(link<nl)crossed++; }
    ateof=(link>=nl); ch=lc[ateof?nl-1:link]; frame=word*ch;
    pa=ov_pcm_tell(&A);
    fill_canary(raw,GUARD+len+GUARD);
    r=ov_read(&A,(char*)raw+GUARD,len,be,word,sgned,&bs);
    if((k=first_touched(raw,0,GUARD))>=0||(k=first_touched(raw,GUARD+len,GUARD+len+GUARD))>=0){ snprintf(what,sizeof(what),"wrote_outside_buffer:off%ld:len%d:link%d:in%ld",k-GUARD,len,link,cin); break; }
    if(len<frame){
      long adv;
      if(!(r<0||(r==0&&ateof))){ snprintf(what,sizeof(what),"small_buffer_not_refused:ret%ld:len%d:frame%d:link%d:in%ld",r,len,frame,link,cin); break; }
      if((k=first_touched(raw,GUARD,GUARD+len))>=0){ snprintf(what,sizeof(what),"small_buffer_refused_but_wrote:off%ld:ret%ld:len%d:link%d:in%ld",k-GUARD,r,len,link,cin); break; }
      rej++;
      if(ateof)break;
      step=step%41+1;
      adv=float_step(&A,&B,step,tmp,tmpcap);
      if(adv<=0){ snprintf(what,sizeof(what),"float_twins_diverged_or_short:%ld:link%d:in%ld",adv,link,cin); break; }
      if(cin+adv>ln[link]){ snprintf(what,sizeof(what),"float_read_overruns_link:%ld+%ld>%ld:link%d",cin,adv,ln[link],link); break; }
      cin+=adv;
      continue;
    }
    if(r<0){ snprintf(what,sizeof(what),"unexpected_error:ret%ld:len%d:link%d:in%ld",r,len,link,cin); break; }
    if(r==0){
      float **pp; long nb=ov_read_float(&B,&pp,1024,&bs);
      if(nb!=0){ snprintf(what,sizeof(what),"int_eof_but_float_continues:link%d:in%ld:float%ld",link,cin,nb); break; }
      if((k=first_touched(raw,GUARD,GUARD+len))>=0){ snprintf(what,sizeof(what),"eof_but_wrote:off%ld",k-GUARD); break; }
      if(!ateof){ snprintf(what,sizeof(what),"eof_before_total:link%d:in%ld<%ld",link,cin,ln[link]); break; }
      break;
    }
    if(ateof){ snprintf(what,sizeof(what),"data_after_last_link:ret%ld",r); break; }
    if(r>len){ snprintf(what,sizeof(what),"retval_exceeds_length:%ld>%d:link%d:in%ld",r,len,link,cin); break; }
    if(r%frame){ snprintf(what,sizeof(what),"retval_not_whole_frames:%ld%%%d:len%d:link%d:in%ld",r,frame,len,link,cin); break; }
    if((k=first_touched(raw,GUARD+r,GUARD+len))>=0){ snprintf(what,sizeof(what),"wrote_beyond_returned_count:off%ld:ret%ld:len%d:link%d:in%ld",k-GUARD,r,len,link,cin); break; }
    {
      long fr=r/frame,got=0;
      if(cin+fr>ln[link]){ snprintf(what,sizeof(what),"read_overruns_link:%ld+%ld>%ld:link%d",cin,fr,ln[link],link); break; }
      pa2=ov_pcm_tell(&A);
      if(cin>0&&pa2!=pa+fr){ snprintf(what,sizeof(what),"tell_advance:%ld+%ld!=%ld:len%d:link%d:in%ld",(long)pa,fr,(long)pa2,len,link,cin); break; }
      while(got<fr&&!what[0]){
        float **pp; int b2; long j,c,nb=ov_read_float(&B,&pp,(int)(fr-got),&b2);
        if(nb<=0){ snprintf(what,sizeof(what),"float_twin_short:%ld:after%ld_of%ld:link%d:in%ld",nb,got,fr,link,cin); break; }
        if(ov_info(&B,-1)->channels!=ch){ snprintf(what,sizeof(what),"channel_count_model:%d!=%d:link%d:in%ld",ov_info(&B,-1)->channels,ch,link,cin); break; }
        for(j=0;j<nb;j++)for(c=0;c<ch;c++){
          uint32_t bits; int kk; memcpy(&bits,&pp[c][j],4);
          kk=judge(bits,word,sgned,be,raw+GUARD+((got+j)*ch+c)*word,&t);
          if(kk&&!what[0])snprintf(what,sizeof(what),"value:link%d:in%ld:frame%ld:ch%ld:bits%08x:len%d",link,cin,got+j,c,bits,len);
        }
        got+=nb;
      }
      if(what[0])break;
      if(ov_pcm_tell(&B)!=pa2){ snprintf(what,sizeof(what),"twin_positions_differ_after:%ld:%ld:link%d:in%ld",(long)pa2,(long)ov_pcm_tell(&B),link,cin); break; }
      reads++; frames_total+=fr; cin+=fr;
    }
  }
  ov_clear(&A); ov_clear(&B);
  printf("%ld %s",idx,(what[0]||t.bad)?"bad":"ok");
  print_tally(&t);
  printf(" reads=%ld rej=%ld frames=%ld links=%d crossed=%ld what=%s\n",reads,rej,frames_total,nl,crossed,what[0]?what:"-");
  __real_free(raw); __real_free(tmp);
}

/* ------------------------------------------------------------------ ov_read_filter with a NON-IDEMPOTENT filter
 * F <path> <fmt> <filt> <pattern>
 *   filt: 0 gain 2.0, 1 gain 0.5, 2 offset +0.25        pattern: 0 big buffer (65536), 1 100-byte buffer, 2 one-frame buffer,
 *   3 big buffers, every third request refused-by-construction (one byte short of a frame, -1, -4096 in turn)
 * Every returned byte must be convert(filter(x)) with the filter applied exactly ONCE to the float x the twin handle delivers
 * for that position (same C expression on both sides, so the expected float is bit-exact), and over the whole read-through the
 * filter must have been handed exactly as many samples as frames were returned (sum of its `samples` arguments). */
typedef struct { int filt; long calls,samples,chan_mismatch; long ch; } gainst;
static inline float gain_apply(int filt,float x){ return filt==0?x*2.0f:(filt==1?x*0.5f:x+0.25f); }
static void gain_filter(float **pcm,long channels,long samples,void *param){
  gainst *g=(gainst*)param; long c,j;
  g->calls++; g->samples+=samples; if(channels!=g->ch)g->chan_mismatch++;
  for(c=0;c<channels;c++)for(j=0;j<samples;j++)pcm[c][j]=gain_apply(g->filt,pcm[c][j]);
}
static void run_gain(long idx,const char *path,int fmt,int filt,int pattern){
  int word=(fmt&4)?2:1,sgned=(fmt>>1)&1,be=fmt&1; fent *f=get_file(path); memio ma,mb; OggVorbis_File A,B; tally t; char what[240];
  long reads=0,rej=0,frames_total=0,ncall=0,refuse_turn=0; unsigned char *raw; gainst g; int blen=65536; ogg_int64_t total;
  memset(&t,0,sizeof(t)); memset(&g,0,sizeof(g)); what[0]=0; t.envelope=1; g.filt=filt;
  if(filt<0||filt>2||pattern<0||pattern>3){ printf("%ld bad what=badcase\n",idx); return; }
  if(pattern==1||pattern==2)blen=1024;   /* the checked real buffer; requests of these patterns are at most 100 bytes / one frame */
  raw=(unsigned char*)__real_malloc(GUARD+blen+GUARD+SLACK);
  mio_init(&ma,f->data,f->len); mio_init(&mb,f->data,f->len);
  if(ov_open_callbacks(&ma,&A,NULL,0,mio_cb_seekable)<0){ printf("%ld bad what=openA\n",idx); return; }
  if(ov_open_callbacks(&mb,&B,NULL,0,mio_cb_seekable)<0){ printf("%ld bad what=openB\n",idx); ov_clear(&A); return; }
  total=ov_pcm_total(&A,-1);
  while(!what[0]){
    ogg_int64_t pa=ov_pcm_tell(&A); int ch=chans_at(&A,pa),frame=word*ch,len,refuse=0,bs=-1; long r,k,calls0=g.calls,samples0=g.samples;
    g.ch=ch;
    if(pattern==0)len=65536; else if(pattern==1)len=100; else if(pattern==2)len=frame;
    else{ if(ncall%3==1){ static const int bad[3]={0,-1,-4096}; refuse=1; len=(refuse_turn%3==0)?frame-1:bad[refuse_turn%3]; refuse_turn++; } else len=65536; }
    ncall++;
    if(len>=0&&len<frame)refuse=1;      /* 100 bytes are less than one frame of a wide stream */
    fill_canary(raw,GUARD+blen+GUARD);
    r=ov_read_filter(&A,(char*)raw+GUARD,len,be,word,sgned,&bs,gain_filter,&g);
    if((k=first_touched(raw,0,GUARD))>=0||(k=first_touched(raw,GUARD+blen,GUARD+blen+GUARD))>=0){ snprintf(what,sizeof(what),"wrote_outside_buffer:off%ld:len%d:pos%ld",k-GUARD,len,(long)pa); break; }
    if(refuse){
      if(!(r<0||(r==0&&pa>=total))){ snprintf(what,sizeof(what),"small_buffer_not_refused:ret%ld:len%d:frame%d:pos%ld",r,len,frame,(long)pa); break; }
      if((k=first_touched(raw,GUARD,GUARD+blen))>=0){ snprintf(what,sizeof(what),"small_buffer_refused_but_wrote:off%ld:ret%ld:len%d:pos%ld",k-GUARD,r,len,(long)pa); break; }
      if(ov_pcm_tell(&A)!=pa){ snprintf(what,sizeof(what),"refused_read_moved_position:%ld->%ld",(long)pa,(long)ov_pcm_tell(&A)); break; }
      rej++;
      if(pa>=total||pattern!=3){ if(pattern!=3&&pa<total)snprintf(what,sizeof(what),"badcase_pattern_cannot_progress"); break; }
      continue;
    }
    if(r<0){ snprintf(what,sizeof(what),"unexpected_error:ret%ld:len%d:pos%ld",r,len,(long)pa); break; }
    if(r==0){
      float **pp; long nb=ov_read_float(&B,&pp,1024,&bs);
      if(nb!=0){ snprintf(what,sizeof(what),"int_eof_but_float_continues:pos%ld:float%ld",(long)pa,nb); break; }
      if(pa!=total){ snprintf(what,sizeof(what),"eof_before_total:%ld<%ld",(long)pa,(long)total); break; }
      break;
    }
    if(r>len){ snprintf(what,sizeof(what),"retval_exceeds_length:%ld>%d:pos%ld",r,len,(long)pa); break; }
    if(r%frame){ snprintf(what,sizeof(what),"retval_not_whole_frames:%ld%%%d:len%d:pos%ld",r,frame,len,(long)pa); break; }
    if((k=first_touched(raw,GUARD+r,GUARD+blen))>=0){ snprintf(what,sizeof(what),"wrote_beyond_returned_count:off%ld:ret%ld:len%d:pos%ld",k-GUARD,r,len,(long)pa); break; }
    {
      long fr=r/frame,got=0;
      if(ov_pcm_tell(&A)!=pa+fr){ snprintf(what,sizeof(what),"tell_advance:%ld+%ld!=%ld:len%d",(long)pa,fr,(long)ov_pcm_tell(&A),len); break; }
      if(g.calls==calls0){ snprintf(what,sizeof(what),"filter_not_called:pos%ld:len%d",(long)pa,len); break; }
      while(got<fr&&!what[0]){
        float **pp; int b2; long j,c,nb=ov_read_float(&B,&pp,(int)(fr-got),&b2);
        if(nb<=0){ snprintf(what,sizeof(what),"float_twin_short:%ld:after%ld_of%ld:pos%ld",nb,got,fr,(long)pa); break; }
        for(j=0;j<nb;j++)for(c=0;c<ch;c++){
          float y=gain_apply(filt,pp[c][j]); uint32_t bits; int kk; memcpy(&bits,&y,4);
          kk=judge(bits,word,sgned,be,raw+GUARD+((got+j)*ch+c)*word,&t);
          if(kk&&!what[0])snprintf(what,sizeof(what),"filtered_value:pos%ld:frame%ld:ch%ld:once_filtered_bits%08x:len%d:filter_got_%ld_samples_this_call",(long)pa,got+j,c,bits,len,g.samples-samples0);
        }
        got+=nb;
      }
      if(what[0])break;
      reads++; frames_total+=fr;
    }
  }
  if(!what[0]&&g.samples!=frames_total)snprintf(what,sizeof(what),"filter_sample_count:filter_was_handed_%ld_samples_in_%ld_calls_but_%ld_frames_were_returned",g.samples,g.calls,frames_total);
  if(!what[0]&&g.chan_mismatch)snprintf(what,sizeof(what),"filter_channel_argument:%ld_calls",g.chan_mismatch);
  ov_clear(&A); ov_clear(&B);
  printf("%ld %s",idx,(what[0]||t.bad)?"bad":"ok");
  print_tally(&t);
  printf(" reads=%ld rej=%ld frames=%ld fcalls=%ld fsamples=%ld what=%s\n",reads,rej,frames_total,g.calls,g.samples,what[0]?what:"-");
  __real_free(raw);
}

/* ------------------------------------------------------------------ non-positive word sizes in every decoder state
 * P <path> <seekable 0|1> <half 0|1>
 * word in {0,-1,-2,INT_MIN} x (sgned,bigendianp) in {0,1}^2 x length in {0,4096} is requested: right after open, with decoded data
 * pending (after a 2-frame read), every 5th read of a read-through, after the read that reported end of stream, and (seekable)
 * after ov_pcm_seek to ov_pcm_total and again after seeking back to 0.  Every probe must be answered with a NEGATIVE code (no
 * end-of-stream exception), write nothing, leave ov_pcm_tell alone; the ordinary 16-bit reads in between must still equal the
 * float twin, end of stream must still be reported as 0 afterwards.  The channel count comes from the float twin. */
typedef struct { long probes,einval; } pstat;
static int probe_words(OggVorbis_File *A,unsigned char *raw,const char *state,pstat *ps,char *what,size_t wn){
  static const int words[4]={0,-1,-2,(-2147483647-1)}; static const int lens[2]={0,4096}; int wi,fl,li;
  for(wi=0;wi<4;wi++)for(fl=0;fl<4;fl++)for(li=0;li<2;li++){
    ogg_int64_t pa=ov_pcm_tell(A); int bs=-1; long r,k;
    fill_canary(raw,GUARD+4096+GUARD);
    r=ov_read(A,(char*)raw+GUARD,lens[li],fl&1,words[wi],(fl>>1)&1,&bs);
    ps->probes++; if(r==OV_EINVAL)ps->einval++;
    if((k=first_touched(raw,0,GUARD+4096+GUARD))>=0){ snprintf(what,wn,"nonpositive_word_wrote:state_%s:word%d:len%d:off%ld:ret%ld",state,words[wi],lens[li],k-GUARD,r); return 1; }
    if(r>=0){ snprintf(what,wn,"nonpositive_word_not_refused:state_%s:ret%ld:word%d:len%d:pos%ld",state,r,words[wi],lens[li],(long)pa); return 1; }
    if(ov_pcm_tell(A)!=pa){ snprintf(what,wn,"nonpositive_word_moved_position:state_%s:%ld->%ld:word%d",state,(long)pa,(long)ov_pcm_tell(A),words[wi]); return 1; }
  }
  return 0;
}
/* one ordinary 16-bit signed little-endian read of at most `want` frames on A against the float twin B; returns frames, 0 at EOF, -1 on failure */
static long plain_read(OggVorbis_File *A,OggVorbis_File *B,long want,int half,unsigned char *raw,float *tmp,long tmpcap,tally *t,char *what,size_t wn){
  float **pp; int b1=-1,b2=-1,ch; long nb,r,c,j,k; ogg_int64_t pa=ov_pcm_tell(A),pb;
  nb=ov_read_float(B,&pp,(int)want,&b2);
  if(nb<0){ snprintf(what,wn,"float_twin_error:%ld",nb); return -1; }
  fill_canary(raw,GUARD+4096+GUARD);
  if(nb==0){ r=ov_read(A,(char*)raw+GUARD,4096,0,2,1,&b1); if(r!=0){ snprintf(what,wn,"float_eof_but_int_returns:%ld:pos%ld",r,(long)pa); return -1; }
    if((k=first_touched(raw,0,GUARD+4096+GUARD))>=0){ snprintf(what,wn,"eof_but_wrote:off%ld",k-GUARD); return -1; } return 0; }
  ch=ov_info(B,-1)->channels; if(nb*ch>tmpcap||nb*ch*2>4096){ snprintf(what,wn,"badcase_block_too_large"); return -1; }
  for(c=0;c<ch;c++)memcpy(tmp+c*nb,pp[c],sizeof(float)*nb);
  pb=ov_pcm_tell(B);
  r=ov_read(A,(char*)raw+GUARD,(int)(nb*ch*2),0,2,1,&b1);
  if(r!=nb*ch*2){ snprintf(what,wn,"read_after_probes:ret%ld!=%ldx%dx2:pos%ld",r,nb,ch,(long)pa); return -1; }
  if((k=first_touched(raw,0,GUARD))>=0||(k=first_touched(raw,GUARD+r,GUARD+4096+GUARD))>=0){ snprintf(what,wn,"wrote_beyond_returned_count:off%ld:ret%ld",k-GUARD,r); return -1; }
  for(j=0;j<nb;j++)for(c=0;c<ch;c++){ uint32_t bits; memcpy(&bits,&tmp[c*nb+j],4); if(judge(bits,2,1,0,raw+GUARD+(j*ch+c)*2,t)&&!what[0])snprintf(what,wn,"value_after_probes:pos%ld:frame%ld:ch%ld:bits%08x",(long)pa,j,c,bits); }
  if(what[0])return -1;
  if(ov_pcm_tell(A)!=pb){ snprintf(what,wn,"twin_positions_differ_after:%ld:%ld",(long)ov_pcm_tell(A),(long)pb); return -1; }
  (void)half;
  return nb;
}
static void run_probe(long idx,const char *path,int seekable,int half){
  fent *f=get_file(path); memio ma,mb; OggVorbis_File A,B; tally t; char what[240]; pstat ps={0,0}; long reads=0,frames=0,n,states=0; int it=0;
  unsigned char *raw=(unsigned char*)__real_malloc(GUARD+4096+GUARD+SLACK); long tmpcap=4096; float *tmp=(float*)__real_malloc(sizeof(float)*tmpcap);
  ov_callbacks cb=seekable?mio_cb_seekable:mio_cb_stream;
  memset(&t,0,sizeof(t)); what[0]=0; t.envelope=1;
  mio_init(&ma,f->data,f->len); mio_init(&mb,f->data,f->len);
  if(ov_open_callbacks(&ma,&A,NULL,0,cb)<0){ printf("%ld bad what=openA\n",idx); return; }
  if(ov_open_callbacks(&mb,&B,NULL,0,cb)<0){ printf("%ld bad what=openB\n",idx); ov_clear(&A); return; }
  if(half&&(ov_halfrate(&A,1)||ov_halfrate(&B,1)))snprintf(what,sizeof(what),"halfrate_refused");
  if(!what[0]){ states++; probe_words(&A,raw,"after_open",&ps,what,sizeof(what)); }
  if(!what[0]){ n=plain_read(&A,&B,2,half,raw,tmp,tmpcap,&t,what,sizeof(what)); if(n>0){ reads++; frames+=n; states++; probe_words(&A,raw,"data_pending",&ps,what,sizeof(what)); } else if(!what[0])snprintf(what,sizeof(what),"badcase_empty_stream"); }
  while(!what[0]){
    n=plain_read(&A,&B,(it%3==0)?7:256,half,raw,tmp,tmpcap,&t,what,sizeof(what));
    if(n<=0)break;
    reads++; frames+=n;
    if(++it%5==0&&probe_words(&A,raw,"mid_stream",&ps,what,sizeof(what)))break;
  }
  if(!what[0]){ states++; probe_words(&A,raw,"after_end_of_stream",&ps,what,sizeof(what)); }
  if(!what[0]){ n=plain_read(&A,&B,64,half,raw,tmp,tmpcap,&t,what,sizeof(what)); if(n>0)snprintf(what,sizeof(what),"data_after_end_of_stream"); }
  if(!what[0]&&seekable){
    ogg_int64_t total=ov_pcm_total(&A,-1);
    if(ov_pcm_seek(&A,total/2)||ov_pcm_seek(&B,total/2))snprintf(what,sizeof(what),"seek_to_middle_failed");
    if(!what[0]){ states++; probe_words(&A,raw,"after_seek_to_middle",&ps,what,sizeof(what)); }
    if(!what[0]){ n=plain_read(&A,&B,33,half,raw,tmp,tmpcap,&t,what,sizeof(what)); if(n>0){ reads++; frames+=n; } else if(!what[0])snprintf(what,sizeof(what),"nothing_after_seek_to_middle"); }
    if(!what[0]&&(ov_pcm_seek(&A,total)||ov_pcm_seek(&B,total)))snprintf(what,sizeof(what),"seek_to_total_failed");
    if(!what[0]){ states++; probe_words(&A,raw,"after_seek_to_total",&ps,what,sizeof(what)); }
    if(!what[0]){ n=plain_read(&A,&B,64,half,raw,tmp,tmpcap,&t,what,sizeof(what)); if(n>0)snprintf(what,sizeof(what),"data_after_seek_to_total"); }
    if(!what[0]){ states++; probe_words(&A,raw,"after_end_of_stream_again",&ps,what,sizeof(what)); }
    if(!what[0]&&(ov_pcm_seek(&A,0)||ov_pcm_seek(&B,0)))snprintf(what,sizeof(what),"seek_to_start_failed");
    if(!what[0]){ n=plain_read(&A,&B,100,half,raw,tmp,tmpcap,&t,what,sizeof(what)); if(n>0){ reads++; frames+=n; } else if(!what[0])snprintf(what,sizeof(what),"nothing_after_seek_to_start"); }
  }
  ov_clear(&A); ov_clear(&B);
  printf("%ld %s",idx,(what[0]||t.bad)?"bad":"ok");
  print_tally(&t);
  printf(" reads=%ld frames=%ld probes=%ld einval=%ld states=%ld seekable=%d half=%d what=%s\n",reads,frames,ps.probes,ps.einval,states,seekable,half,what[0]?what:"-");
  __real_free(raw); __real_free(tmp);
}

/* ------------------------------------------------------------------ loud stream generator
 * A stream the real encoder produced, except that every residue value codebook (maptype>=1) is declared in the setup
 * header with its q_min/q_delta exponent raised by `shift`: the decoder reconstructs every residue value 2^shift times
 * larger, i.e. (all arithmetic being linear and the factor a power of two) the decoded PCM is 2^shift times the normal
 * decode.  The header remains a valid Vorbis I setup header; this shows that samples far outside +-1 (>= 65536.0 for
 * shift=17) are producible by a valid stream and reach ov_read. */
static long addexp(long v,int shift){
  unsigned long u=(unsigned long)v&0xffffffffUL; long e;
  if(!(u&0x1fffff))return (long)u;
  e=(long)((u&0x7fe00000UL)>>21)+shift;
  if(e<1||e>1023){ fprintf(stderr,"mkloud: exponent field out of range\n"); exit(2); }
  return (long)((u&~0x7fe00000UL)|((unsigned long)e<<21));
}
static int mkloud(const char *out,int ch,long rate,long n,int shift,long serial){
  vorbis_info vi; vorbis_comment vc; vorbis_dsp_state vd; vorbis_block vb; ogg_stream_state os; ogg_page og; ogg_packet op;
  FILE *f=fopen(out,"wb"); long done=0,bytes=0,packets=0; int eos=0,i,scaled=0; codec_setup_info *ci;
  if(!f)return 2;
  vorbis_info_init(&vi);
  if(vorbis_encode_init_vbr(&vi,ch,rate,0.4f)){ fprintf(stderr,"encode init failed\n"); return 3; }
  vorbis_comment_init(&vc); vorbis_comment_add_tag(&vc,"TITLE","c17loud");
  vorbis_analysis_init(&vd,&vi); vorbis_block_init(&vd,&vb); ogg_stream_init(&os,serial);
  ci=(codec_setup_info*)vi.codec_setup;
  for(i=0;i<ci->books;i++){
    static_codebook *sb=ci->book_param[i];
    if(sb&&sb->maptype>=1){ static_codebook *cp=(static_codebook*)__real_malloc(sizeof(*cp)); *cp=*sb; cp->allocedp=0; cp->q_min=addexp(sb->q_min,shift); cp->q_delta=addexp(sb->q_delta,shift); ci->book_param[i]=cp; scaled++; }
  }
  { ogg_packet h1,h2,h3; vorbis_analysis_headerout(&vd,&vc,&h1,&h2,&h3);
    ogg_stream_packetin(&os,&h1); ogg_stream_packetin(&os,&h2); ogg_stream_packetin(&os,&h3);
    while(ogg_stream_flush(&os,&og)){ fwrite(og.header,1,og.header_len,f); fwrite(og.body,1,og.body_len,f); bytes+=og.header_len+og.body_len; } }
  while(!eos){
    if(done>=n)vorbis_analysis_wrote(&vd,0);
    else{ long c=n-done>1024?1024:n-done,j; int k; float **b=vorbis_analysis_buffer(&vd,c);
      for(j=0;j<c;j++){ long t=done+j; for(k=0;k<ch;k++)b[k][j]=0.7f*sinf(2*M_PI*(330.0+170.0*k)*t/rate)*((t%900)<450?1.f:0.02f); }
      vorbis_analysis_wrote(&vd,c); done+=c; }
    while(vorbis_analysis_blockout(&vd,&vb)==1){
      vorbis_analysis(&vb,NULL); vorbis_bitrate_addblock(&vb);
      while(vorbis_bitrate_flushpacket(&vd,&op)){
        ogg_stream_packetin(&os,&op); packets++;
        while(!eos){ int r=op.e_o_s?ogg_stream_flush(&os,&og):ogg_stream_pageout(&os,&og); if(!r)break;
          fwrite(og.header,1,og.header_len,f); fwrite(og.body,1,og.body_len,f); bytes+=og.header_len+og.body_len; if(ogg_page_eos(&og))eos=1; }
      }
    }
  }
  fclose(f);
  printf("{\"file\":\"%s\",\"rate\":%ld,\"ch\":%d,\"n\":%ld,\"serial\":%ld,\"shift\":%d,\"scaled_books\":%d,\"packets\":%ld,\"bytes\":%ld}\n",out,rate,ch,n,serial,shift,scaled,packets,bytes);
  return 0;
}

int main(int argc,char **argv){
  const char *cases=NULL; int i; FILE *cf; char *line=NULL; size_t lcap=0; int timeout=600; long deadline=0;
  if(argc>=8&&!strcmp(argv[1],"--mkloud"))return mkloud(argv[2],atoi(argv[3]),atol(argv[4]),atol(argv[5]),atoi(argv[6]),atol(argv[7]));
  for(i=1;i<argc;i++){ if(!strcmp(argv[i],"--cases"))cases=argv[++i]; else if(!strcmp(argv[i],"--timeout"))timeout=atoi(argv[++i]); else if(!strcmp(argv[i],"--deadline"))deadline=atol(argv[++i]); else if(!strcmp(argv[i],"--hash"))g_hash=1; }
  if(!cases)return 2;
  cf=fopen(cases,"r"); if(!cf)return 2;
  signal(SIGVTALRM,on_alarm);
  while(getline(&line,&lcap,cf)>0){
    char kind[8],path[400],lspec[400]; long idx; int fmt,len,half; unsigned long long lo,hi; struct itimerval it; int nf;
    if(sscanf(line,"%ld %7s",&idx,kind)!=2)continue;
    g_cur=idx;
    if(deadline&&time(NULL)>=deadline){ printf("%ld SKIP\n",idx); fflush(stdout); continue; }   /* budget only; never part of a verdict */
    memset(&it,0,sizeof(it)); it.it_value.tv_sec=timeout; setitimer(ITIMER_VIRTUAL,&it,NULL);
    half=0;
    if(kind[0]=='T'&&sscanf(line,"%*d %*s %399s %d %d %d",path,&fmt,&len,&half)>=3&&fmt>=0&&fmt<8&&(half==0||half==1))run_twin(idx,path,fmt,len,1,half);
    else if(kind[0]=='W'&&sscanf(line,"%*d %*s %399s %d %d",path,&fmt,&len)==3&&fmt<=0)run_twin(idx,path,2,len,fmt,0);
    else if(kind[0]=='V'&&(nf=sscanf(line,"%*d %*s %399s %d %llu %llu %d",path,&fmt,&lo,&hi,&len))>=4&&fmt>=0&&fmt<8&&lo<=hi&&hi<=(1ULL<<32)){ if(nf<5)len=65536; run_values(idx,path,fmt,lo,hi,NULL,len,0); }
    else if(kind[0]=='G'&&sscanf(line,"%*d %*s %399s %d %llu %llu %d",path,&fmt,&lo,&hi,&half)>=4&&fmt>=0&&fmt<8&&hi>0&&lo<hi&&(half==0||half==1)){
      strat_build();
      run_values(idx,path,fmt,(uint64_t)g_nstrat*lo/hi,(uint64_t)g_nstrat*(lo+1)/hi,g_strat,65536,half);
    }
    else if(kind[0]=='S'&&sscanf(line,"%*d %*s %399s %d %d %399s",path,&fmt,&len,lspec)==4&&fmt>=0&&fmt<8)run_stream(idx,path,fmt,len,lspec);
    else if(kind[0]=='F'&&sscanf(line,"%*d %*s %399s %d %d %d",path,&fmt,&len,&half)==4&&fmt>=0&&fmt<8)run_gain(idx,path,fmt,len,half);
    else if(kind[0]=='P'&&sscanf(line,"%*d %*s %399s %d %d",path,&fmt,&half)==3&&(fmt==0||fmt==1)&&(half==0||half==1))run_probe(idx,path,fmt,half);
    else printf("%ld bad what=badcase\n",idx);
    memset(&it,0,sizeof(it)); setitimer(ITIMER_VIRTUAL,&it,NULL);
    fflush(stdout);
  }
  return 0;
}
