/* c13_leak: allocation-accounting executor for C13 ("clear functions release everything").
 *
 * Every case runs the REAL library in a forked child with the link-time wrapped allocator switched on
 * before the first library call; harness buffers come from __real_malloc so they are bracketed out.
 * The case ends with the documented clear calls issued twice; the child reports live bytes / blocks
 * (oracle: both 0), peak bytes, return codes, and for vorbisfile the close-callback counts.
 * A CPU watchdog in the child prints "<idx> TIMEOUT stage=..", a crash / sanitizer report is turned by the
 * parent into "<idx> DIED how=.. stage=.. top=..", so exactly one line per case is printed and the
 * parent never dies (vlib.run_cases attributes every outcome to the right case).
 *
 * case lines (after the index):
 *   e <api> <ch> <rate> <q | max,nom,min> <ctl> <stage> <nblk> <cl> [<headerout pattern over h,H,N,a; default h>]
 *       api: v=vorbis_encode_init_vbr  s=setup_vbr(+ctl)+setup_init  m=vorbis_encode_init  M=setup_managed(+ctl)+setup_init
 *       ctl: 0 none 1 COUPLING_SET(0) 2 LOWPASS_SET 3 RATEMANAGE2_SET(NULL) 4 RATEMANAGE2_SET(struct) 5 IBLOCK_SET 6 COUPLING_SET(1)
 *       stage: 0 setup  1 +ctl  2 +setup_init  3 +analysis_init  4 +headerout  5 +block_init  6 +nblk analysed blocks  7 +end of stream drained
 *   d <file> <mut> <dec> <cl>
 *       mut: N | P<h>:<len> (byte prefix of header h) | F<h>:<bit> (single bit flip) | O<seq>:<cont> (seq over i,c,s,a)
 *       dec: -1 = stop after the headers; n>=0 = vorbis_synthesis_init + vorbis_block_init + n packets decoded
 *   v <file> <edit> <mode> <api> <dev> <ops> <cl>
 *       edit: - | T<n> truncate to n bytes | X<off>,<len> excise | G<n> prepend n garbage bytes
 *       mode: s seekable | n streaming     api: o ov_open_callbacks | t ov_test_callbacks+ov_test_open | T ov_test_callbacks only
 *       dev: - | idx:K:persist[;idx:K:persist]   K in Z(ero read) E(rror read) S(eek fail) T(ell fail)
 *       ops: - | op[+op..]   op: r | R | rs:<pos> ps:<pos> pp:<pos> ts:<ms> tp:<ms> rl:<pos> pl:<pos> ql:<pos> tl:<ms> ul:<ms>
 *   cl: 0 = clear round (block,dsp,comment,info) issued twice;  1 = each clear function twice in a row
 */
#include "common.h"
#include <math.h>
#include <sys/mman.h>
#include <fcntl.h>
#include "codec_internal.h"   /* only for sizeof(vorbis_info_residue0) in the report line */

typedef struct { long idx; char stage[96]; } shared_t;
static shared_t *g_sh;
static void STAGE(const char *s){ strncpy(g_sh->stage,s,sizeof(g_sh->stage)-1); g_sh->stage[sizeof(g_sh->stage)-1]=0; }

static void child_emit(const char *s){ size_t n=strlen(s); if(write(1,s,n)<0){} }
static void on_alarm(int sig){
  char b[200]; int n=snprintf(b,sizeof(b),"%ld TIMEOUT stage=%s\n",g_sh->idx,g_sh->stage);
  if(write(1,b,n)<0){}
  _exit(3);
}

/* sizes of live blocks, deterministic (sorted; the 4 smallest and the 2 largest; never pointers).
 * g_ncsi = live blocks of sizeof(codec_setup_info), g_nlist = live blocks that look like a serial-number list (8..64 bytes, multiple of sizeof(long)) */
static long g_ncsi=0,g_nlist=0;
static int cmp_long(const void *a,const void *b){ long x=*(const long*)a,y=*(const long*)b; return x<y?-1:x>y; }
static void live_sizes(char *out,size_t cap){
  static long v[8192]; size_t i; int n=0,a; size_t o=0; out[0]=0; g_ncsi=g_nlist=0;
  for(i=0;i<WA_SLOTS;i++) if(wa_tab[i].p&&wa_tab[i].p!=(void*)1){
    long z=(long)wa_tab[i].n; if(n<8192)v[n++]=z;
    if(z==(long)sizeof(codec_setup_info))g_ncsi++;
    if(z>=8&&z<=64&&z%(long)sizeof(long)==0)g_nlist++;
  }
  qsort(v,n,sizeof(long),cmp_long);
  for(a=0;a<n;a++){ if(n>6&&a>=4&&a<n-2){ if(a==4)o+=snprintf(out+o,cap-o,",.."); continue; } o+=snprintf(out+o,cap-o,"%s%ld",a?",":"",v[a]); }
  if(!out[0])strcpy(out,"-");
}

/* ------------------------------------------------------------------ encoder cases */
static unsigned g_lcg;
static float noise(void){ g_lcg=g_lcg*1103515245u+12345u; return ((g_lcg>>8)&0xffff)/32768.f-1.f; }

static int run_enc(char *sv,char *res,size_t cap){
  char *t; char api; int ch,ctl,stage,nblk,cl; long rate; double q=0; long mx=-1,nom=-1,mn=-1;
  vorbis_info vi; vorbis_comment vc; vorbis_dsp_state vd; vorbis_block vb; ogg_packet op,h1,h2,h3;
  int rc_setup=0,rc_ctl=-999,rc_init=-999,rc_ai=-999,rc_ho=-999,rc_bi=-999; int reached=0; int have_vd=0,have_vb=0;
  long blocks=0,packets=0,t0=0; long mid; char ls[128]; int r; const char *hopat="h"; vorbis_comment vc2; int nho=0,have_vc2=0;
  t=strtok_r(NULL," \n",&sv); api=t[0];
  t=strtok_r(NULL," \n",&sv); ch=atoi(t);
  t=strtok_r(NULL," \n",&sv); rate=atol(t);
  t=strtok_r(NULL," \n",&sv); if(api=='v'||api=='s')q=atof(t); else sscanf(t,"%ld,%ld,%ld",&mx,&nom,&mn);
  t=strtok_r(NULL," \n",&sv); ctl=atoi(t);
  t=strtok_r(NULL," \n",&sv); stage=atoi(t);
  t=strtok_r(NULL," \n",&sv); nblk=atoi(t);
  t=strtok_r(NULL," \n",&sv); cl=atoi(t);
  t=strtok_r(NULL," \n",&sv); if(t&&t[0])hopat=t;     /* optional: headerout call pattern, default "h" */
  memset(&vi,0,sizeof(vi)); memset(&vc,0,sizeof(vc)); memset(&vc2,0,sizeof(vc2)); memset(&vd,0,sizeof(vd)); memset(&vb,0,sizeof(vb));
  g_lcg=777u+(unsigned)ch*31u+(unsigned)rate;

  wa_on=1;                                   /* ---- accounting starts: baseline is 0 live bytes */
  STAGE("info_init");
  vorbis_info_init(&vi);
  vorbis_comment_init(&vc);
  STAGE("setup");
  switch(api){
  case 'v': rc_setup=vorbis_encode_init_vbr(&vi,ch,rate,(float)q); break;
  case 'm': rc_setup=vorbis_encode_init(&vi,ch,rate,mx,nom,mn); break;
  case 's': rc_setup=vorbis_encode_setup_vbr(&vi,ch,rate,(float)q); break;
  case 'M': rc_setup=vorbis_encode_setup_managed(&vi,ch,rate,mx,nom,mn); break;
  default: snprintf(res,cap,"BADCASE"); return 0;
  }
  if(rc_setup)goto clear;
  if(api=='s'||api=='M'){
    if(stage>=1&&ctl){
      STAGE("ctl");
      switch(ctl){
      case 1: { int a=0; rc_ctl=vorbis_encode_ctl(&vi,OV_ECTL_COUPLING_SET,&a); } break;
      case 6: { int a=1; rc_ctl=vorbis_encode_ctl(&vi,OV_ECTL_COUPLING_SET,&a); } break;
      case 2: { double a=6.5; rc_ctl=vorbis_encode_ctl(&vi,OV_ECTL_LOWPASS_SET,&a); } break;
      case 3: rc_ctl=vorbis_encode_ctl(&vi,OV_ECTL_RATEMANAGE2_SET,NULL); break;
      case 4: { struct ovectl_ratemanage2_arg a; rc_ctl=vorbis_encode_ctl(&vi,OV_ECTL_RATEMANAGE2_GET,&a);
                a.management_active=1; a.bitrate_limit_min_kbps=0; a.bitrate_limit_max_kbps=0; if(a.bitrate_average_kbps<=0)a.bitrate_average_kbps=(long)(rate/1000>0?rate/1000*ch:8);
                if(a.bitrate_average_damping<=0)a.bitrate_average_damping=1.5; if(a.bitrate_limit_reservoir_bits<=0)a.bitrate_limit_reservoir_bits=a.bitrate_average_kbps*2000;
                a.bitrate_limit_reservoir_bias=.1;
                rc_ctl=vorbis_encode_ctl(&vi,OV_ECTL_RATEMANAGE2_SET,&a); } break;
      case 5: { double a=-7.5; rc_ctl=vorbis_encode_ctl(&vi,OV_ECTL_IBLOCK_SET,&a); } break;
      }
      reached=1;
    }
    if(stage<2)goto clear;
    STAGE("setup_init");
    rc_init=vorbis_encode_setup_init(&vi);
    if(rc_init)goto clear;
  }
  reached=2;
  if(stage<3)goto clear;
  STAGE("analysis_init");
  have_vd=1;
  rc_ai=vorbis_analysis_init(&vd,&vi);
  if(rc_ai)goto clear;
  reached=3;
  if(stage<4)goto clear;
  STAGE("headerout");
  vorbis_comment_add_tag(&vc,"TITLE","c13");
  vorbis_comment_add(&vc,"ARTIST=leak accounting");
  /* header packets: the memory stays owned by vd (freed by vorbis_dsp_clear, the next vorbis_analysis_headerout or the next analysis_buffer).
   * pattern: h = headerout with the same comment struct, H = after adding a tag to it, N = with a second, fresh comment struct,
   *          a = one block of audio encoded in between (block_init happens here if it has not yet) */
  {
    const char *pc; int ntag=0;
    for(pc=hopat;*pc;pc++){
      if(*pc=='h'||*pc=='H'){
        if(*pc=='H'){ char v[32]; snprintf(v,sizeof(v),"value %d of a changed comment list",ntag++); vorbis_comment_add_tag(&vc,"EXTRA",v); }
        rc_ho=vorbis_analysis_headerout(&vd,&vc,&h1,&h2,&h3);
      }else if(*pc=='N'){
        if(!have_vc2){ vorbis_comment_init(&vc2); have_vc2=1; }
        vorbis_comment_add_tag(&vc2,"ALBUM","second comment struct");
        rc_ho=vorbis_analysis_headerout(&vd,&vc2,&h1,&h2,&h3);
      }else if(*pc=='a'){
        int got=0,guard=0;
        STAGE("headerout:audio");
        if(!have_vb){ have_vb=1; rc_bi=vorbis_block_init(&vd,&vb); if(rc_bi)goto clear; }
        while(!got&&guard++<64){
          float **b=vorbis_analysis_buffer(&vd,1024); int k,j;
          for(j=0;j<1024;j++){ long tt=t0+j; for(k=0;k<ch;k++) b[k][j]=0.3f*sinf(2*M_PI*(300.0+17.0*(k%16))*tt/(double)rate)+0.15f*noise(); }
          vorbis_analysis_wrote(&vd,1024); t0+=1024;
          while(!got&&vorbis_analysis_blockout(&vd,&vb)==1){ vorbis_analysis(&vb,NULL); vorbis_bitrate_addblock(&vb); while(vorbis_bitrate_flushpacket(&vd,&op))packets++; got=1; }
        }
        STAGE("headerout");
        continue;
      }else continue;
      if(rc_ho)goto clear;
      nho++;
    }
  }
  reached=4;
  if(stage<5)goto clear;
  STAGE("block_init");
  if(!have_vb){
    have_vb=1;
    rc_bi=vorbis_block_init(&vd,&vb);
    if(rc_bi)goto clear;
  }
  reached=5;
  if(stage<6)goto clear;
  STAGE("blocks");
  {
    int guard=0,eos=0;
    if(nblk==0){ float **b=vorbis_analysis_buffer(&vd,64); int k,j; for(k=0;k<ch;k++)for(j=0;j<16;j++)b[k][j]=0.1f; vorbis_analysis_wrote(&vd,16); vorbis_analysis_blockout(&vd,&vb); }
    while((blocks<nblk||(stage>=7&&!eos))&&guard++<4000){
      if(blocks<nblk){
        float **b=vorbis_analysis_buffer(&vd,1024); int k,j;
        for(j=0;j<1024;j++){ long tt=t0+j; for(k=0;k<ch;k++) b[k][j]=0.3f*sinf(2*M_PI*(300.0+17.0*(k%16))*tt/(double)rate)+0.15f*noise()+((tt%3000)==1500?0.8f:0.f); }
        vorbis_analysis_wrote(&vd,1024); t0+=1024;
      }else{ vorbis_analysis_wrote(&vd,0); eos=1; }
      while((blocks<nblk||eos)&&(r=vorbis_analysis_blockout(&vd,&vb))==1){
        vorbis_analysis(&vb,NULL);
        vorbis_bitrate_addblock(&vb);
        while(vorbis_bitrate_flushpacket(&vd,&op))packets++;
        blocks++;
      }
    }
  }
  reached=(stage>=7?7:6);
 clear:
  STAGE("clear");
  mid=-1;
  if(cl==0){
    int k; for(k=0;k<2;k++){
      if(have_vb)vorbis_block_clear(&vb);
      if(have_vd)vorbis_dsp_clear(&vd);
      vorbis_comment_clear(&vc);
      if(have_vc2)vorbis_comment_clear(&vc2);
      vorbis_info_clear(&vi);
      if(k==0)mid=wa_live_bytes;
    }
  }else{
    if(have_vb){ vorbis_block_clear(&vb); vorbis_block_clear(&vb); }
    if(have_vd){ vorbis_dsp_clear(&vd); vorbis_dsp_clear(&vd); }
    vorbis_comment_clear(&vc); vorbis_comment_clear(&vc);
    if(have_vc2){ vorbis_comment_clear(&vc2); vorbis_comment_clear(&vc2); }
    vorbis_info_clear(&vi); mid=wa_live_bytes; vorbis_info_clear(&vi);
  }
  wa_on=0;
  live_sizes(ls,sizeof(ls));
  snprintf(res,cap,"ok nho=%d rc=%d,%d,%d,%d,%d,%d reached=%d blocks=%ld packets=%ld peak=%ld calls=%ld mid=%ld leakB=%ld leakN=%ld live=%s ovf=%d rsz=%zu",
           nho,rc_setup,rc_ctl,rc_init,rc_ai,rc_ho,rc_bi,reached,blocks,packets,wa_peak_bytes,wa_calls,mid,wa_live_bytes,wa_live_blocks,ls,wa_overflow,sizeof(vorbis_info_residue0));
  return 0;
}

/* ------------------------------------------------------------------ decoder cases */
typedef struct { char path[400]; int n; unsigned char **pk; long *len; } stream_pk;
static stream_pk g_sp[64]; static int g_nsp=0;

static stream_pk *get_stream(const char *path){
  int i; stream_pk *s; unsigned char *data; long len,pos=0; ogg_sync_state oy; ogg_stream_state os; ogg_page og; ogg_packet op; int sinit=0; int cap=0;
  for(i=0;i<g_nsp;i++)if(!strcmp(g_sp[i].path,path))return &g_sp[i];
  if(g_nsp>=64){ fprintf(stderr,"too many streams\n"); exit(2); }
  s=&g_sp[g_nsp++]; strcpy(s->path,path); s->n=0; s->pk=NULL; s->len=NULL;
  data=load_file(path,&len);
  ogg_sync_init(&oy);
  while(1){
    int r=ogg_sync_pageout(&oy,&og);
    if(r==0){ long k=len-pos; char *b; if(k<=0)break; if(k>4096)k=4096; b=ogg_sync_buffer(&oy,k); memcpy(b,data+pos,k); pos+=k; ogg_sync_wrote(&oy,k); continue; }
    if(r<0)continue;
    if(!sinit){ ogg_stream_init(&os,ogg_page_serialno(&og)); sinit=1; }
    if(ogg_stream_pagein(&os,&og)<0)continue;
    while(ogg_stream_packetout(&os,&op)>0){
      if(s->n>=cap){ cap=cap?cap*2:64; s->pk=(unsigned char**)__real_realloc(s->pk,sizeof(*s->pk)*cap); s->len=(long*)__real_realloc(s->len,sizeof(long)*cap); }
      s->pk[s->n]=(unsigned char*)__real_malloc(op.bytes?op.bytes:1); memcpy(s->pk[s->n],op.packet,op.bytes); s->len[s->n]=op.bytes; s->n++;
    }
  }
  if(sinit)ogg_stream_clear(&os);
  ogg_sync_clear(&oy);
  __real_free(data);
  if(s->n<4){ fprintf(stderr,"stream %s has %d packets\n",path,s->n); exit(2); }
  return s;
}

static int run_dec(char *sv,char *res,size_t cap){
  char *t,*path,*mut; int dec,cl; stream_pk *s;
  vorbis_info vi; vorbis_comment vc; vorbis_dsp_state vd; vorbis_block vb;
  unsigned char *buf[3]={0,0,0}; long blen[3]={0,0,0}; int kindof[3]; int nfeed=0,cont=0,i;
  int rcs[3]={-999,-999,-999}; int id_ok=0,c_ok=0,s_ok=0,rja=0,si=-999,dn=0,have_vd=0,have_vb=0; long mid,samples=0; char ls[128];
  path=strtok_r(NULL," \n",&sv); mut=strtok_r(NULL," \n",&sv);
  t=strtok_r(NULL," \n",&sv); dec=atoi(t);
  t=strtok_r(NULL," \n",&sv); cl=atoi(t);
  s=get_stream(path);                      /* parent has loaded it already; here it is a cache hit */
  if(mut[0]=='N'||mut[0]=='P'||mut[0]=='F'){
    int h=-1; long a=0;
    if(mut[0]!='N'){ h=mut[1]-'0'; a=atol(mut+3); if(h<0||h>2){ snprintf(res,cap,"BADCASE"); return 0; } }
    nfeed=3;
    for(i=0;i<3;i++){
      long n=s->len[i]; kindof[i]=i;
      if(i==h&&mut[0]=='P'){ if(a>n)a=n; n=a; }
      buf[i]=(unsigned char*)__real_malloc(n?n:1); memcpy(buf[i],s->pk[i],n); blen[i]=n;   /* exact size: ASan sees reads past the prefix */
      if(i==h&&mut[0]=='F'){ if(a>=n*8){ snprintf(res,cap,"BADCASE"); return 0; } buf[i][a>>3]^=(unsigned char)(1u<<(a&7)); }
    }
  }else if(mut[0]=='O'){
    char *c=strchr(mut,':'); cont=c?atoi(c+1):0;
    for(t=mut+1;*t&&*t!=':'&&nfeed<3;t++){
      int k=(*t=='i'?0:*t=='c'?1:*t=='s'?2:3);
      kindof[nfeed]=k; buf[nfeed]=(unsigned char*)__real_malloc(s->len[k]?s->len[k]:1); memcpy(buf[nfeed],s->pk[k],s->len[k]); blen[nfeed]=s->len[k]; nfeed++;
    }
  }else{ snprintf(res,cap,"BADCASE"); return 0; }
  memset(&vi,0,sizeof(vi)); memset(&vc,0,sizeof(vc)); memset(&vd,0,sizeof(vd)); memset(&vb,0,sizeof(vb));

  wa_on=1;                                   /* ---- accounting starts */
  STAGE("info_init");
  vorbis_info_init(&vi);
  vorbis_comment_init(&vc);
  for(i=0;i<nfeed;i++){
    ogg_packet op; long pre=wa_live_bytes; char st[32];
    memset(&op,0,sizeof(op)); op.packet=buf[i]; op.bytes=blen[i]; op.b_o_s=(kindof[i]==0); op.packetno=i;
    snprintf(st,sizeof(st),"headerin%d",i); STAGE(st);
    wa_peak_bytes=wa_live_bytes;
    rcs[i]=vorbis_synthesis_headerin(&vi,&vc,&op);
    if(rcs[i]==0){ if(kindof[i]==0)id_ok=1; else if(kindof[i]==1)c_ok=1; else if(kindof[i]==2)s_ok=1; }
    else{ if(wa_peak_bytes>pre)rja=1; if(!cont)break; }
  }
  if(id_ok&&c_ok&&s_ok&&dec>=0){
    STAGE("synthesis_init");
    have_vd=1;
    si=vorbis_synthesis_init(&vd,&vi);
    if(si==0){
      STAGE("block_init");
      have_vb=1;
      vorbis_block_init(&vd,&vb);
      STAGE("decode");
      for(i=0;i<dec&&3+i<s->n;i++){
        ogg_packet op; float **pcm; int n;
        memset(&op,0,sizeof(op)); op.packet=s->pk[3+i]; op.bytes=s->len[3+i]; op.packetno=3+i; op.granulepos=-1;
        if(vorbis_synthesis(&vb,&op)==0){ vorbis_synthesis_blockin(&vd,&vb); dn++; }
        while((n=vorbis_synthesis_pcmout(&vd,&pcm))>0){ samples+=n; vorbis_synthesis_read(&vd,n); }
      }
    }
  }
  STAGE("clear");
  if(cl==0){
    int k; for(k=0;k<2;k++){
      if(have_vb)vorbis_block_clear(&vb);
      if(have_vd)vorbis_dsp_clear(&vd);
      vorbis_comment_clear(&vc);
      vorbis_info_clear(&vi);
      if(k==0)mid=wa_live_bytes;
    }
  }else{
    if(have_vb){ vorbis_block_clear(&vb); vorbis_block_clear(&vb); }
    if(have_vd){ vorbis_dsp_clear(&vd); vorbis_dsp_clear(&vd); }
    vorbis_comment_clear(&vc); vorbis_comment_clear(&vc);
    vorbis_info_clear(&vi); mid=wa_live_bytes; vorbis_info_clear(&vi);
  }
  wa_on=0;
  live_sizes(ls,sizeof(ls));
  snprintf(res,cap,"ok hr=%d,%d,%d acc=%d%d%d rja=%d si=%d dn=%d samples=%ld calls=%ld mid=%ld leakB=%ld leakN=%ld live=%s ovf=%d",
           rcs[0],rcs[1],rcs[2],id_ok,c_ok,s_ok,rja,si,dn,samples,wa_calls,mid,wa_live_bytes,wa_live_blocks,ls,wa_overflow);
  return 0;
}

/* ------------------------------------------------------------------ vorbisfile cases */
typedef struct { char path[400]; unsigned char *data; long len; } fcache;
static fcache g_fc[2048]; static int g_nfc=0;
static fcache *get_file(const char *path){
  int i; for(i=0;i<g_nfc;i++)if(!strcmp(g_fc[i].path,path))return &g_fc[i];
  if(g_nfc>=2048){ fprintf(stderr,"too many files\n"); exit(2); }
  strcpy(g_fc[g_nfc].path,path); g_fc[g_nfc].data=load_file(path,&g_fc[g_nfc].len);
  return &g_fc[g_nfc++];
}

/* callbacks that record the kind of every environment point (R/S/T) so that the checker can enumerate
 * exactly the applicable (index, fault kind) pairs */
static char g_ev[600]; static int g_nev=0;
static size_t ev_read(void *ptr,size_t size,size_t nmemb,void *ds){ if(g_nev<(int)sizeof(g_ev)-1)g_ev[g_nev++]='R'; return mio_read(ptr,size,nmemb,ds); }
static int ev_seek(void *ds,ogg_int64_t off,int whence){ if(g_nev<(int)sizeof(g_ev)-1)g_ev[g_nev++]='S'; return mio_seek(ds,off,whence); }
static long ev_tell(void *ds){ if(g_nev<(int)sizeof(g_ev)-1)g_ev[g_nev++]='T'; return mio_tell(ds); }
static ov_callbacks ev_cb_seekable={ ev_read, ev_seek, mio_close, ev_tell };
static ov_callbacks ev_cb_stream={ ev_read, NULL, mio_close, NULL };

static int all_zero(const void *p,size_t n){ const unsigned char *c=(const unsigned char*)p; size_t i; for(i=0;i<n;i++)if(c[i])return 0; return 1; }

static int run_vf(char *sv,char *res,size_t cap){
  char *path,*edit,*t,*devs,*ops; char mode,api; int cl; fcache *f; unsigned char *buf; long blen; memio m; OggVorbis_File vf;
  int orc=-999,trc=-999,open_ok=0; long e_open=0; long nc0,nc1,nc2; char oprc[200]; size_t oo=0; long mid; char ls[128]; int zeroed=-1; long peak_open;
  path=strtok_r(NULL," \n",&sv); edit=strtok_r(NULL," \n",&sv);
  t=strtok_r(NULL," \n",&sv); mode=t[0];
  t=strtok_r(NULL," \n",&sv); api=t[0];
  devs=strtok_r(NULL," \n",&sv); ops=strtok_r(NULL," \n",&sv);
  t=strtok_r(NULL," \n",&sv); cl=atoi(t);
  f=get_file(path);
  if(edit[0]=='T'){ long n=atol(edit+1); if(n>f->len)n=f->len; blen=n; buf=(unsigned char*)__real_malloc(n?n:1); memcpy(buf,f->data,n); }
  else if(edit[0]=='X'){ long off=atol(edit+1),l=atol(strchr(edit,',')+1); if(off>f->len)off=f->len; if(off+l>f->len)l=f->len-off; blen=f->len-l; buf=(unsigned char*)__real_malloc(blen?blen:1); memcpy(buf,f->data,off); memcpy(buf+off,f->data+off+l,f->len-off-l); }
  else if(edit[0]=='G'){ long n=atol(edit+1),i; unsigned x=99991u; blen=f->len+n; buf=(unsigned char*)__real_malloc(blen?blen:1); for(i=0;i<n;i++){ x=x*1103515245u+12345u; buf[i]=(unsigned char)(x>>16); if(i+3<n&&(i%97)==50){ buf[i]='O'; } } memcpy(buf+n,f->data,f->len); }
  else{ blen=f->len; buf=(unsigned char*)__real_malloc(blen?blen:1); memcpy(buf,f->data,blen); }
  mio_init(&m,buf,blen);
  if(devs[0]!='-'){
    char *p=devs;
    while(*p&&m.ndev<8){
      long idx=strtol(p,&p,10); char k; int persist; int kind;
      if(*p!=':')break; k=p[1]; p+=2; if(*p!=':')break; persist=atoi(p+1); p+=2;
      kind=(k=='Z'?DV_READ_ZERO:k=='E'?DV_READ_ERR:k=='S'?DV_SEEK_FAIL:k=='T'?DV_TELL_FAIL:DV_NONE);
      m.dev[m.ndev].idx=idx; m.dev[m.ndev].kind=kind; m.dev[m.ndev].arg=0; m.dev[m.ndev].persist=persist; m.ndev++;
      if(*p==';')p++;
    }
  }
  memset(&vf,0x5b,sizeof(vf));               /* the handle is the library's to initialise */
  oprc[0]='-'; oprc[1]=0;

  wa_on=1;                                   /* ---- accounting starts */
  STAGE("open");
  if(api=='o'){
    orc=ov_open_callbacks(&m,&vf,NULL,0,mode=='n'?ev_cb_stream:ev_cb_seekable);
    open_ok=(orc==0);
    if(orc)zeroed=all_zero(&vf,sizeof(vf));
  }else{
    trc=ov_test_callbacks(&m,&vf,NULL,0,mode=='n'?ev_cb_stream:ev_cb_seekable);
    if(trc)zeroed=all_zero(&vf,sizeof(vf));
    if(trc==0&&api=='t'){ STAGE("test_open"); orc=ov_test_open(&vf); open_ok=(orc==0); if(orc)zeroed=all_zero(&vf,sizeof(vf)); }
    else if(trc==0)open_ok=1;
  }
  e_open=m.npoints; peak_open=wa_peak_bytes;
  if(open_ok&&ops[0]!='-'&&!(api=='T')){
    char *osv,*o; char opsb[300]; strncpy(opsb,ops,sizeof(opsb)-1); opsb[sizeof(opsb)-1]=0; oprc[0]=0;
    for(o=strtok_r(opsb,"+",&osv);o;o=strtok_r(NULL,"+",&osv)){
      long r=-999; char *c=strchr(o,':'); long a=c?atol(c+1):0; char st[64];
      snprintf(st,sizeof(st),"op:%.40s",o); STAGE(st);
      if(!strcmp(o,"r")){ char pcm[4096]; int bs; r=ov_read(&vf,pcm,sizeof(pcm),0,2,1,&bs); if(r>0)r=1; }
      else if(!strcmp(o,"R")){ float **pcm; int bs; long n,g=0,tot=0; r=0; while(g++<200000){ n=ov_read_float(&vf,&pcm,4096,&bs); if(n==0)break; if(n<0){ r=n; if(n!=OV_HOLE)break; } else tot+=n; } if(r==0)r=1; }
      else if(!strncmp(o,"rs:",3))r=ov_raw_seek(&vf,a);
      else if(!strncmp(o,"ps:",3))r=ov_pcm_seek(&vf,a);
      else if(!strncmp(o,"pp:",3))r=ov_pcm_seek_page(&vf,a);
      else if(!strncmp(o,"ts:",3))r=ov_time_seek(&vf,a/1000.0);
      else if(!strncmp(o,"tp:",3))r=ov_time_seek_page(&vf,a/1000.0);
      else if(!strncmp(o,"rl:",3))r=ov_raw_seek_lap(&vf,a);
      else if(!strncmp(o,"pl:",3))r=ov_pcm_seek_lap(&vf,a);
      else if(!strncmp(o,"ql:",3))r=ov_pcm_seek_page_lap(&vf,a);
      else if(!strncmp(o,"tl:",3))r=ov_time_seek_lap(&vf,a/1000.0);
      else if(!strncmp(o,"ul:",3))r=ov_time_seek_page_lap(&vf,a/1000.0);
      else if(!strcmp(o,"h1"))r=ov_halfrate(&vf,1);
      else r=-998;
      oo+=snprintf(oprc+oo,sizeof(oprc)-oo,"%s%ld",oo?",":"",r);
      if(oo>sizeof(oprc)-24)break;
    }
  }
  STAGE("clear");
  nc0=m.nclose;
  ov_clear(&vf); nc1=m.nclose; mid=wa_live_bytes;
  ov_clear(&vf); nc2=m.nclose;
  (void)cl;
  wa_on=0;
  live_sizes(ls,sizeof(ls));
  snprintf(res,cap,"ok open=%d,%d ok=%d zeroed=%d ops=%s E=%ld/%ld R=%ld S=%ld T=%ld hits=%ld nclose=%ld,%ld,%ld peakopen=%ld peak=%ld calls=%ld mid=%ld leakB=%ld leakN=%ld live=%s ncsi=%ld nlist=%ld ovf=%d ev=%s",
           trc,orc,open_ok,zeroed,oprc,e_open,m.npoints,m.nread,m.nseek,m.ntell,m.dev_hits,nc0,nc1,nc2,peak_open,wa_peak_bytes,wa_calls,mid,wa_live_bytes,wa_live_blocks,ls,g_ncsi,g_nlist,wa_overflow,g_nev?g_ev:"-");
  __real_free(buf);
  return 0;
}

/* ------------------------------------------------------------------ driver */
static void summarize_stderr(int fd,char *out,size_t cap){
  static char b[32768]; long n; char *p; size_t o=0; int frames=0;
  out[0]=0;
  lseek(fd,0,SEEK_SET); n=read(fd,b,sizeof(b)-1); if(n<0)n=0; b[n]=0;
  p=strstr(b,"ERROR: AddressSanitizer:");
  if(p){ char kind[64]; int k=0; char *q=p+25; while(*q&&*q!='\n'&&k<48&&strncmp(q," on ",4)&&strncmp(q," in ",4)&&strncmp(q," (",2)){ kind[k++]=(*q==' '?'_':*q); q++; } kind[k]=0; o+=snprintf(out+o,cap-o,"asan:%s",kind); }
  else if((p=strstr(b,"runtime error:"))){ char msg[80]; int k=0; p+=15; while(*p&&*p!='\n'&&k<60){ msg[k++]=(*p==' '?'_':*p); p++; } msg[k]=0; o+=snprintf(out+o,cap-o,"ubsan:%s",msg); p=b; }
  else if((p=strstr(b,"double free"))||(p=strstr(b,"free():"))||(p=strstr(b,"invalid pointer"))||(p=strstr(b,"corrupted"))){ o+=snprintf(out+o,cap-o,"glibc:heap_abort"); }
  else { o+=snprintf(out+o,cap-o,"none"); return; }
  o+=snprintf(out+o,cap-o," top=");
  /* function names of the first frames: "    #0 0x... in name file:line" */
  while(p&&frames<7){
    char name[64]; char *q=strstr(p," in "); char *nl;
    if(!q)break;
    nl=strchr(p,'\n');
    /* stop at the end of the first stack (blank line) once we have something */
    if(frames>0){ char *blank=strstr(p,"\n\n"); if(blank&&blank<q)break; }
    if(sscanf(q+4,"%63[^ \n(]",name)==1){ o+=snprintf(out+o,cap-o,"%s%s",frames?",":"",name); frames++; }
    p=strchr(q,'\n');
    if(o>cap-80)break;
    (void)nl;
  }
}

int main(int argc,char **argv){
  const char *cases=NULL; int i; FILE *cf; char *line=NULL; size_t lcap=0; double timeout=5.0; int errfd;
  for(i=1;i<argc;i++){ if(!strcmp(argv[i],"--cases"))cases=argv[++i]; else if(!strcmp(argv[i],"--timeout"))timeout=atof(argv[++i]); }
  if(!cases)return 2;
  cf=fopen(cases,"r"); if(!cf)return 2;
  g_sh=(shared_t*)mmap(NULL,sizeof(shared_t),PROT_READ|PROT_WRITE,MAP_SHARED|MAP_ANONYMOUS,-1,0);
  errfd=memfd_create("c13err",0);
  if(g_sh==MAP_FAILED||errfd<0){ perror("setup"); return 2; }
  setvbuf(stdout,NULL,_IONBF,0);
  while(getline(&line,&lcap,cf)>0){
    char *sv,*tok,*kind; long idx; pid_t pid; int st; char copy[1200];
    strncpy(copy,line,sizeof(copy)-1); copy[sizeof(copy)-1]=0;
    tok=strtok_r(line," \n",&sv); if(!tok)continue; idx=atol(tok);
    kind=strtok_r(NULL," \n",&sv); if(!kind){ printf("%ld BADCASE\n",idx); continue; }
    /* load inputs in the parent (cached across cases, untracked) */
    if(kind[0]=='d'||kind[0]=='v'){ char c2[1200],*s2,*p; strcpy(c2,copy); strtok_r(c2," \n",&s2); strtok_r(NULL," \n",&s2); p=strtok_r(NULL," \n",&s2); if(!p){ printf("%ld BADCASE\n",idx); continue; } if(kind[0]=='d')get_stream(p); else get_file(p); }
    g_sh->idx=idx; STAGE("start");
    if(ftruncate(errfd,0)<0){} lseek(errfd,0,SEEK_SET);
    pid=fork();
    if(pid<0){ perror("fork"); return 2; }
    if(pid==0){
      char res[2200]; char outl[2300]; struct itimerval it; struct rlimit rl;
      dup2(errfd,2);
      signal(SIGVTALRM,on_alarm);
      memset(&it,0,sizeof(it)); it.it_value.tv_sec=(long)timeout; it.it_value.tv_usec=(long)((timeout-(long)timeout)*1e6); setitimer(ITIMER_VIRTUAL,&it,NULL);
      rl.rlim_cur=(rlim_t)(timeout*2+2); rl.rlim_max=rl.rlim_cur+1; setrlimit(RLIMIT_CPU,&rl);
      rl.rlim_cur=rl.rlim_max=0; setrlimit(RLIMIT_CORE,&rl);
      res[0]=0;
      if(kind[0]=='e')run_enc(sv,res,sizeof(res));
      else if(kind[0]=='d')run_dec(sv,res,sizeof(res));
      else if(kind[0]=='v')run_vf(sv,res,sizeof(res));
      else strcpy(res,"BADCASE");
      snprintf(outl,sizeof(outl),"%ld %s\n",idx,res);
      child_emit(outl);
      _exit(0);
    }
    while(waitpid(pid,&st,0)<0&&errno==EINTR){}
    if(WIFEXITED(st)&&(WEXITSTATUS(st)==0||WEXITSTATUS(st)==3))continue;   /* the child printed its line */
    {
      char sum[600]; summarize_stderr(errfd,sum,sizeof(sum));
      if(WIFSIGNALED(st)&&(WTERMSIG(st)==SIGXCPU||WTERMSIG(st)==SIGKILL))printf("%ld TIMEOUT stage=%s\n",idx,g_sh->stage);
      else if(WIFSIGNALED(st))printf("%ld DIED how=signal%d stage=%s report=%s\n",idx,WTERMSIG(st),g_sh->stage,sum);
      else printf("%ld DIED how=exit%d stage=%s report=%s\n",idx,WEXITSTATUS(st),g_sh->stage,sum);
    }
  }
  return 0;
}
