/* c04_encdec: encode -> decode sample-count executor (C04).
 * case line: <idx> <rate> <ch> <mode> <N> <chunk> <sig> <lay>
 *   mode : q<quality>            vorbis_encode_init_vbr(quality); packets via vorbis_analysis(vb,NULL) + vorbis_bitrate_addblock/flushpacket
 *          d<quality>            vorbis_encode_init_vbr(quality); packets taken directly from vorbis_analysis(vb,&op) (the older, non-managed interface)
 *          m<max>,<nom>,<min>    vorbis_encode_init (bitrate managed; -1 = unset)
 *          h<q>,<maxkbps>,<resbits>,<bias>   vorbis_encode_setup_vbr(q) + OV_ECTL_RATEMANAGE2_SET {active, hard max only, reservoir_bits (0 = 2 s of max, the
 *                                library's own default for managed set-ups), reservoir_bias} + vorbis_encode_setup_init  (what "oggenc -q --managed -M" does)
 *   chunk: u<k>                  pieces of k samples (last one shorter)
 *          s<a>                  two pieces (a, N-a), 0<a<N
 *          r<k>                  like u<k>, but every vorbis_analysis_buffer() call asks for 1024 samples and only k<=1024 are then written (encoder_example style)
 *          c<a>,<b>,...          cyclic schedule of piece sizes (each >0)
 *   sig  : sil | dc | sine | noise | fsn (full-scale LCG noise, 0.95) | mtone (loud 7-tone mix, peak 0.95) | qtone (0.01-amplitude 440 Hz tone) | ntail[<k>] (0.6 LCG noise for k samples, default rate/2, then the quiet tone) | imp<p> (one 0.9 impulse at sample p) | trn<p> (impulse every p samples)
 *   lay  : string over {n,f,2..9}: page layouts built from the same packets, each decoded separately:
 *          n = ogg_stream_pageout (what encoder_example does), f = ogg_stream_flush after every packet, k = flush after every k packets
 * The case encodes N samples per channel with the REAL encoder in-process (vorbis_analysis_buffer / _wrote in the given
 * piece sizes, then _wrote(0)), pages the packets through libogg into memory, and decodes the bytes three ways:
 *   P: libogg + vorbis_synthesis / blockin / pcmout (packet API)
 *   V: vorbisfile, seekable open on the in-memory bytes (ov_pcm_total, read-through)
 *   S: vorbisfile, non-seekable open (read-through)
 * Ground truth is the construction: N.
 * output: <idx> ok pk=<audio packets> lg=<long blocks> sh=<short blocks> sal=<short blocks that follow a long block> pg=<pages of first layout> by=<bytes of first layout> bs=<short>/<long> ab=<audio packet bytes> rfull=<packets after which the hard-max reservoir was within 64 bits of full> top/bot=<managed packets taken from the highest / lowest packet blob> (statistics only)
 *         <idx> bad:<named predicate>:<layout>:<observed>!=<expected>... */
#include "common.h"
#include <math.h>
#include "codec_internal.h"   /* read-only look at the hard-limit reservoir (vacuity statistics only, never an oracle) */

typedef struct { unsigned char *d; long len, cap; long pages; } bytebuf;
static void bb_add(bytebuf *b,const void *p,long n){
  if(b->len+n>b->cap){ b->cap=(b->len+n)*2+4096; b->d=(unsigned char*)__real_realloc(b->d,b->cap); }
  memcpy(b->d+b->len,p,n); b->len+=n;
}
static void bb_page(bytebuf *b,ogg_page *og){ bb_add(b,og->header,og->header_len); bb_add(b,og->body,og->body_len); b->pages++; }

static volatile long g_cur=-1;
static void on_alarm(int s){ char b[64]; int n=snprintf(b,sizeof(b),"%ld TIMEOUT\n",g_cur); if(write(1,b,n)<0){} _exit(3); }

#define FAIL(...) do{ if(!res[0])snprintf(res,RESN,__VA_ARGS__); }while(0)
#define RESN 400

/* ---- P: packet-level decode of a physical stream held in memory */
static void dec_packets(const unsigned char *data,long len,long N,int ch,long enc_packets,const char *lay,char *res){
  ogg_sync_state oy; ogg_stream_state os; ogg_page og; ogg_packet op; vorbis_info vi; vorbis_comment vc; vorbis_dsp_state vd; vorbis_block vb;
  long pos=0,total=0,lastgp=-1,npk=0,eos_count=0,eos_at=-1,eos_gp=-1,page_eos=0,pages_after_eos=0; int hdr=0,init=0,sinit=0;
  ogg_sync_init(&oy); vorbis_info_init(&vi); vorbis_comment_init(&vc);
  while(!res[0]){
    int r=ogg_sync_pageout(&oy,&og);
    if(r==0){
      long k=len-pos; char *b; if(k<=0)break; if(k>4096)k=4096;
      b=ogg_sync_buffer(&oy,k); memcpy(b,data+pos,k); pos+=k; ogg_sync_wrote(&oy,k); continue;
    }
    if(r<0){ FAIL("bad:dec_page_sync_lost:%s:at%ld",lay,pos); break; }
    if(!sinit){ ogg_stream_init(&os,ogg_page_serialno(&og)); sinit=1; }
    if(ogg_stream_pagein(&os,&og)<0){ FAIL("bad:dec_pagein:%s",lay); break; }
    if(page_eos)pages_after_eos++;
    if(ogg_page_eos(&og))page_eos++;
    while(!res[0]){
      int pr=ogg_stream_packetout(&os,&op);
      if(pr==0)break;
      if(pr<0){ FAIL("bad:dec_packet_hole:%s",lay); break; }
      if(hdr<3){
        if(vorbis_synthesis_headerin(&vi,&vc,&op)<0){ FAIL("bad:dec_headerin:%s:%d",lay,hdr); break; }
        hdr++;
        if(hdr==3){ if(vorbis_synthesis_init(&vd,&vi)){ FAIL("bad:dec_synthesis_init:%s",lay); break; } vorbis_block_init(&vd,&vb); init=1;
          if(vi.channels!=ch){ FAIL("bad:dec_channels:%s:%d!=%d",lay,vi.channels,ch); break; } }
        continue;
      }
      if(eos_count){ FAIL("bad:dec_packet_after_eos:%s:packet%ld",lay,npk); break; }
      { int sr=vorbis_synthesis(&vb,&op); if(sr){ FAIL("bad:dec_synthesis:%s:packet%ld:rc%d",lay,npk,sr); break; } }
      if(vorbis_synthesis_blockin(&vd,&vb)){ FAIL("bad:dec_blockin:%s:packet%ld",lay,npk); break; }
      { float **pcm; int n; while((n=vorbis_synthesis_pcmout(&vd,&pcm))>0){ total+=n; if(vorbis_synthesis_read(&vd,n)){ FAIL("bad:dec_read:%s",lay); break; } if(total>N+(1<<20))break; } }
      if(op.granulepos!=-1){
        if(op.granulepos<lastgp){ FAIL("bad:dec_granule_decreased:%s:packet%ld:%ld<%ld",lay,npk,(long)op.granulepos,lastgp); break; }
        lastgp=(long)op.granulepos;
        /* a stream that starts at zero: the granule position is the count of samples decodable up to and including this packet */
        if(total!=(long)op.granulepos){ FAIL("bad:dec_count_vs_granule:%s:packet%ld:eos%d:decoded%ld!=granule%ld:N%ld",lay,npk,op.e_o_s?1:0,total,(long)op.granulepos,N); break; }
      }
      if(op.e_o_s){ eos_count++; eos_at=npk; eos_gp=(long)op.granulepos; }
      npk++;
    }
  }
  if(!res[0]){
    if(hdr!=3)FAIL("bad:dec_headers:%s:%d",lay,hdr);
    else if(npk!=enc_packets)FAIL("bad:dec_packet_count:%s:%ld!=%ld",lay,npk,enc_packets);
    else if(eos_count!=1||eos_at!=npk-1)FAIL("bad:dec_eos_flag:%s:count%ld:at%ld:of%ld",lay,eos_count,eos_at,npk);
    else if(eos_gp!=N)FAIL("bad:dec_last_granule:%s:%ld!=%ld",lay,eos_gp,N);
    else if(total!=N)FAIL("bad:dec_count:%s:%ld!=%ld",lay,total,N);
  }
  if(init){ vorbis_block_clear(&vb); vorbis_dsp_clear(&vd); }
  if(sinit)ogg_stream_clear(&os);
  vorbis_comment_clear(&vc); vorbis_info_clear(&vi); ogg_sync_clear(&oy);
}

/* ---- V / S: vorbisfile on the in-memory bytes */
static void dec_vorbisfile(const unsigned char *data,long len,long N,int ch,long rate,int seekable,const char *lay,char *res){
  memio m; OggVorbis_File vf; int orc; const char *w=seekable?"vf":"vfstream"; long total=0,guard=0;
  mio_init(&m,data,len);
  orc=ov_open_callbacks(&m,&vf,NULL,0,seekable?mio_cb_seekable:mio_cb_stream);
  if(orc<0){ FAIL("bad:%s_open:%s:rc%d:N%ld",w,lay,orc,N); return; }
  if(seekable){
    if(!ov_seekable(&vf))FAIL("bad:vf_not_seekable:%s",lay);
    else if(ov_streams(&vf)!=1)FAIL("bad:vf_streams:%s:%ld",lay,ov_streams(&vf));
    else if((long)ov_pcm_total(&vf,-1)!=N)FAIL("bad:vf_pcm_total:%s:%ld!=%ld",lay,(long)ov_pcm_total(&vf,-1),N);
    else if((long)ov_pcm_total(&vf,0)!=N)FAIL("bad:vf_pcm_total_link0:%s:%ld!=%ld",lay,(long)ov_pcm_total(&vf,0),N);
    else if((long)ov_pcm_tell(&vf)!=0)FAIL("bad:vf_tell_at_open:%s:%ld",lay,(long)ov_pcm_tell(&vf));
  }
  if(!res[0]){ vorbis_info *vi=ov_info(&vf,-1); if(!vi||vi->channels!=ch||vi->rate!=rate)FAIL("bad:%s_info:%s",w,lay); }
  while(!res[0]){
    float **pcm; int bs=-1; long n=ov_read_float(&vf,&pcm,4096,&bs);
    if(n==0)break;
    if(n<0){ FAIL("bad:%s_read_negative:%s:rc%ld:after%ld:N%ld",w,lay,n,total,N); break; }
    total+=n;
    if(total>N+(1<<20)||++guard>(1<<22)){ FAIL("bad:%s_read_unbounded:%s",w,lay); break; }
  }
  if(!res[0]&&total!=N)FAIL("bad:%s_count:%s:%ld!=%ld",w,lay,total,N);
  ov_clear(&vf);
}

int main(int argc,char **argv){
  const char *cases=NULL; int i; FILE *cf; char *line=NULL; size_t lcap=0; int timeout=60;
  for(i=1;i<argc;i++){ if(!strcmp(argv[i],"--cases"))cases=argv[++i]; else if(!strcmp(argv[i],"--timeout"))timeout=atoi(argv[++i]); }
  if(!cases)return 2;
  cf=fopen(cases,"r"); if(!cf)return 2;
  signal(SIGVTALRM,on_alarm);
  while(getline(&line,&lcap,cf)>0){
    long idx,rate,N; int ch; char mode[64],chunk[256],sig[64],lay[16]; char res[RESN]; struct itimerval it;
    long sched[64]; int nsched=0,cyc=0; long sigp=0; int sigk;
    vorbis_info vi; vorbis_comment vc; vorbis_dsp_state vd; vorbis_block vb; ogg_stream_state oss[8]; int nlay,li,inpage[8]; ogg_page og; ogg_packet op;
    bytebuf bb[8]; int ret,eos=0,wrote0=0,vdinit=0; long done=0,piece=0,npk=0,lastgp=-1,lastpk_gp=-1,eos_count=0,eos_at=-1,nlong=0,nshort=0,sal=0,prevbs=-1,bs0,bs1,nempty=0,totbytes=0,rfull=0,topblob=0,botblob=0;
    unsigned lcg;
    res[0]=0;
    if(sscanf(line,"%ld %ld %d %63s %ld %255s %63s %15s",&idx,&rate,&ch,mode,&N,chunk,sig,lay)!=8){ if(sscanf(line,"%ld",&idx)==1){ printf("%ld BADCASE\n",idx); fflush(stdout);} continue; }
    g_cur=idx;
    /* chunk schedule */
    if(chunk[0]=='u'||chunk[0]=='r'){ sched[0]=atol(chunk+1); nsched=1; cyc=1; if(chunk[0]=='r'&&sched[0]>1024)sched[0]=0; }
    else if(chunk[0]=='s'){ sched[0]=atol(chunk+1); sched[1]=N-sched[0]; nsched=2; cyc=0; }
    else if(chunk[0]=='c'){ char *p=chunk+1; while(*p&&nsched<64){ sched[nsched++]=strtol(p,&p,10); if(*p==',')p++; } cyc=1; }
    { int k,okc=nsched>0; for(k=0;k<nsched;k++)if(sched[k]<=0)okc=0; if(N>0&&!okc){ printf("%ld BADCASE chunk\n",idx); fflush(stdout); continue; } }
    nlay=(int)strlen(lay); if(nlay<1||nlay>8||strspn(lay,"nf23456789")!=(size_t)nlay){ printf("%ld BADCASE lay\n",idx); fflush(stdout); continue; }
    memset(bb,0,sizeof(bb)); memset(inpage,0,sizeof(inpage));
    if(!strcmp(sig,"sil"))sigk=0; else if(!strcmp(sig,"dc"))sigk=1; else if(!strcmp(sig,"sine"))sigk=2; else if(!strcmp(sig,"noise"))sigk=3; else if(!strcmp(sig,"fsn"))sigk=6; else if(!strcmp(sig,"mtone"))sigk=7; else if(!strcmp(sig,"qtone"))sigk=8; else if(!strncmp(sig,"ntail",5)){ sigk=9; sigp=atol(sig+5); if(sigp<=0)sigp=rate/2; }
    else if(!strncmp(sig,"imp",3)){ sigk=4; sigp=atol(sig+3); } else if(!strncmp(sig,"trn",3)){ sigk=5; sigp=atol(sig+3); if(sigp<=0)sigp=1; }
    else { printf("%ld BADCASE sig\n",idx); fflush(stdout); continue; }
    memset(&it,0,sizeof(it)); it.it_value.tv_sec=timeout; setitimer(ITIMER_VIRTUAL,&it,NULL);

    vorbis_info_init(&vi);
    if(mode[0]=='q'||mode[0]=='d')ret=vorbis_encode_init_vbr(&vi,ch,rate,(float)atof(mode+1));
    else if(mode[0]=='h'){
      double q=0.1,bias=0.1; long mxk=40,rb=0; struct ovectl_ratemanage2_arg ai;
      sscanf(mode+1,"%lf,%ld,%ld,%lf",&q,&mxk,&rb,&bias);
      ret=vorbis_encode_setup_vbr(&vi,ch,rate,(float)q);
      if(!ret)ret=vorbis_encode_ctl(&vi,OV_ECTL_RATEMANAGE2_GET,&ai);
      if(!ret){
        ai.management_active=1; ai.bitrate_limit_min_kbps=0; ai.bitrate_limit_max_kbps=mxk;
        ai.bitrate_limit_reservoir_bits=rb>0?rb:mxk*2000; ai.bitrate_limit_reservoir_bias=bias;
        ai.bitrate_average_kbps=0; ai.bitrate_average_damping=1.5;
        ret=vorbis_encode_ctl(&vi,OV_ECTL_RATEMANAGE2_SET,&ai);
      }
      if(!ret)ret=vorbis_encode_setup_init(&vi);
    }
    else{ long mx=-1,nom=-1,mn=-1; sscanf(mode+1,"%ld,%ld,%ld",&mx,&nom,&mn); ret=vorbis_encode_init(&vi,ch,rate,mx,nom,mn); }
    if(ret){ /* the property quantifies over configurations that set up successfully */
      vorbis_info_clear(&vi); memset(&it,0,sizeof(it)); setitimer(ITIMER_VIRTUAL,&it,NULL);
      printf("%ld setupfail rc=%d\n",idx,ret); fflush(stdout); continue; }
    bs0=vorbis_info_blocksize(&vi,0); bs1=vorbis_info_blocksize(&vi,1);
    vorbis_comment_init(&vc); vorbis_comment_add_tag(&vc,"TITLE","c04");
    if(vorbis_analysis_init(&vd,&vi)){ FAIL("bad:enc_analysis_init"); }
    else{
      vdinit=1; vorbis_block_init(&vd,&vb); for(li=0;li<nlay;li++)ogg_stream_init(&oss[li],4004);
      { ogg_packet h1,h2,h3; vorbis_analysis_headerout(&vd,&vc,&h1,&h2,&h3);
        for(li=0;li<nlay;li++){ ogg_stream_packetin(&oss[li],&h1); ogg_stream_packetin(&oss[li],&h2); ogg_stream_packetin(&oss[li],&h3);
          while(ogg_stream_flush(&oss[li],&og))bb_page(&bb[li],&og); } }
      lcg=12345u;
      while(!eos&&!res[0]){
        if(done>=N){
          if(wrote0){ FAIL("bad:enc_no_eos_packet:packets%ld:N%ld",npk,N); break; }
          vorbis_analysis_wrote(&vd,0); wrote0=1;
        }else{
          long c,j; int k; float **b;
          if(cyc)c=sched[piece%nsched]; else c=piece<nsched?sched[piece]:N-done;
          piece++;
          if(c>N-done)c=N-done;
          b=vorbis_analysis_buffer(&vd,chunk[0]=='r'?1024:c);
          for(j=0;j<c;j++){
            long t=done+j;
            for(k=0;k<ch;k++){
              float v=0;
              switch(sigk){
              case 1: v=1.0f; break;
              case 2: v=0.6f*sinf(2*M_PI*(440.0+110.0*k)*t/rate); break;
              case 3: lcg=lcg*1103515245u+12345u; v=0.4f*(((lcg>>8)&0xffff)/32768.f-1.f); break;
              case 4: v=(t==sigp)?0.9f:0.f; break;
              case 5: v=(t%sigp==sigp/2)?0.9f:0.f; break;
              case 8: v=0.01f*sinf(2*M_PI*(440.0+110.0*k)*t/rate); break;
              case 9: if(t<sigp){ lcg=lcg*1103515245u+12345u; v=0.6f*(((lcg>>8)&0xffff)/32768.f-1.f); } else v=0.01f*sinf(2*M_PI*(440.0+110.0*k)*t/rate); break;
              case 6: lcg=lcg*1103515245u+12345u; v=0.95f*(((lcg>>8)&0xffff)/32768.f-1.f); break;
              case 7: { static const double fr[7]={0.011,0.0237,0.0519,0.0933,0.1671,0.2713,0.3907}; int q; double a=0; for(q=0;q<7;q++)a+=sin(2*M_PI*fr[q]*(1.0+0.013*k)*t+q); v=(float)(0.95*a/7.0); } break;
              }
              b[k][j]=v;
            }
          }
          if(vorbis_analysis_wrote(&vd,c)){ FAIL("bad:enc_wrote_rejected:%ld",c); break; }
          done+=c;
        }
        while(!res[0]&&(ret=vorbis_analysis_blockout(&vd,&vb))==1){
          int direct=(mode[0]=='d'),got;
          if(vorbis_analysis(&vb,direct?&op:NULL)){ FAIL("bad:enc_analysis_rc"); break; }
          if(!direct&&vorbis_bitrate_addblock(&vb)){ FAIL("bad:enc_addblock_rc"); break; }
          for(got=0;direct?!got:vorbis_bitrate_flushpacket(&vd,&op);got=1){
            long bs=vorbis_packet_blocksize(&vi,&op);
            if(eos_count){ FAIL("bad:enc_packet_after_eos:packet%ld",npk); break; }
            if(op.bytes<=0){ nempty++; FAIL("bad:enc_empty_audio_packet:packet%ld:granule%ld:N%ld",npk,(long)op.granulepos,N); break; }
            totbytes+=op.bytes;
            if(mode[0]=='m'||mode[0]=='h'){ /* statistics: how often the hard-maximum reservoir was (nearly) full after this packet */
              private_state *ps=(private_state*)vd.backend_state; codec_setup_info *csi=(codec_setup_info*)vi.codec_setup;
              if(ps->bms.managed){ if(ps->bms.choice==PACKETBLOBS-1)topblob++; else if(ps->bms.choice==0)botblob++; }
              if(ps->bms.managed&&ps->bms.max_bitsper>0&&csi->bi.reservoir_bits>0&&ps->bms.minmax_reservoir>=csi->bi.reservoir_bits-64)rfull++;
            }
            if((long)op.granulepos<lastgp){ FAIL("bad:enc_granule_decreased:packet%ld:%ld<%ld:N%ld",npk,(long)op.granulepos,lastgp,N); break; }
            lastgp=(long)op.granulepos; lastpk_gp=lastgp;
            if(bs==bs1&&bs1!=bs0)nlong++; else{ nshort++; if(prevbs==bs1&&bs1!=bs0)sal++; }
            prevbs=bs;
            if(op.e_o_s){ eos_count++; eos_at=npk; }
            npk++;
            for(li=0;li<nlay;li++){
              ogg_stream_packetin(&oss[li],&op); inpage[li]++;
              if(lay[li]=='n'){ while(ogg_stream_pageout(&oss[li],&og)){ bb_page(&bb[li],&og); inpage[li]=0; } }
              else if(lay[li]=='f'||inpage[li]>=lay[li]-'0'||op.e_o_s){ while(ogg_stream_flush(&oss[li],&og))bb_page(&bb[li],&og); inpage[li]=0; }
            }
            if(op.e_o_s)eos=1;
            if(npk>N+64){ FAIL("bad:enc_unbounded_packets"); break; }
          }
        }
        if(ret<0)FAIL("bad:enc_blockout_rc%d",ret);
      }
      if(!res[0]){
        if(eos_count!=1||eos_at!=npk-1)FAIL("bad:enc_eos_flag:count%ld:at%ld:of%ld",eos_count,eos_at,npk);
        else if(lastpk_gp!=N)FAIL("bad:enc_last_granule:%ld!=%ld",lastpk_gp,N);
      }
      for(li=0;li<nlay&&!res[0];li++){
        char ln[16]; if(lay[li]=='n')strcpy(ln,"natural"); else if(lay[li]=='f')strcpy(ln,"flush"); else snprintf(ln,sizeof(ln),"every%c",lay[li]);
        dec_packets(bb[li].d,bb[li].len,N,ch,npk,ln,res);
        if(!res[0])dec_vorbisfile(bb[li].d,bb[li].len,N,ch,rate,1,ln,res);
        if(!res[0])dec_vorbisfile(bb[li].d,bb[li].len,N,ch,rate,0,ln,res);
      }
      for(li=0;li<nlay;li++)ogg_stream_clear(&oss[li]);
      vorbis_block_clear(&vb);
    }
    if(vdinit)vorbis_dsp_clear(&vd);
    vorbis_comment_clear(&vc); vorbis_info_clear(&vi);
    memset(&it,0,sizeof(it)); setitimer(ITIMER_VIRTUAL,&it,NULL);
    if(!res[0])snprintf(res,RESN,"ok");
    printf("%ld %s pk=%ld lg=%ld sh=%ld sal=%ld pg=%ld by=%ld bs=%ld/%ld ab=%ld rfull=%ld top=%ld bot=%ld\n",idx,res,npk,nlong,nshort,sal,bb[0].pages,bb[0].len,bs0,bs1,totbytes,rfull,topblob,botblob); fflush(stdout);
    for(li=0;li<nlay;li++)__real_free(bb[li].d);
  }
  return 0;
}
