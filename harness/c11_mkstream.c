/* c11_mkstream: like mkzoo (same arguments, same JSON line) plus sig=clicks with period=<samples>:
 * a quiet sine with one sharp click every <period> samples, so that the encoder really alternates between long and short
 * blocks in the middle of the stream (mkzoo's impulse/mix signals click too often for 2048-sample blocks).
 * and sig=alt: the channels are alternately digitally silent for <period> samples (unused floors inside a coupled pair).
 * and sig=tsil: tone for the first and the last <period> samples, exact digital silence in between (all channels).
 * mkzoo: encode a deterministic signal with the real libvorbisenc into one Ogg link.
 * usage: mkzoo out.ogg rate=8000 ch=1 n=3000 q=0.3 serial=1 sig=sine pages=natural|flush|<k>
 *              goff=0 tag=LINK0 managed=max,nom,min chunk=1024
 * prints one JSON line describing the link. */
#include "common.h"
#include <math.h>

static unsigned lcg=12345;
static float noise(void){ lcg=lcg*1103515245u+12345u; return ((lcg>>8)&0xffff)/32768.f-1.f; }

int main(int argc,char **argv){
  long rate=8000,n=3000,serial=1,goff=0,chunk=1024; int ch=1,ppp=0,flush=0; double q=0.3;
  long period=9000; long mx=-1,nom=-1,mn=-1; int managed=0; const char *sig="sine",*tag="LINK",*out; int i;
  if(argc<2)return 2;
  out=argv[1];
  for(i=2;i<argc;i++){
    char *a=argv[i];
    if(!strncmp(a,"rate=",5))rate=atol(a+5);
    else if(!strncmp(a,"ch=",3))ch=atoi(a+3);
    else if(!strncmp(a,"n=",2))n=atol(a+2);
    else if(!strncmp(a,"q=",2))q=atof(a+2);
    else if(!strncmp(a,"serial=",7))serial=atol(a+7);
    else if(!strncmp(a,"sig=",4))sig=a+4;
    else if(!strncmp(a,"goff=",5))goff=atol(a+5);
    else if(!strncmp(a,"tag=",4))tag=a+4;
    else if(!strncmp(a,"chunk=",6))chunk=atol(a+6);
    else if(!strncmp(a,"period=",7))period=atol(a+7);
    else if(!strncmp(a,"pages=",6)){ if(!strcmp(a+6,"flush"))flush=1; else if(!strcmp(a+6,"natural"))ppp=0; else ppp=atoi(a+6); }
    else if(!strncmp(a,"managed=",8)){ managed=1; sscanf(a+8,"%ld,%ld,%ld",&mx,&nom,&mn); }
    else { fprintf(stderr,"bad arg %s\n",a); return 2; }
  }
  {
    vorbis_info vi; vorbis_comment vc; vorbis_dsp_state vd; vorbis_block vb;
    ogg_stream_state os; ogg_page og; ogg_packet op; FILE *f=fopen(out,"wb");
    long done=0,packets=0,pages=0,bytes=0; int eos=0,ret,inpage=0; long lastgran=-1;
    if(!f)return 2;
    vorbis_info_init(&vi);
    if(managed)ret=vorbis_encode_init(&vi,ch,rate,mx,nom,mn);
    else ret=vorbis_encode_init_vbr(&vi,ch,rate,(float)q);
    if(ret){ fprintf(stderr,"encode init failed %d\n",ret); return 3; }
    vorbis_comment_init(&vc);
    vorbis_comment_add_tag(&vc,"TITLE",tag);
    vorbis_analysis_init(&vd,&vi);
    vorbis_block_init(&vd,&vb);
    ogg_stream_init(&os,serial);
    {
      ogg_packet h1,h2,h3;
      vorbis_analysis_headerout(&vd,&vc,&h1,&h2,&h3);
      ogg_stream_packetin(&os,&h1); ogg_stream_packetin(&os,&h2); ogg_stream_packetin(&os,&h3);
      while(ogg_stream_flush(&os,&og)){ fwrite(og.header,1,og.header_len,f); fwrite(og.body,1,og.body_len,f); bytes+=og.header_len+og.body_len; pages++; }
    }
    lcg=12345u+(unsigned)serial*7u;
    while(!eos){
      if(done>=n){ vorbis_analysis_wrote(&vd,0); }
      else{
        long c=n-done>chunk?chunk:n-done,j; int k;
        float **b=vorbis_analysis_buffer(&vd,c);
        for(j=0;j<c;j++){
          long t=done+j;
          for(k=0;k<ch;k++){
            float v=0;
            if(!strcmp(sig,"sine"))v=0.6f*sinf(2*M_PI*(440.0+110.0*k)*t/rate);
            else if(!strcmp(sig,"noise"))v=0.4f*noise();
            else if(!strcmp(sig,"dc"))v=1.0f;
            else if(!strcmp(sig,"silence"))v=0;
            else if(!strcmp(sig,"impulse"))v=(t%700==(350+13*k))?0.9f:0.f;
            else if(!strcmp(sig,"clicks")){ long ph=t%period-period/2; v=0.2f*sinf(2*M_PI*(330.0+55.0*k)*t/rate); if(ph>=0&&ph<6)v+=(ph&1?-0.9f:0.9f)/(1+ph); }
            else if(!strcmp(sig,"alt")){ long seg=(t/period)%3; v=((seg==k)||(seg==2))?0.4f*sinf(2*M_PI*(300.0+130.0*k)*t/rate)+0.05f*noise():0.f; }
            else if(!strcmp(sig,"tsil")){ v=(t<period||t>=n-period)?0.35f*sinf(2*M_PI*(440.0+90.0*k)*t/rate)+0.1f*sinf(2*M_PI*(1310.0+70.0*k)*t/rate):0.f; }
            else if(!strcmp(sig,"mix"))v=0.3f*sinf(2*M_PI*(300.0+170.0*k)*t/rate)+0.2f*noise()+((t%1500)==700?0.8f:0.f);
            b[k][j]=v;
          }
        }
        vorbis_analysis_wrote(&vd,c); done+=c;
      }
      while(vorbis_analysis_blockout(&vd,&vb)==1){
        vorbis_analysis(&vb,NULL);
        vorbis_bitrate_addblock(&vb);
        while(vorbis_bitrate_flushpacket(&vd,&op)){
          op.granulepos+=goff;
          if(op.granulepos<lastgran){ fprintf(stderr,"granule decreased\n"); }
          lastgran=op.granulepos;
          ogg_stream_packetin(&os,&op); packets++; inpage++;
          while(!eos){
            int r;
            if(flush||(ppp>0&&inpage>=ppp)||op.e_o_s){ r=ogg_stream_flush(&os,&og); }
            else if(ppp>0) r=0;
            else r=ogg_stream_pageout(&os,&og);
            if(!r)break;
            inpage=0;
            fwrite(og.header,1,og.header_len,f); fwrite(og.body,1,og.body_len,f); bytes+=og.header_len+og.body_len; pages++;
            if(ogg_page_eos(&og))eos=1;
          }
        }
      }
    }
    fclose(f);
    printf("{\"file\":\"%s\",\"rate\":%ld,\"ch\":%d,\"n\":%ld,\"serial\":%ld,\"goff\":%ld,\"tag\":\"%s\",\"packets\":%ld,\"pages\":%ld,\"bytes\":%ld,\"bs0\":%ld,\"bs1\":%ld}\n",
           out,rate,ch,n,serial,goff,tag,packets,pages,bytes,vorbis_info_blocksize(&vi,0),vorbis_info_blocksize(&vi,1));
    ogg_stream_clear(&os); vorbis_block_clear(&vb); vorbis_dsp_clear(&vd); vorbis_comment_clear(&vc); vorbis_info_clear(&vi);
  }
  return 0;
}
