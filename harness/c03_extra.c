/* c03_extra: vorbisfile executor for C03 (memory safety / termination / documented return codes on
 * arbitrary physical streams).  Like vfx it replays one operation list per case on a FRESH real
 * OggVorbis_File over the scripted in-memory data source, but it
 *   - reports the return value of EVERY public call individually (vfx hashes the query calls),
 *   - touches every byte the library hands back (PCM, info, comments) so that ASan judges it,
 *   - gives ov_read an exactly sized heap buffer,
 *   - supports file truncation (len), pre-read `initial/ibytes` buffers, ov_crosslap with a twin
 *     handle, handles left PARTOPEN (ov_test_callbacks only), targets relative to the handle's own totals.
 *
 * usage: c03_extra --files list.txt --cases cases.txt [--timeout s]
 * case line:  <idx> <file#> <mode> <len|-> <ibytes> op op ...
 *   mode: s ov_open_callbacks seekable | n ov_open_callbacks read-only callbacks
 *         t ov_test_callbacks(seekable)+ov_test_open | u ov_test_callbacks(read-only)+ov_test_open
 *         p ov_test_callbacks(seekable) only (handle stays PARTOPEN)
 *   ops:  rf<n> ri<n> rb<n> rB<n>   ov_read_float / ov_read 16LE signed / 8 bit unsigned / 16BE unsigned
 *         ps pp rs ts tp <tgt>      the five seeks;  PS PP RS TS TP <tgt>  their _lap variants
 *         tgt = <number> | %<permille>[+k|-k] of the handle's own pcm/raw/time total (time: k in ms)
 *         RB RE RN<n>                macro reads: until the logical bitstream index changes / until EOF / n packets
 *         h0 h1 bi cl x<i>           ov_halfrate, ov_bitrate_instant, ov_clear, all queries with link index i
 *         XL<f> XR<f> XE<f> XF<f>    ov_crosslap(vf,twin) / (twin,vf) / twin seeked to its end first; twin = fresh seekable handle on file f
 * output: <idx> O=<openrc> R=<per-op results> F=<flags> B=<max back hop> C=<closes> L=<links after open>
 *   x<i> result: streams/seekable/bitrate/serial/raw_total/pcm_total/time_total/raw_tell/pcm_tell/time_tell/halfrate_p/info/comment
 */
#include "common.h"
#include "codec_internal.h"
#include <math.h>

#define MAXF (1<<18)
typedef struct { char *path; unsigned char *data; long len; } xfile;
static xfile g_f[MAXF]; static int g_nf=0;

static void load_list(const char *list){
  FILE *f=fopen(list,"r"); char line[1024];
  if(!f){ fprintf(stderr,"no file list %s\n",list); exit(2); }
  while(fgets(line,sizeof(line),f)){
    size_t n=strlen(line); while(n&&(line[n-1]=='\n'||line[n-1]==' '))line[--n]=0;
    if(!n)continue;
    if(g_nf>=MAXF){ fprintf(stderr,"too many files\n"); exit(2); }
    g_f[g_nf].path=strdup(line); g_f[g_nf].data=NULL; g_nf++;
  }
  fclose(f);
}
static xfile *need_file(int i){
  if(i<0||i>=g_nf)return NULL;
  if(!g_f[i].data)g_f[i].data=load_file(g_f[i].path,&g_f[i].len);
  return &g_f[i];
}

#if defined(__has_feature)
#if __has_feature(address_sanitizer)
#define C03_HAVE_ASAN 1
void __sanitizer_print_stack_trace(void);
#endif
#endif
static volatile long g_cur_idx=-1;
static void on_alarm(int s){
  char b[64]; int n=snprintf(b,sizeof(b),"%ld TIMEOUT\n",g_cur_idx);
  (void)s;
#ifdef C03_HAVE_ASAN
  { static const char m[]="WATCHDOG: stack at expiry\n"; if(write(2,m,sizeof(m)-1)<0){} }
  __sanitizer_print_stack_trace();   /* where the library was spinning (diagnostic only) */
#endif
  if(write(1,b,n)<0){} _exit(3);
}

typedef struct { char flags[512]; } fl_t;
static void addflag(fl_t *f,const char *s){
  if(strstr(f->flags,s))return;
  if(strlen(f->flags)+strlen(s)+2<sizeof(f->flags)){ if(f->flags[0])strcat(f->flags,","); strcat(f->flags,s); }
}

static volatile double g_sink;   /* keeps the touching loops alive */

/* target parser: number, or %permille[+-k] of total */
static double tgt(const char *s,double total,double kscale){
  if(s[0]=='%'){
    char *e; double pm=strtod(s+1,&e); double k=0;
    if(*e=='+'||*e=='-')k=strtod(e,NULL)*kscale;
    if(!(total>0))total=0;
    return floor(total*pm/1000.0)+k;
  }
  return strtod(s,NULL);
}
static void fmt_d(char *o,size_t n,double v){
  if(isnan(v))snprintf(o,n,"nan"); else if(isinf(v))snprintf(o,n,v>0?"inf":"-inf"); else snprintf(o,n,"%.9g",v);
}

static size_t do_queries(OggVorbis_File *vf,int i,char *o,size_t n){
  vorbis_info *vi; vorbis_comment *vc; char a[40],b[40]; size_t l=0;
  long st=ov_streams(vf),sk=ov_seekable(vf),br=ov_bitrate(vf,i),sn=ov_serialnumber(vf,i);
  long long rt=ov_raw_total(vf,i),pt=ov_pcm_total(vf,i); double tt=ov_time_total(vf,i);
  long long rl=ov_raw_tell(vf),pl=ov_pcm_tell(vf); double tl=ov_time_tell(vf); int hp=ov_halfrate_p(vf);
  fmt_d(a,sizeof(a),tt); fmt_d(b,sizeof(b),tl);
  l+=snprintf(o+l,n-l,"%ld/%ld/%ld/%ld/%lld/%lld/%s/%lld/%lld/%s/%d/",st,sk,br,sn,rt,pt,a,rl,pl,b,hp);
  vi=ov_info(vf,i);
  if(vi){ long s=vi->version+vi->channels+vi->rate+vi->bitrate_upper+vi->bitrate_nominal+vi->bitrate_lower+vi->bitrate_window; g_sink+=s; l+=snprintf(o+l,n-l,"%d:%ld/",vi->channels,vi->rate); }
  else l+=snprintf(o+l,n-l,"N/");
  vc=ov_comment(vf,i);
  if(vc){ int k; long s=0; for(k=0;k<vc->comments;k++){ int j; for(j=0;j<vc->comment_lengths[k];j++)s+=vc->user_comments[k][j]; s+=strlen(vc->user_comments[k]); }
    if(vc->vendor)s+=strlen(vc->vendor); g_sink+=s; l+=snprintf(o+l,n-l,"%d",vc->comments); }
  else l+=snprintf(o+l,n-l,"N");
  return l;
}

int main(int argc,char **argv){
  const char *files=NULL,*cases=NULL; int timeout=20; int i; FILE *cf; char *line=NULL; size_t cap=0;
  for(i=1;i<argc;i++){
    if(!strcmp(argv[i],"--files"))files=argv[++i];
    else if(!strcmp(argv[i],"--cases"))cases=argv[++i];
    else if(!strcmp(argv[i],"--timeout"))timeout=atoi(argv[++i]);
  }
  if(!files||!cases){ fprintf(stderr,"usage\n"); return 2; }
  load_list(files);
  cf=fopen(cases,"r"); if(!cf)return 2;
  signal(SIGVTALRM,on_alarm);
  while(getline(&line,&cap,cf)>0){
    char *sv,*tok; long idx; int fno; char mode; long flen,ib; xfile *F;
    OggVorbis_File vf,twin; memio m,tm; int twin_open=0; int orc; fl_t fl; int links_after_open=-1;
    static char rbuf[1<<16]; size_t rl=0; int cleared=0; struct itimerval it;
    fl.flags[0]=0; rbuf[0]=0;
    tok=strtok_r(line," \n",&sv); if(!tok)continue; idx=atol(tok); g_cur_idx=idx;
    tok=strtok_r(NULL," \n",&sv); if(!tok){ printf("%ld BADCASE\n",idx); continue; } fno=atoi(tok);
    tok=strtok_r(NULL," \n",&sv); if(!tok){ printf("%ld BADCASE\n",idx); continue; } mode=tok[0];
    tok=strtok_r(NULL," \n",&sv); if(!tok){ printf("%ld BADCASE\n",idx); continue; } flen=(tok[0]=='-')?-1:atol(tok);
    tok=strtok_r(NULL," \n",&sv); if(!tok){ printf("%ld BADCASE\n",idx); continue; } ib=atol(tok);
    F=need_file(fno);
    if(!F){ printf("%ld BADCASE\n",idx); continue; }
    if(flen<0||flen>F->len)flen=F->len;
    if(ib>flen)ib=flen;
    memset(&it,0,sizeof(it)); it.it_value.tv_sec=timeout; setitimer(ITIMER_VIRTUAL,&it,NULL);
    mio_init(&m,F->data,flen); m.pos=ib;
    memset(&vf,0x5a,sizeof(vf)); memset(&twin,0,sizeof(twin));
    {
      ov_callbacks cb=(mode=='n'||mode=='u')?mio_cb_stream:mio_cb_seekable;
      /* the pre-read buffer is an exactly sized heap block */
      char *ini=NULL; if(ib>0){ ini=(char*)malloc(ib); memcpy(ini,F->data,ib); }
      if(mode=='t'||mode=='u'||mode=='p'){
        orc=ov_test_callbacks(&m,&vf,ini,ib,cb);
        if(orc<0){ if(m.nclose)addflag(&fl,"open_fail_closed_source"); }
        else if(mode!='p')orc=ov_test_open(&vf);
      }else orc=ov_open_callbacks(&m,&vf,ini,ib,cb);
      free(ini);
    }
    if(orc<0){
      size_t k; int z=1; for(k=0;k<sizeof(vf);k++)if(((unsigned char*)&vf)[k]){ z=0; break; }
      if(!z)addflag(&fl,"open_fail_not_zeroed");
      if(m.nclose)addflag(&fl,"open_fail_closed_source");
    }else links_after_open=vf.links;
    if(orc>0)addflag(&fl,"open_positive_rc");
    while((tok=strtok_r(NULL," \n",&sv))){
      char one[600]; size_t ol=0; one[0]=0;
      if(cleared&&strcmp(tok,"cl"))continue;
      if(!strncmp(tok,"rf",2)){
        float **pcm=NULL; int bs=-1; int want=atoi(tok+2); long rc=ov_read_float(&vf,&pcm,want,&bs);
        if(rc>0){ vorbis_info *vi=ov_info(&vf,-1); int c; long j; double s=0;
          if(rc>want)addflag(&fl,"read_overlong");
          if(!vi||!pcm)addflag(&fl,"read_data_without_info");
          else for(c=0;c<vi->channels;c++)for(j=0;j<rc;j++)s+=pcm[c][j];
          g_sink+=s; }
        ol=snprintf(one,sizeof(one),"%ld",rc);
      }else if(tok[0]=='r'&&(tok[1]=='i'||tok[1]=='b'||tok[1]=='B')){
        int len=atoi(tok+2); char *buf=(char*)malloc(len>0?len:1); int bs=-1; long rc; long j; long s=0;
        if(len>0)memset(buf,0,len);
        if(tok[1]=='i')rc=ov_read(&vf,buf,len,0,2,1,&bs);
        else if(tok[1]=='b')rc=ov_read(&vf,buf,len,0,1,0,&bs);
        else rc=ov_read(&vf,buf,len,1,2,0,&bs);
        if(rc>len)addflag(&fl,"read_overlong");
        else for(j=0;j<rc;j++)s+=buf[j];
        g_sink+=s; free(buf);
        ol=snprintf(one,sizeof(one),"%ld",rc);
      }else if(tok[0]=='R'&&(tok[1]=='B'||tok[1]=='E'||tok[1]=='N')){
        /* macro reads (ov_read_float, 4096 frames per call, every returned sample touched):
         *   RB  read until audio of ANOTHER logical bitstream index has been delivered (or EOF / error)
         *   RE  read until EOF (0) or an error other than OV_HOLE
         *   RN<n> n successful reads (n packets' worth), stopping early at EOF / error
         * OV_HOLE is skipped (at most 1000 times); at most 200000 calls.  Result: the return value that ended the loop. */
        long rc=0,calls=0,holes=0,good=0; int first_bs=-2; long want=(tok[1]=='N')?atol(tok+2):-1;
        while(calls<200000){
          float **pcm=NULL; int bs=-1; calls++;
          rc=ov_read_float(&vf,&pcm,4096,&bs);
          if(rc==OV_HOLE){ if(++holes>1000)break; continue; }
          if(rc<=0)break;
          { vorbis_info *vi=ov_info(&vf,-1); int c; long j; double sm=0;
            if(rc>4096)addflag(&fl,"read_overlong");
            if(!vi||!pcm)addflag(&fl,"read_data_without_info");
            else for(c=0;c<vi->channels;c++)for(j=0;j<rc;j++)sm+=pcm[c][j];
            g_sink+=sm; }
          good++;
          if(tok[1]=='N'&&good>=want)break;
          if(tok[1]=='B'){ if(first_bs==-2)first_bs=bs; else if(bs!=first_bs)break; }
        }
        if(calls>=200000)addflag(&fl,"macro_read_call_cap");
        ol=snprintf(one,sizeof(one),"%ld",rc);
      }else if(!strncmp(tok,"ps",2)||!strncmp(tok,"pp",2)||!strncmp(tok,"PS",2)||!strncmp(tok,"PP",2)){
        double t=tgt(tok+2,(double)ov_pcm_total(&vf,-1),1); ogg_int64_t p=(ogg_int64_t)t; int rc;
        if(tok[0]=='p')rc=(tok[1]=='s')?ov_pcm_seek(&vf,p):ov_pcm_seek_page(&vf,p);
        else rc=(tok[1]=='S')?ov_pcm_seek_lap(&vf,p):ov_pcm_seek_page_lap(&vf,p);
        ol=snprintf(one,sizeof(one),"%d",rc);
      }else if(!strncmp(tok,"rs",2)||!strncmp(tok,"RS",2)){
        double t=tgt(tok+2,(double)ov_raw_total(&vf,-1),1); ogg_int64_t p=(ogg_int64_t)t; int rc;
        rc=(tok[0]=='r')?ov_raw_seek(&vf,p):ov_raw_seek_lap(&vf,p);
        ol=snprintf(one,sizeof(one),"%d",rc);
      }else if(!strncmp(tok,"ts",2)||!strncmp(tok,"tp",2)||!strncmp(tok,"TS",2)||!strncmp(tok,"TP",2)){
        double tot=ov_time_total(&vf,-1); double t; int rc;
        if(tok[2]=='%'){ char *e; double pm=strtod(tok+3,&e),k=0; if(*e=='+'||*e=='-')k=strtod(e,NULL)/1000.0; if(!(tot>0))tot=0; t=tot*pm/1000.0+k; }
        else t=strtod(tok+2,NULL);
        if(tok[0]=='t')rc=(tok[1]=='s')?ov_time_seek(&vf,t):ov_time_seek_page(&vf,t);
        else rc=(tok[1]=='S')?ov_time_seek_lap(&vf,t):ov_time_seek_page_lap(&vf,t);
        ol=snprintf(one,sizeof(one),"%d",rc);
      }else if(!strcmp(tok,"h1")||!strcmp(tok,"h0")){
        ol=snprintf(one,sizeof(one),"%d",ov_halfrate(&vf,tok[1]=='1'));
      }else if(!strcmp(tok,"bi")){
        ol=snprintf(one,sizeof(one),"%ld",ov_bitrate_instant(&vf));
      }else if(tok[0]=='x'){
        ol=do_queries(&vf,atoi(tok+1),one,sizeof(one));
      }else if(tok[0]=='X'&&(tok[1]=='L'||tok[1]=='R'||tok[1]=='E'||tok[1]=='F')){
        int rc; xfile *T=need_file(atoi(tok+2));
        if(!T){ printf("%ld BADOP %s\n",idx,tok); goto next; }
        if(!twin_open){
          mio_init(&tm,T->data,T->len);
          if(ov_open_callbacks(&tm,&twin,NULL,0,mio_cb_seekable)<0)memset(&twin,0,sizeof(twin));
          twin_open=1;
        }
        if(tok[1]=='E'||tok[1]=='F')ov_pcm_seek(&twin,ov_pcm_total(&twin,-1));
        if(tok[1]=='L'||tok[1]=='E')rc=ov_crosslap(&vf,&twin); else rc=ov_crosslap(&twin,&vf);
        if(rc==0){ /* the spliced data of the second handle must be readable */
          float **pcm=NULL; int bs; OggVorbis_File *w=(tok[1]=='L'||tok[1]=='E')?&twin:&vf; long n=ov_read_float(w,&pcm,64,&bs);
          if(n>0){ vorbis_info *vi=ov_info(w,-1); int c; long j; double s=0; if(vi&&pcm)for(c=0;c<vi->channels;c++)for(j=0;j<n;j++)s+=pcm[c][j]; g_sink+=s; }
        }
        ol=snprintf(one,sizeof(one),"%d",rc);
      }else if(!strcmp(tok,"cl")){
        long c0=m.nclose; int rc=ov_clear(&vf); cleared++;
        if(cleared==1){ if(orc==0&&m.nclose!=c0+1)addflag(&fl,"clear_close_count"); if(orc<0&&m.nclose!=c0)addflag(&fl,"clear_closed_failed_open"); }
        else if(m.nclose!=c0)addflag(&fl,"double_close");
        { size_t k; for(k=0;k<sizeof(vf);k++)if(((unsigned char*)&vf)[k]){ addflag(&fl,"clear_not_zeroed"); break; } }
        ol=snprintf(one,sizeof(one),"%d",rc);
      }else{ printf("%ld BADOP %s\n",idx,tok); goto next; }
      (void)ol;
      if(rl+strlen(one)+2<sizeof(rbuf))rl+=snprintf(rbuf+rl,sizeof(rbuf)-rl,"%s%s",rl?",":"",one);
      else addflag(&fl,"harness_rbuf_full");
    }
    if(!cleared){
      long c0=m.nclose; ov_clear(&vf);
      if(orc==0&&m.nclose!=c0+1)addflag(&fl,"clear_close_count");
      if(orc<0&&m.nclose!=c0)addflag(&fl,"clear_closed_failed_open");
      { long c1=m.nclose; ov_clear(&vf); if(m.nclose!=c1)addflag(&fl,"double_close"); }
    }
    if(twin_open)ov_clear(&twin);
    memset(&it,0,sizeof(it)); setitimer(ITIMER_VIRTUAL,&it,NULL);
    printf("%ld O=%d R=%s F=%s B=%ld C=%ld L=%d\n",idx,orc,rbuf[0]?rbuf:"-",fl.flags[0]?fl.flags:"-",m.max_backhop,m.nclose,links_after_open);
    fflush(stdout);
    next:;
  }
  return 0;
}
