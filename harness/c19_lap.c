/* c19_lap: executor for C19 "lapped seeks differ from plain seeks only inside the first half short block".
 *
 * One case = one (old-position history, lapped call) pair, executed on the REAL library as three
 * replays of the same history on fresh handles over the same in-memory file:
 *   A  history, then the PLAIN seek            -> rcA, tellA, read-through to the end (PCM_A)
 *   B  history, then the LAPPED seek           -> rcB, tellB, read-through to the end (PCM_B)
 *   C  history, then the lap source S is taken -> the audio that would have been read next at the old
 *      position: up to n1 samples read through ov_read_float inside the old link; if the link ends
 *      first, the remainder comes from vorbis_synthesis_lapout() of C's decoder (white-box, as the
 *      property allows: "the decoder's overlap half at end of stream").
 * The executor compares PCM_B with PCM_A/S numerically and prints the observations; every verdict
 * (which return codes are legitimate, which keys, which signatures) is taken in checks/c19.py.
 *
 * usage: c19_lap --files list.txt --cases cases.txt [--timeout s] [--maxread n] [--dump]
 * case line (seek):     <idx> S <file#> <half> <OP><target> | op op ...
 *   OP in PS PP RS TS TP (ov_pcm_seek_lap, ov_pcm_seek_page_lap, ov_raw_seek_lap, ov_time_seek_lap, ov_time_seek_page_lap);
 *   the plain twin is the lower-case op.  <half>=1: ov_halfrate(vf,1) right after open on every replay.
 * case line (crosslap): <idx> X <file1#> <file2#> <half> | ops of vf1 ... | ops of vf2 ...
 *   <half> for crosslap may be two digits "ab": a = half-rate setting of vf1, b = of vf2 (mixed settings); one digit = both
 *   A = vf2 alone (no crosslap), B = ov_crosslap(vf1,vf2) then read-through of vf2 and afterwards of vf1,
 *   C = vf1 alone: lap source taken, then read-through (what vf1 must still deliver after the crosslap).
 * history ops: h1 (ov_halfrate(vf,1), for streams that must refuse it; its return code is printed as Q=), rf<n> (one ov_read_float call), rx<n> (read exactly n samples, several calls), ps pp rs ts tp PS PP RS TS TP
 *
 * output: <idx> A=<rc>:<tell> B=<rc>:<tell> O=<ready_state>:<link>:<ch>:<n1>:<tell> S=<status>:<decoded>:<lapout>
 *               N=<link2>:<ch2>:<n2>:<n>:<avail>:<follow> T=<tail verdict> L=<judged>:<nfail>:<first>:<ch>:<got>:<exp>:<last>:<ndiff>:<xlap>
 *               V=<vf1 later output verdict> H=<history rc list ok?> Q=<rc of h1> F=<xf>:<pages>:<reads>:<off0> D=<hash of B's lap region>
 * physical-layout axis (pylib/c19_phys.py): the kind letter may carry a read-callback cap, "S@97" / "X@1" = every read callback returns at most
 *   that many bytes (all replays).  F= is measured on replay C while the lap source is read: <pages> pages lie between the page cursor
 *   (vf->offset) before and after, <xf> of them belong to a foreign logical stream AND are followed, inside that range, by a page of the
 *   decoded stream (the lap data could only be completed by stepping over them), <reads> read callbacks were needed; <off0> = page cursor
 *   (vf->offset) at the old position.  D= hashes the first n
 *   samples delivered after the lapped call (all channels, bit patterns): equal for every physical layout of the same logical stream.
 */
#include "vfcommon.h"
#include <math.h>

extern const float *_vorbis_window_get(int n);   /* lib/window.c: table for block size 64<<n (left half) */

#define MAXSEG 40
#define MAXCH 8
typedef struct { int link,ch; long n,cap; float *d[MAXCH]; } seg_t;
typedef struct { int nseg; seg_t s[MAXSEG]; long total,first,err; } rt_t;
typedef struct { int rs,k,ch,n1,status; long tell,dec,lap; float *d[MAXCH]; long xf,npg,nrd,off0; } src_t;
enum { S_OK=0, S_EOSNOSTATE, S_NOSRC, S_ZERO, S_SHORT, S_ERR, S_OPENMID };
static const char *s_names[]={"ok","eos_nostate","nosrc","zero","short","err","openmid"};

static volatile long g_cur_idx=-1;
static int g_dump=0;
static long g_maxread=0;   /* >0: a read-through stops once this many samples were collected (faster sanitizer passes) */
static void on_alarm(int s){
  char b[64]; int n=snprintf(b,sizeof(b),"%ld TIMEOUT\n",g_cur_idx);
  fflush(stdout); if(write(1,b,n)<0){} _exit(3);
}

static void rt_free(rt_t *r){ int i,c; for(i=0;i<r->nseg;i++)for(c=0;c<r->s[i].ch;c++)__real_free(r->s[i].d[c]); memset(r,0,sizeof(*r)); }
static void src_free(src_t *s){ int c; for(c=0;c<MAXCH;c++)if(s->d[c])__real_free(s->d[c]); memset(s,0,sizeof(*s)); }

/* read everything from here to the end, link by link */
static void read_through(OggVorbis_File *vf,rt_t *r){
  memset(r,0,sizeof(*r));
  while(1){
    float **pcm; int bs=-1,c; long n=ov_read_float(vf,&pcm,4096,&bs); seg_t *s;
    if(n==0)break;
    if(n<0){ r->err=n; break; }
    if(bs<0||bs>=vf->links){ r->err=-9999; break; }
    if(r->total==0)r->first=n;
    if(r->nseg==0||r->s[r->nseg-1].link!=bs){
      if(r->nseg>=MAXSEG){ r->err=-9998; break; }
      s=&r->s[r->nseg++]; memset(s,0,sizeof(*s)); s->link=bs; s->ch=vf->vi[bs].channels;
      if(s->ch>MAXCH){ r->err=-9997; r->nseg--; break; }
    }
    s=&r->s[r->nseg-1];
    if(s->n+n>s->cap){ s->cap=(s->n+n)*2+4096; for(c=0;c<s->ch;c++)s->d[c]=(float*)__real_realloc(s->d[c],sizeof(float)*s->cap); }
    for(c=0;c<s->ch;c++)memcpy(s->d[c]+s->n,pcm[c],sizeof(float)*n);
    s->n+=n; r->total+=n;
    if(g_maxread>0&&r->total>=g_maxread)break;
  }
}

static long g_case_cap=0;   /* read-callback cap of the current case (0 = none) */
/* pages of the physical stream in [a,b): total, and foreign ones (serial != own) that are followed inside the range by a page of `own` */
static void pages_between(vfile *F,long a,long b,long own,long *npg,long *xf){
  long pos=a,pend=0; *npg=0; *xf=0;
  if(a<0||b>F->len)return;
  while(pos+27<=b){
    const unsigned char *h=F->data+pos; long nseg,i,sz,serial;
    if(memcmp(h,"OggS",4)){ pos++; continue; }
    nseg=h[26]; if(pos+27+nseg>F->len){ pos++; continue; }
    sz=27+nseg; for(i=0;i<nseg;i++)sz+=h[27+i];
    if(pos+sz>b)break;
    serial=(long)((unsigned long)h[14]|((unsigned long)h[15]<<8)|((unsigned long)h[16]<<16)|((unsigned long)h[17]<<24));
    (*npg)++;
    if(serial!=(own&0xffffffffL))pend++; else{ *xf+=pend; pend=0; }
    pos+=sz;
  }
}
static long g_h1rc=1;   /* return code of the last "h1" history op of the current case (1 = none) */
static int plain_of(int c){ return c>='A'&&c<='Z'?c-'A'+'a':c; }
/* one history / seek op; returns the library's return code */
static long do_op(OggVorbis_File *vf,const char *tok,int *bad){
  if(!strncmp(tok,"rf",2)){ float **pcm; int bs=-1; return ov_read_float(vf,&pcm,atoi(tok+2),&bs); }
  if(!strncmp(tok,"rx",2)){ long want=atol(tok+2),got=0; while(got<want){ float **pcm; int bs=-1; long r=ov_read_float(vf,&pcm,(int)(want-got),&bs); if(r<=0)return r<0?r:got; got+=r; } return got; }
  if(!strcmp(tok,"h1")){ long rc=ov_halfrate(vf,1); g_h1rc=rc; return rc; }   /* only used where it must be refused: the case stays a full-rate case */
  if(!strncmp(tok,"ps",2))return ov_pcm_seek(vf,atoll(tok+2));
  if(!strncmp(tok,"pp",2))return ov_pcm_seek_page(vf,atoll(tok+2));
  if(!strncmp(tok,"rs",2))return ov_raw_seek(vf,atoll(tok+2));
  if(!strncmp(tok,"ts",2))return ov_time_seek(vf,atof(tok+2));
  if(!strncmp(tok,"tp",2))return ov_time_seek_page(vf,atof(tok+2));
  if(!strncmp(tok,"PS",2))return ov_pcm_seek_lap(vf,atoll(tok+2));
  if(!strncmp(tok,"PP",2))return ov_pcm_seek_page_lap(vf,atoll(tok+2));
  if(!strncmp(tok,"RS",2))return ov_raw_seek_lap(vf,atoll(tok+2));
  if(!strncmp(tok,"TS",2))return ov_time_seek_lap(vf,atof(tok+2));
  if(!strncmp(tok,"TP",2))return ov_time_seek_page_lap(vf,atof(tok+2));
  *bad=1; return 0;
}

/* fresh handle + history.  hist is a space separated op list (may be empty).  rcs: hash of the return codes (replay determinism) */
static int open_replay(OggVorbis_File *vf,memio *m,vfile *F,int half,const char *hist,h128 *rcs,int *bad){
  char buf[4096]; char *t,*sv; int orc;
  mio_init(m,F->data,F->len); m->cap=g_case_cap;
  orc=ov_open_callbacks(m,vf,NULL,0,mio_cb_seekable);
  if(orc<0)return orc;
  if(half){ if(ov_halfrate(vf,1)){ ov_clear(vf); return -7777; } }
  strncpy(buf,hist,sizeof(buf)-1); buf[sizeof(buf)-1]=0;
  for(t=strtok_r(buf," \n",&sv);t;t=strtok_r(NULL," \n",&sv)){ long rc=do_op(vf,t,bad); h_i64(rcs,rc); h_i64(rcs,ov_pcm_tell(vf)); }
  return 0;
}

/* the lap source: what would have been read next at the old position (see header comment) */
static void get_src(OggVorbis_File *vf,vfile *F,int hs,src_t *s){
  refdec *r=hs?&F->href:&F->ref; long idx,rem,want; vorbis_info *vi; int c;
  memset(s,0,sizeof(*s));
  s->rs=vf->ready_state; s->tell=(long)ov_pcm_tell(vf); s->k=-1; s->off0=(long)vf->offset;
  if(vf->ready_state>=STREAMSET)s->k=vf->current_link;
  if(s->k<0){
    /* no decode state and no stream selected: at end of stream iff nothing more can be read */
    float **pcm; int bs=-1; long n=ov_read_float(vf,&pcm,1,&bs);
    s->status=n==0?S_EOSNOSTATE:(n<0?S_ERR:S_OPENMID);
    return;
  }
  if(s->k>=r->nlinks){ s->status=S_ERR; return; }
  vi=&vf->vi[s->k]; s->ch=vi->channels; s->n1=vorbis_info_blocksize(vi,0)>>(1+hs);
  if(s->ch>MAXCH){ s->status=S_ERR; return; }
  for(c=0;c<s->ch;c++)s->d[c]=(float*)__real_calloc(s->n1+1,sizeof(float));
  idx=(s->tell-r->start[s->k])>>hs; rem=r->len[s->k]-idx; if(rem<0||s->tell<r->start[s->k])rem=0;
  want=rem<s->n1?rem:s->n1;
  {
    long off0=(long)vf->offset,own=vf->current_serialno; memio *mm=(memio*)vf->datasource; long rd0=mm->nread;
    while(s->dec<want){
      float **pcm; int bs=-1; long n=ov_read_float(vf,&pcm,(int)(want-s->dec),&bs);
      if(n<=0||bs!=s->k){ s->status=S_ERR; return; }
      for(c=0;c<s->ch;c++)memcpy(s->d[c]+s->dec,pcm[c],sizeof(float)*n);
      s->dec+=n;
    }
    s->nrd=mm->nread-rd0;
    if(vf->offset>off0)pages_between(F,off0,(long)vf->offset,own,&s->npg,&s->xf);
  }
  if(s->dec<s->n1){
    if(vf->ready_state==INITSET&&vf->current_link==s->k){
      float **pcm; int n=vorbis_synthesis_lapout(&vf->vd,&pcm);
      if(n==0){ s->status=S_ZERO; s->lap=0; }
      else{
        long m=s->n1-s->dec; if(n<m)m=n;
        for(c=0;c<s->ch;c++)memcpy(s->d[c]+s->dec,pcm[c],sizeof(float)*m);
        s->lap=m; if(s->dec+m<s->n1)s->status=S_SHORT;
      }
    }else s->status=S_NOSRC;
  }
}

/* vorbis window of block size N (left half, N/2 entries): library table, cross-checked against the specification formula at start-up */
static const float *win_of(long N){ int i=0; while((64L<<i)<N)i++; return _vorbis_window_get(i); }
static int window_selftest(void){
  int t; for(t=0;t<8;t++){ long N=64L<<t,i; const float *w=_vorbis_window_get(t);
    for(i=0;i<N/2;i++){ double x=sin((i+.5)/(double)(N/2)*M_PI/2.); double e=sin(M_PI/2.*x*x); if(fabs(e-w[i])>1e-6)return 1; } }
  return 0;
}

/* short block size of each link, read once per file from a scratch handle's vorbis_info */
static long g_bs0[MAXFILES][MAXLINKS]; static int g_bs0_have[MAXFILES];
static long bs0_of(int f,int k){
  if(!g_bs0_have[f]){ OggVorbis_File vt; memio mt; int l; mio_init(&mt,g_files[f].data,g_files[f].len);
    if(ov_open_callbacks(&mt,&vt,NULL,0,mio_cb_seekable)==0){ for(l=0;l<vt.links&&l<MAXLINKS;l++)g_bs0[f][l]=vorbis_info_blocksize(&vt.vi[l],0); ov_clear(&vt); }
    g_bs0_have[f]=1; }
  return (k>=0&&k<MAXLINKS)?g_bs0[f][k]:0;
}

typedef struct { long judged,nfail,first,last,ndiff,xlap; int fch; float got; double exp; char tail[64]; } cmp_t;
/* B against A and S: structure equal, bit-identical from sample n on, cross-fade formula below n */
static void compare(rt_t *A,rt_t *B,src_t *S,long n,const float *w,cmp_t *o){
  int i,c; long g=0,k;
  memset(o,0,sizeof(*o)); o->first=-1; o->last=-1; strcpy(o->tail,"ok");
  if(A->err||B->err){ snprintf(o->tail,sizeof(o->tail),"bad:readerr:%ld:%ld",A->err,B->err); return; }
  if(A->nseg!=B->nseg){ snprintf(o->tail,sizeof(o->tail),"bad:segments:%d:%d",A->nseg,B->nseg); return; }
  for(i=0;i<A->nseg;i++)if(A->s[i].link!=B->s[i].link||A->s[i].n!=B->s[i].n||A->s[i].ch!=B->s[i].ch){
    snprintf(o->tail,sizeof(o->tail),"bad:struct:seg%d:link%d/%d:n%ld/%ld",i,A->s[i].link,B->s[i].link,A->s[i].n,B->s[i].n); return; }
  for(i=0;i<A->nseg;i++){
    seg_t *a=&A->s[i],*b=&B->s[i];
    for(c=0;c<a->ch;c++){
      for(k=0;k<a->n;k++){
        long gi=g+k; float av=a->d[c][k],bv=b->d[c][k]; int same=!memcmp(&av,&bv,4);
        if(gi>=n){
          if(!same){ if(!strcmp(o->tail,"ok"))snprintf(o->tail,sizeof(o->tail),"bad:tail:seg%d:ch%d:i%ld",i,c,gi); }
          continue;
        }
        if(!same)o->ndiff++;
        if(i>0&&same)continue;                    /* lap region running into a following link: unchanged audio is accepted (left open by the statement) */
        {
          int have=(c>=S->ch)||(S->status==S_OK&&gi<S->dec+S->lap); double sv,w2,e,tol,m;
          if(!have)continue;                      /* lap source not observable for this sample: not judged */
          sv=c<S->ch?S->d[c][gi]:0.;              /* channels the old link did not have fade in from silence */
          w2=(double)w[gi]*(double)w[gi]; e=(double)av*w2+sv*(1.-w2);
          m=fabs(av)>fabs(sv)?fabs(av):fabs(sv); if(m<1e-3)m=1e-3; tol=1e-6*m;
          o->judged++; if(i>0)o->xlap++;
          if(g_dump)fprintf(stderr,"  seg%d ch%d i=%ld A=%.9g S=%.9g w2=%.9g B=%.9g expected=%.9g %s\n",i,c,gi,(double)av,sv,w2,(double)bv,e,fabs((double)bv-e)<=tol?"":"MISMATCH");
          if(!(fabs((double)bv-e)<=tol)){ if(o->first<0){ o->first=gi; o->fch=c; o->got=bv; o->exp=e; } o->last=gi; o->nfail++; }
        }
      }
    }
    g+=a->n;
  }
}
/* flat bit-identity of two read-throughs */
static void same_rt(rt_t *A,rt_t *B,char *out,size_t outn){
  int i,c; long k;
  snprintf(out,outn,"ok");
  if(A->err||B->err){ snprintf(out,outn,"bad:readerr:%ld:%ld",A->err,B->err); return; }
  if(A->nseg!=B->nseg){ snprintf(out,outn,"bad:segments:%d:%d",A->nseg,B->nseg); return; }
  for(i=0;i<A->nseg;i++){
    if(A->s[i].link!=B->s[i].link||A->s[i].n!=B->s[i].n){ snprintf(out,outn,"bad:struct:seg%d:link%d/%d:n%ld/%ld",i,A->s[i].link,B->s[i].link,A->s[i].n,B->s[i].n); return; }
    for(c=0;c<A->s[i].ch;c++)for(k=0;k<A->s[i].n;k++)if(memcmp(&A->s[i].d[c][k],&B->s[i].d[c][k],4)){ snprintf(out,outn,"bad:pcm:seg%d:ch%d:i%ld",i,c,k); return; }
  }
}

int main(int argc,char **argv){
  const char *files=NULL,*cases=NULL; int timeout=30; int i; FILE *cf; char *line=NULL; size_t cap=0;
  for(i=1;i<argc;i++){
    if(!strcmp(argv[i],"--files"))files=argv[++i];
    else if(!strcmp(argv[i],"--cases"))cases=argv[++i];
    else if(!strcmp(argv[i],"--timeout"))timeout=atoi(argv[++i]);
    else if(!strcmp(argv[i],"--dump"))g_dump=1;
    else if(!strcmp(argv[i],"--maxread"))g_maxread=atol(argv[++i]);
  }
  if(!files||!cases){ fprintf(stderr,"usage\n"); return 2; }
  if(window_selftest()){ fprintf(stderr,"window table does not match the specification formula\n"); return 2; }
  load_files(files);
  cf=fopen(cases,"r"); if(!cf)return 2;
  signal(SIGVTALRM,on_alarm);
  while(getline(&line,&cap,cf)>0){
    char *p1,*p2=NULL,*p3=NULL,*sv,*tok; long idx; char kind; int f1,f2,half,hs,half1,half2,hs1,hs2,bad=0; char op[64]="";
    vfile *F1,*F2; struct itimerval it;
    OggVorbis_File va,vb,vb1,vc; memio ma,mb,mb1,mc; h128 ha,hb,hc,hb1; int oa,ob,oc,ob1=0;
    long rcA=0,rcB=0,tA=-1,tB=-1; rt_t RA,RB,RC1,RB1; src_t S; cmp_t cm; char vres[64]="-"; char hres[16]="ok";
    long n2=0,n=0,avail=0; int k2=-1,ch2=0; char dhex[40]="-";
    memset(&RA,0,sizeof(RA)); memset(&RB,0,sizeof(RB)); memset(&RC1,0,sizeof(RC1)); memset(&RB1,0,sizeof(RB1)); memset(&S,0,sizeof(S)); memset(&cm,0,sizeof(cm));
    /* split at '|' */
    p1=strchr(line,'|'); if(!p1){ continue; } *p1++=0;
    p2=strchr(p1,'|'); if(p2){ *p2++=0; }
    { size_t l=strlen(p1); while(l&&(p1[l-1]=='\n'||p1[l-1]==' '))p1[--l]=0; }
    if(p2){ size_t l=strlen(p2); while(l&&(p2[l-1]=='\n'||p2[l-1]==' '))p2[--l]=0; }
    tok=strtok_r(line," \n",&sv); if(!tok)continue; idx=atol(tok); g_cur_idx=idx;
    tok=strtok_r(NULL," \n",&sv); if(!tok){ printf("%ld BADCASE\n",idx); continue; } kind=tok[0];
    g_case_cap=(tok[1]=='@')?atol(tok+2):0;
    tok=strtok_r(NULL," \n",&sv); if(!tok){ printf("%ld BADCASE\n",idx); continue; } f1=atoi(tok); f2=f1;
    if(kind=='X'){ tok=strtok_r(NULL," \n",&sv); if(!tok){ printf("%ld BADCASE\n",idx); continue; } f2=atoi(tok); }
    tok=strtok_r(NULL," \n",&sv); if(!tok){ printf("%ld BADCASE\n",idx); continue; } half=atoi(tok); hs=half?1:0; half1=half2=half;
    if(kind=='X'&&strlen(tok)==2){ half1=tok[0]=='1'; half2=tok[1]=='1'; }
    hs1=half1?1:0; hs2=half2?1:0; if(kind=='S'){ hs1=hs2=hs; }
    if(kind=='S'){ tok=strtok_r(NULL," \n",&sv); if(!tok||strlen(tok)>60){ printf("%ld BADCASE\n",idx); continue; } strcpy(op,tok); }
    if(f1<0||f1>=g_nfiles||f2<0||f2>=g_nfiles||(kind!='S'&&kind!='X')||(kind=='X'&&!p2)){ printf("%ld BADCASE\n",idx); continue; }
    F1=&g_files[f1]; F2=&g_files[f2];
    /* references (for the link geometry used by C) outside the watchdog */
    need_ref(F1); need_ref(F2);
    if(half1){ need_href(F1); if(!F1->href.ok){ printf("%ld NOHALF\n",idx); fflush(stdout); continue; } }
    if(half2){ need_href(F2); if(!F2->href.ok){ printf("%ld NOHALF\n",idx); fflush(stdout); continue; } }
    memset(&it,0,sizeof(it)); it.it_value.tv_sec=timeout; setitimer(ITIMER_VIRTUAL,&it,NULL);
    h_init(&ha); h_init(&hb); h_init(&hc); h_init(&hb1); g_h1rc=1;

    if(kind=='S'){
      char pop[64]; strcpy(pop,op); pop[0]=plain_of(op[0]); pop[1]=plain_of(op[1]);
      /* A: plain */
      oa=open_replay(&va,&ma,F1,half,p1,&ha,&bad);
      if(oa){ printf("%ld OPENFAIL %d\n",idx,oa); fflush(stdout); continue; }
      rcA=do_op(&va,pop,&bad); tA=(long)ov_pcm_tell(&va);
      read_through(&va,&RA); ov_clear(&va);
      /* B: lapped */
      ob=open_replay(&vb,&mb,F1,half,p1,&hb,&bad);
      rcB=do_op(&vb,op,&bad); tB=(long)ov_pcm_tell(&vb);
      read_through(&vb,&RB); ov_clear(&vb);
      /* C: lap source */
      oc=open_replay(&vc,&mc,F1,half,p1,&hc,&bad);
      get_src(&vc,F1,hs,&S); ov_clear(&vc);
      if(ob||oc||memcmp(&ha,&hb,sizeof(ha))||memcmp(&ha,&hc,sizeof(ha)))strcpy(hres,"diverged");
    }else{
      /* A: vf2 alone */
      oa=open_replay(&va,&ma,F2,half2,p2,&ha,&bad);
      if(oa){ printf("%ld OPENFAIL %d\n",idx,oa); fflush(stdout); continue; }
      rcA=0; tA=(long)ov_pcm_tell(&va);
      read_through(&va,&RA); ov_clear(&va);
      /* B: crosslap(vf1,vf2) */
      ob1=open_replay(&vb1,&mb1,F1,half1,p1,&hb1,&bad);
      ob=open_replay(&vb,&mb,F2,half2,p2,&hb,&bad);
      rcB=ov_crosslap(&vb1,&vb); tB=(long)ov_pcm_tell(&vb);
      read_through(&vb,&RB); read_through(&vb1,&RB1); ov_clear(&vb); ov_clear(&vb1);
      /* C: vf1 alone, lap source consumed, then what it still delivers */
      oc=open_replay(&vc,&mc,F1,half1,p1,&hc,&bad);
      get_src(&vc,F1,hs1,&S);
      if(S.status==S_EOSNOSTATE||S.status==S_OPENMID||S.status==S_ERR)strcpy(vres,"unjudged");
      else{ read_through(&vc,&RC1); same_rt(&RC1,&RB1,vres,sizeof(vres)); }
      ov_clear(&vc);
      if(ob||ob1||oc||memcmp(&ha,&hb,sizeof(ha))||memcmp(&hb1,&hc,sizeof(hc)))strcpy(hres,"diverged");
    }
    if(bad){ printf("%ld BADOP\n",idx); fflush(stdout); rt_free(&RA); rt_free(&RB); rt_free(&RC1); rt_free(&RB1); src_free(&S); continue; }
    /* new position geometry from A's observations: link of the first audio delivered after the plain seek */
    if(RA.nseg>0){ k2=RA.s[0].link; ch2=RA.s[0].ch; n2=bs0_of(f2,k2)>>(1+hs2); avail=RA.first; }
    n=(S.n1>0&&S.n1<n2)?S.n1:n2;
    if(rcA==0&&rcB==0&&RA.nseg>0&&S.n1>0){
      compare(&RA,&RB,&S,n,win_of(2*n),&cm);
      { h128 hd; int si,c2; long g0=0; h_init(&hd); h_i64(&hd,n);
        for(si=0;si<RB.nseg&&g0<n;si++){ seg_t *b=&RB.s[si]; long m2=b->n<n-g0?b->n:n-g0; h_i64(&hd,b->link); h_i64(&hd,b->ch); h_i64(&hd,m2);
          for(c2=0;c2<b->ch;c2++)h_bytes(&hd,b->d[c2],sizeof(float)*m2);
          g0+=b->n; }
        h_hex(&hd,dhex); }
    }else if(rcA==0&&rcB==0){
      /* nothing follows the target (or the old state had no link): the two read-throughs must simply agree */
      same_rt(&RA,&RB,cm.tail,sizeof(cm.tail)); cm.first=cm.last=-1;
    }else{ strcpy(cm.tail,"-"); cm.first=cm.last=-1; }
    memset(&it,0,sizeof(it)); setitimer(ITIMER_VIRTUAL,&it,NULL);
    printf("%ld A=%ld:%ld B=%ld:%ld O=%d:%d:%d:%d:%ld S=%s:%ld:%ld N=%d:%d:%ld:%ld:%ld:%ld T=%s L=%ld:%ld:%ld:%d:%.9g:%.9g:%ld:%ld:%ld V=%s H=%s Q=%ld F=%ld:%ld:%ld:%ld D=%s\n",
      idx,rcA,tA,rcB,tB,S.rs,S.k,S.ch,S.n1,S.tell,s_names[S.status],S.dec,S.lap,k2,ch2,n2,n,avail,RA.total,cm.tail,
      cm.judged,cm.nfail,cm.first,cm.fch,(double)cm.got,cm.exp,cm.last,cm.ndiff,cm.xlap,vres,hres,g_h1rc,S.xf,S.npg,S.nrd,S.off0,dhex);
    fflush(stdout);
    rt_free(&RA); rt_free(&RB); rt_free(&RC1); rt_free(&RB1); src_free(&S);
  }
  return 0;
}
