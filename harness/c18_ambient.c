/* c18_ambient: the AMBIENT-STATE axis of C18's reproducibility clause ("the same inputs and call sequence always give the
 * same outputs, independent of what previously freed or uninitialised memory happens to contain"; "each produces exactly the
 * bytes or samples it produces when run alone").  Two kinds of ambient state a caller cannot be expected to control are varied
 * exhaustively over a finite alphabet while inputs and the call sequence stay fixed:
 *
 *  (a) the thread's errno.  vf    : one vorbisfile program on one file image is executed with errno forced to each value of
 *                                   {0,EIO,EINTR,ENOMEM} immediately before EVERY library call, without / with the callbacks
 *                                   leaving that value behind on every return that does not signal an error (a read callback
 *                                   returning 0 at the end of the data never touches errno); all observations must be equal.
 *                           il    : the same programs on handle A interleaved, at API-call granularity and in ONE thread, with a
 *                                   program on an independent handle B whose read callback fails fread()-style (0, errno=EIO):
 *                                   all interleavings; A's and B's observations must equal their solo observations.
 *  (b) the contents of caller memory handed to the library as an OUT parameter (struct of a vorbis_encode_ctl GET request, the
 *      int/pointer of ov_read / ov_read_float / pcmout / lapout, ogg_packet of headerout / flushpacket / vorbis_analysis):
 *      pre-filled with each pattern of {00, ff, a5/5a alternating, 3f}; the bytes of every documented member after the call
 *      (padding excluded) must not depend on the pattern, and neither may anything that follows (GET -> modify -> SET ->
 *      setup_init -> encode of a fixed signal).
 *                           ctl1  : set-up state class x before/after setup_init x GET request, all patterns.
 *                           seq   : set-up state class x sequence of <=3 GET/modify/SET operations, all patterns, then setup_init,
 *                                   the five GETs again, and an encode.
 *                           encout: encode with every ogg_packet out-parameter pre-filled; dec: packet decoder out-parameters.
 * One case line = one group (all members of the alphabet are executed and compared inside the executor).
 */
#include "common.h"
#include "codec_internal.h"
#include <math.h>
#include <stddef.h>

/* ------------------------------------------------------------------ files */
#define MAXF 48
typedef struct { char name[32]; char path[600]; unsigned char *d; long n; } file_t;
static file_t g_f[MAXF]; static int g_nf=0;
static file_t *file_get(const char *name){ int i; for(i=0;i<g_nf;i++)if(!strcmp(g_f[i].name,name))return &g_f[i]; return 0; }

/* ------------------------------------------------------------------ observation recorder */
#define MAXOBS 16384
typedef struct { const char *tag; int64_t v; } ob_t;
typedef struct { h128 dig; ob_t ob[MAXOBS]; int nob; } rec_t;
static void rec_init(rec_t *R){ h_init(&R->dig); R->nob=0; }
static void REC(rec_t *R,const char *tag,int64_t v){ h_tag(&R->dig,tag); h_i64(&R->dig,v); if(R->nob<MAXOBS){ R->ob[R->nob].tag=tag; R->ob[R->nob].v=v; } R->nob++; }
static int rec_same(const rec_t *a,const rec_t *b){ return a->nob==b->nob&&a->dig.a==b->dig.a&&a->dig.b==b->dig.b; }
/* first differing observation: index, or -1 */
static int rec_diff(const rec_t *a,const rec_t *b){
  int i,n=a->nob<b->nob?a->nob:b->nob; if(n>MAXOBS)n=MAXOBS;
  for(i=0;i<n;i++)if(strcmp(a->ob[i].tag,b->ob[i].tag)||a->ob[i].v!=b->ob[i].v)return i;
  return a->nob!=b->nob?n:-1;
}
static const char *ob_tag(const rec_t *r,int i){ return (i<r->nob&&i<MAXOBS)?r->ob[i].tag:"(end)"; }
static long long ob_val(const rec_t *r,int i){ return (i<r->nob&&i<MAXOBS)?(long long)r->ob[i].v:0; }
static uint64_t hash64(const void *p,size_t n){ h128 h; h_init(&h); h_bytes(&h,p,n); return h.a^(h.b<<1); }
static int64_t dbits(double d){ int64_t v; memcpy(&v,&d,8); return v; }

/* ------------------------------------------------------------------ fill alphabet for caller memory */
#define NPAT 4
static const char *g_patname[NPAT]={"00","ff","a5/5a","3f"};
static void fillbytes(void *p,size_t n,int pat){ unsigned char *b=(unsigned char*)p; size_t i; for(i=0;i<n;i++)b[i]=(unsigned char)(pat==0?0x00:pat==1?0xff:pat==2?((i&1)?0x5a:0xa5):0x3f); }

/* =================================================================== (a) errno */
static int g_force=0;        /* 1: errno is forced to g_e before every library call */
static int g_e=0;
static int g_cbmode=0;       /* 1: the callbacks leave errno=g_e behind on every return that does not signal an error */
static int g_eoferr=0;       /* sensitivity probe only: the read callback reports its end-of-data 0 as an error (errno=EIO) */
enum { K_NONE=0, K_OPEN, K_SEEK, K_READ, K_OTHER };
static int g_kind=0, g_entry_errno=0;
static long g_znf=0;         /* zero-byte reads at the end of the data inside an open / seek call (paths that do not fold errors into EOF) */
static long g_znf_nz=0;      /* ... where the call was entered with errno != 0 */
static long g_zrd=0;         /* zero-byte reads inside read calls */
static long g_ncalls=0;

typedef struct ctx {
  OggVorbis_File vf; memio m; file_t *f; int opened,tested; int fill; rec_t *R;
  ogg_int64_t tot_raw,tot_pcm; double tot_time; int have_raw,have_pcm,have_time;
  long lastread; long ncall;
} ctx;

#define LIB(c,kind,stmt) do{ if(g_force)errno=g_e; g_kind=(kind); g_entry_errno=errno; stmt; g_kind=K_NONE; (c)->ncall++; g_ncalls++; }while(0)

static size_t a_read(void *p,size_t s,size_t n,void *ds){
  size_t r=mio_read(p,s,n,ds);
  if(r>0){ if(g_cbmode)errno=g_e; }
  else{
    if(g_kind==K_OPEN||g_kind==K_SEEK){ g_znf++; if(g_entry_errno)g_znf_nz++; }else g_zrd++;
    if(g_eoferr)errno=EIO;      /* probe: otherwise errno is not touched here */
  }
  return r;
}
static int a_seek(void *ds,ogg_int64_t off,int wh){ int r=mio_seek(ds,off,wh); if(r==0&&g_cbmode)errno=g_e; return r; }
static long a_tell(void *ds){ long r=mio_tell(ds); if(r>=0&&g_cbmode)errno=g_e; return r; }
static int a_close(void *ds){ int r=mio_close(ds); if(g_cbmode)errno=g_e; return r; }
static const ov_callbacks cb_a_seek={ a_read,a_seek,a_close,a_tell };
static const ov_callbacks cb_a_stream={ a_read,NULL,a_close,NULL };

static void ctx_init(ctx *c,file_t *f,rec_t *R,int fill){ memset(c,0,sizeof(*c)); c->f=f; c->R=R; c->fill=fill; rec_init(R); }

static void do_read(ctx *c,int isfloat){
  if(!c->opened)return;
  if(!isfloat){
    char buf[4096]; int bs; long r; fillbytes(&bs,sizeof(bs),c->fill);
    LIB(c,K_READ,r=ov_read(&c->vf,buf,(int)sizeof(buf),0,2,1,&bs));
    REC(c->R,"ov_read",r); if(r>0){ REC(c->R,"ov_read.bitstream",bs); REC(c->R,"ov_read.pcm",(int64_t)hash64(buf,(size_t)r)); }
    c->lastread=r;
  }else{
    float **pcm; int bs; long r; fillbytes(&pcm,sizeof(pcm),c->fill); fillbytes(&bs,sizeof(bs),c->fill);
    LIB(c,K_READ,r=ov_read_float(&c->vf,&pcm,1024,&bs));
    REC(c->R,"ov_read_float",r);
    if(r>0){ vorbis_info *vi=0; int k; REC(c->R,"ov_read_float.bitstream",bs);
      LIB(c,K_OTHER,vi=ov_info(&c->vf,-1));
      if(vi)for(k=0;k<vi->channels;k++)REC(c->R,"ov_read_float.pcm",(int64_t)hash64(pcm[k],(size_t)r*sizeof(float))); }
    c->lastread=r;
  }
}
static void do_readall(ctx *c,int isfloat){
  int i,neg=0; if(!c->opened)return;
  for(i=0;i<6000;i++){ do_read(c,isfloat); if(c->lastread==0)break; if(c->lastread<0){ if(++neg>=6)break; }else neg=0; }
  REC(c->R,"readall.calls",i);
}
static void do_tells(ctx *c){
  ogg_int64_t a,b; double t; if(!c->opened)return;
  LIB(c,K_OTHER,a=ov_pcm_tell(&c->vf)); REC(c->R,"ov_pcm_tell",a);
  LIB(c,K_OTHER,b=ov_raw_tell(&c->vf)); REC(c->R,"ov_raw_tell",b);
  LIB(c,K_OTHER,t=ov_time_tell(&c->vf)); REC(c->R,"ov_time_tell",dbits(t));
}
static void do_total(ctx *c,int which){
  if(!c->opened)return;
  if(which==0){ LIB(c,K_OTHER,c->tot_raw=ov_raw_total(&c->vf,-1)); c->have_raw=1; REC(c->R,"ov_raw_total",c->tot_raw); }
  if(which==1){ LIB(c,K_OTHER,c->tot_pcm=ov_pcm_total(&c->vf,-1)); c->have_pcm=1; REC(c->R,"ov_pcm_total",c->tot_pcm); }
  if(which==2){ LIB(c,K_OTHER,c->tot_time=ov_time_total(&c->vf,-1)); c->have_time=1; REC(c->R,"ov_time_total",dbits(c->tot_time)); }
}
static void do_query(ctx *c){
  long n,i,v; if(!c->opened)return;
  LIB(c,K_OTHER,v=ov_seekable(&c->vf)); REC(c->R,"ov_seekable",v);
  LIB(c,K_OTHER,n=ov_streams(&c->vf)); REC(c->R,"ov_streams",n);
  do_total(c,1); do_total(c,0); do_total(c,2);
  LIB(c,K_OTHER,v=ov_halfrate_p(&c->vf)); REC(c->R,"ov_halfrate_p",v);
  for(i=0;i<n&&i<4;i++){
    ogg_int64_t t; double d; vorbis_info *vi=0; vorbis_comment *vc=0;
    LIB(c,K_OTHER,t=ov_pcm_total(&c->vf,(int)i)); REC(c->R,"ov_pcm_total(i)",t);
    LIB(c,K_OTHER,t=ov_raw_total(&c->vf,(int)i)); REC(c->R,"ov_raw_total(i)",t);
    LIB(c,K_OTHER,d=ov_time_total(&c->vf,(int)i)); REC(c->R,"ov_time_total(i)",dbits(d));
    LIB(c,K_OTHER,v=ov_serialnumber(&c->vf,(int)i)); REC(c->R,"ov_serialnumber(i)",v);
    LIB(c,K_OTHER,v=ov_bitrate(&c->vf,(int)i)); REC(c->R,"ov_bitrate(i)",v);
    LIB(c,K_OTHER,vi=ov_info(&c->vf,(int)i)); REC(c->R,"ov_info(i)",vi?vi->rate*16+vi->channels:-1);
    LIB(c,K_OTHER,vc=ov_comment(&c->vf,(int)i)); REC(c->R,"ov_comment(i)",vc?(int64_t)(vc->comments*1000003LL+(vc->vendor?(int64_t)(hash64(vc->vendor,strlen(vc->vendor))&0xffffff):0)):-1);
  }
  do_tells(c);
  LIB(c,K_OTHER,v=ov_bitrate_instant(&c->vf)); REC(c->R,"ov_bitrate_instant",v);
}
/* seek kinds: r raw, p pcm, g pcm_page, t time, u time_page; upper case = the _lap variant.  target digit: 0 start, 1 middle, 2 last unit, 3 the total, 4 one seventh */
static void do_seek(ctx *c,char kind,int tg){
  int lap=(kind>='A'&&kind<='Z'),r=0; char k=lap?(char)(kind-'A'+'a'):kind; if(!c->opened)return;
  if(k=='r'){
    ogg_int64_t T,pos; if(!c->have_raw)do_total(c,0); T=c->tot_raw; if(T<0)return;
    pos=tg==0?0:tg==1?T/2:tg==2?T-1:tg==3?T:T/7; if(pos<0)pos=0;
    if(lap)LIB(c,K_SEEK,r=ov_raw_seek_lap(&c->vf,pos)); else LIB(c,K_SEEK,r=ov_raw_seek(&c->vf,pos));
    REC(c->R,lap?"ov_raw_seek_lap":"ov_raw_seek",r);
  }else if(k=='p'||k=='g'){
    ogg_int64_t T,pos; if(!c->have_pcm)do_total(c,1); T=c->tot_pcm; if(T<0)return;
    pos=tg==0?0:tg==1?T/2:tg==2?T-1:tg==3?T:T/7; if(pos<0)pos=0;
    if(k=='p'){ if(lap)LIB(c,K_SEEK,r=ov_pcm_seek_lap(&c->vf,pos)); else LIB(c,K_SEEK,r=ov_pcm_seek(&c->vf,pos)); REC(c->R,lap?"ov_pcm_seek_lap":"ov_pcm_seek",r); }
    else{ if(lap)LIB(c,K_SEEK,r=ov_pcm_seek_page_lap(&c->vf,pos)); else LIB(c,K_SEEK,r=ov_pcm_seek_page(&c->vf,pos)); REC(c->R,lap?"ov_pcm_seek_page_lap":"ov_pcm_seek_page",r); }
  }else{
    double T,pos; if(!c->have_time)do_total(c,2); T=c->tot_time; if(T<0)return;
    pos=tg==0?0.:tg==1?T*.5:tg==2?T*.999:tg==3?T:T/7.;
    if(k=='t'){ if(lap)LIB(c,K_SEEK,r=ov_time_seek_lap(&c->vf,pos)); else LIB(c,K_SEEK,r=ov_time_seek(&c->vf,pos)); REC(c->R,lap?"ov_time_seek_lap":"ov_time_seek",r); }
    else{ if(lap)LIB(c,K_SEEK,r=ov_time_seek_page_lap(&c->vf,pos)); else LIB(c,K_SEEK,r=ov_time_seek_page(&c->vf,pos)); REC(c->R,lap?"ov_time_seek_page_lap":"ov_time_seek_page",r); }
  }
}
/* one token of a vorbisfile program */
static void step(ctx *c,const char *t){
  int r=0;
  if(t[0]=='O'){
    if(c->opened||c->tested)return;
    if(t[1]=='s'){ mio_init(&c->m,c->f->d,c->f->n); LIB(c,K_OPEN,r=ov_open_callbacks(&c->m,&c->vf,NULL,0,cb_a_seek)); }
    else if(t[1]=='n'){ mio_init(&c->m,c->f->d,c->f->n); c->m.noseek=1; LIB(c,K_OPEN,r=ov_open_callbacks(&c->m,&c->vf,NULL,0,cb_a_stream)); }
    else if(t[1]=='f'){ LIB(c,K_OPEN,r=ov_fopen(c->f->path,&c->vf)); }
    else if(t[1]=='b'){      /* handle B: read callback fails fread()-style (returns 0 with errno=EIO) from environment point k on; 'L': from the first point after the open */
      mio_init(&c->m,c->f->d,c->f->n);
      if(t[2]!='L'){ c->m.dev[0].idx=atol(t+2); c->m.dev[0].kind=DV_READ_ERR; c->m.dev[0].persist=1; c->m.ndev=1; }
      LIB(c,K_OPEN,r=ov_open_callbacks(&c->m,&c->vf,NULL,0,mio_cb_seekable));
      if(t[2]=='L'){ c->m.dev[0].idx=c->m.npoints; c->m.dev[0].kind=DV_READ_ERR; c->m.dev[0].persist=1; c->m.ndev=1; }
    }
    REC(c->R,"open",r); c->opened=(r==0);
  }else if(t[0]=='T'&&t[1]=='s'){
    if(c->opened||c->tested)return;
    mio_init(&c->m,c->f->d,c->f->n); LIB(c,K_OPEN,r=ov_test_callbacks(&c->m,&c->vf,NULL,0,cb_a_seek)); REC(c->R,"ov_test_callbacks",r); c->tested=(r==0);
  }else if(t[0]=='T'&&t[1]=='o'){
    if(!c->tested)return;
    LIB(c,K_OPEN,r=ov_test_open(&c->vf)); REC(c->R,"ov_test_open",r); c->tested=0; c->opened=(r==0);
  }
  else if(!strcmp(t,"q"))do_query(c);
  else if(!strcmp(t,"l"))do_tells(c);
  else if(!strcmp(t,"tr"))do_total(c,0);
  else if(!strcmp(t,"tp"))do_total(c,1);
  else if(!strcmp(t,"tt"))do_total(c,2);
  else if(!strcmp(t,"r"))do_read(c,0);
  else if(!strcmp(t,"rf"))do_read(c,1);
  else if(!strcmp(t,"R"))do_readall(c,0);
  else if(!strcmp(t,"RF"))do_readall(c,1);
  else if(t[0]=='s'&&t[1]&&t[2])do_seek(c,t[1],t[2]-'0');
  else if(t[0]=='h'){ if(c->opened){ LIB(c,K_OTHER,r=ov_halfrate(&c->vf,t[1]=='1')); REC(c->R,"ov_halfrate",r); } }
  else if(!strcmp(t,"c")){ if(c->opened||c->tested){ LIB(c,K_OTHER,r=ov_clear(&c->vf)); REC(c->R,"ov_clear",r); c->opened=c->tested=0; } }
  else{ fprintf(stderr,"bad token %s\n",t); exit(2); }
}
static void ctx_end(ctx *c){ if(c->opened||c->tested){ ov_clear(&c->vf); c->opened=c->tested=0; } }
#define MAXTOK 64
typedef struct { char txt[512]; char buf[512]; char *t[MAXTOK]; int n; } prog_t;
static void prog_parse(prog_t *p,const char *s){
  char *q; p->n=0; snprintf(p->txt,sizeof(p->txt),"%s",s); snprintf(p->buf,sizeof(p->buf),"%s",s);
  for(q=strtok(p->buf,".");q&&p->n<MAXTOK;q=strtok(NULL,"."))p->t[p->n++]=q;
}
static void run_prog(ctx *c,const prog_t *p){ int i; for(i=0;i<p->n;i++)step(c,p->t[i]); ctx_end(c); }

static rec_t RA,RB,RC,RD;

/* vf <file> <prog>: errno alphabet x callback mode, out-parameter fill alphabet, sensitivity probe */
static void case_vf(long idx,const char *fname,const char *ptxt){
  static const int E[4]={0,EIO,EINTR,ENOMEM}; static const char *EN[4]={"0","EIO","EINTR","ENOMEM"};
  file_t *f=file_get(fname); prog_t P; ctx c; int ei,cb,fl,runs=0; long znf_ref,znfnz=0,calls; int probe=0;
  if(!f){ printf("%ld MACHINERY unknown file %s\n",idx,fname); return; }
  prog_parse(&P,ptxt);
  g_force=1; g_e=0; g_cbmode=0; g_eoferr=0; g_znf=g_znf_nz=g_zrd=0;
  errno=0; ctx_init(&c,f,&RA,0); run_prog(&c,&P); runs++; znf_ref=g_znf; calls=c.ncall;
  for(ei=0;ei<4;ei++)for(cb=0;cb<2;cb++){
    int d; if(ei==0&&cb==0)continue;
    g_e=E[ei]; g_cbmode=cb; g_znf=g_znf_nz=0; errno=0; ctx_init(&c,f,&RB,0); run_prog(&c,&P); runs++; znfnz+=g_znf_nz;
    if((d=rec_diff(&RA,&RB))>=0||!rec_same(&RA,&RB)){
      if(d<0)d=0;
      printf("%ld viol key=ambient:vf:errno:%s|axis=errno|variant=errno:%s,callbacks_leave_it:%d|with errno forced to %s before every library call%s, observation #%d of the program is %s=%lld, but %s=%lld with errno 0 (vorbisfile program %s on file image %s; the callbacks never set errno when they return 0 at the end of the data)\n",
             idx,ob_tag(&RA,d),EN[ei],cb,EN[ei],cb?" and left at that value by every callback return that does not signal an error":"",d,ob_tag(&RB,d),ob_val(&RB,d),ob_tag(&RA,d),ob_val(&RA,d),ptxt,fname);
      g_force=0; return;
    }
  }
  g_e=0; g_cbmode=0;
  for(fl=1;fl<NPAT;fl++){
    int d; errno=0; ctx_init(&c,f,&RB,fl); run_prog(&c,&P); runs++;
    if((d=rec_diff(&RA,&RB))>=0||!rec_same(&RA,&RB)){
      if(d<0)d=0;
      printf("%ld viol key=ambient:vf:fill:%s|axis=fill|variant=fill:%s|with the caller's out-parameters (bitstream int / pcm pointer) pre-filled with pattern %s, observation #%d is %s=%lld, but %s=%lld with pattern 00 (program %s on %s)\n",
             idx,ob_tag(&RA,d),g_patname[fl],g_patname[fl],d,ob_tag(&RB,d),ob_val(&RB,d),ob_tag(&RA,d),ob_val(&RA,d),ptxt,fname);
      g_force=0; return;
    }
  }
  /* probe (not judged): does this program on this file reach a zero-byte read whose classification as EOF / error matters? */
  if(strncmp(ptxt,"Of",2)){ g_eoferr=1; errno=0; ctx_init(&c,f,&RB,0); run_prog(&c,&P); g_eoferr=0; probe=!rec_same(&RA,&RB); }
  g_force=0;
  { char hx[40]; h_hex(&RA.dig,hx); printf("%ld ok runs=%d calls=%ld obs=%d znf=%ld znfnz=%ld probe=%d dig=%s\n",idx,runs,calls,RA.nob,znf_ref,znfnz,probe,hx); }
}

/* il <fileA> <progA> <fileB> <progB>: every interleaving of the tokens of A and B in one thread, nothing forced */
static long il_n; static int il_bad; static char il_txt[1400]; static char il_key[160]; static long il_znfnz,il_bnz;
static void il_run(const char *order,int len,file_t *fa,const prog_t *PA,file_t *fb,const prog_t *PB){
  ctx a,b; int i,ia=0,ib=0,d;
  g_znf=g_znf_nz=0; errno=0;
  ctx_init(&a,fa,&RC,0); ctx_init(&b,fb,&RD,0);
  for(i=0;i<len;i++){ if(order[i]=='A')step(&a,PA->t[ia++]); else{ step(&b,PB->t[ib++]); if(errno)il_bnz++; } }
  ctx_end(&a); ctx_end(&b); il_n++; il_znfnz+=g_znf_nz;
  if(il_bad)return;
  if((d=rec_diff(&RA,&RC))>=0||!rec_same(&RA,&RC)){
    if(d<0)d=0; il_bad=1; snprintf(il_key,sizeof(il_key),"ambient:interleave:A:%s",ob_tag(&RA,d));
    snprintf(il_txt,sizeof(il_txt),"order=%.*s|handle A (program %s on %s) interleaved in one thread with independent handle B (program %s on %s, read callback failing with errno=EIO) in call order %.*s: observation #%d of A is %s=%lld, alone it is %s=%lld",len,order,PA->txt,fa->name,PB->txt,fb->name,len,order,d,ob_tag(&RC,d),ob_val(&RC,d),ob_tag(&RA,d),ob_val(&RA,d));
  }else if((d=rec_diff(&RB,&RD))>=0||!rec_same(&RB,&RD)){
    if(d<0)d=0; il_bad=1; snprintf(il_key,sizeof(il_key),"ambient:interleave:B:%s",ob_tag(&RB,d));
    snprintf(il_txt,sizeof(il_txt),"order=%.*s|handle B (failing read callback) interleaved with handle A in call order %.*s: observation #%d of B is %s=%lld, alone it is %s=%lld",len,order,len,order,d,ob_tag(&RD,d),ob_val(&RD,d),ob_tag(&RB,d),ob_val(&RB,d));
  }
}
static void il_enum(char *order,int pos,int na,int nb,int ua,int ub,file_t *fa,const prog_t *PA,file_t *fb,const prog_t *PB){
  if(ua==na&&ub==nb){ il_run(order,pos,fa,PA,fb,PB); return; }
  if(ua<na){ order[pos]='A'; il_enum(order,pos+1,na,nb,ua+1,ub,fa,PA,fb,PB); }
  if(ub<nb){ order[pos]='B'; il_enum(order,pos+1,na,nb,ua,ub+1,fa,PA,fb,PB); }
}
static void case_il(long idx,const char *fna,const char *pa,const char *fnb,const char *pb,const char *only){
  file_t *fa=file_get(fna),*fb=file_get(fnb); static prog_t PA,PB; ctx c; char order[2*MAXTOK+1]; int i,berr=0;
  if(!fa||!fb){ printf("%ld MACHINERY unknown file\n",idx); return; }
  prog_parse(&PA,pa); prog_parse(&PB,pb);
  g_force=0; g_cbmode=0; g_eoferr=0; g_e=0;
  errno=0; ctx_init(&c,fa,&RA,0); run_prog(&c,&PA);
  errno=0; ctx_init(&c,fb,&RB,0); run_prog(&c,&PB);
  for(i=0;i<RB.nob&&i<MAXOBS;i++)if(RB.ob[i].v==OV_EREAD)berr++;
  il_n=0; il_bad=0; il_znfnz=0; il_bnz=0;
  if(only&&*only)il_run(only,(int)strlen(only),fa,&PA,fb,&PB);
  else il_enum(order,0,PA.n,PB.n,0,0,fa,&PA,fb,&PB);
  if(il_bad)printf("%ld viol key=%s|progA=%s|progB=%s|%s\n",idx,il_key,pa,pb,il_txt);
  else printf("%ld ok n=%ld stepsA=%d stepsB=%d znfnz=%ld b_eread=%d b_left_errno=%ld obsA=%d\n",idx,il_n,PA.n,PB.n,il_znfnz,berr,il_bnz,RA.nob);
}

/* =================================================================== (b) caller memory handed in as an out-parameter */
typedef struct { const char *name; int ch; long rate; float q; long mx,nom,mn; long nsamp; } ecfg;
static const ecfg g_cfg[2]={ {"st44",2,44100,0.4f,160000,128000,96000,5000}, {"mo8",1,8000,0.3f,16000,12000,8000,3000} };
enum { S_VBR=0,S_ABR,S_MAN,S_MANOFF,S_ABROFF1,NSTATE };
static const char *g_sname[NSTATE]={"vbr","abr","man","manoff","abroff1"};
typedef struct { const char *name; size_t off,sz; } memb;
#define MB(T,f) { #f, offsetof(T,f), sizeof(((T*)0)->f) }
static const memb M_RM1[]={ MB(struct ovectl_ratemanage_arg,management_active),MB(struct ovectl_ratemanage_arg,bitrate_hard_min),MB(struct ovectl_ratemanage_arg,bitrate_hard_max),
  MB(struct ovectl_ratemanage_arg,bitrate_hard_window),MB(struct ovectl_ratemanage_arg,bitrate_av_lo),MB(struct ovectl_ratemanage_arg,bitrate_av_hi),
  MB(struct ovectl_ratemanage_arg,bitrate_av_window),MB(struct ovectl_ratemanage_arg,bitrate_av_window_center) };
static const memb M_RM2[]={ MB(struct ovectl_ratemanage2_arg,management_active),MB(struct ovectl_ratemanage2_arg,bitrate_limit_min_kbps),MB(struct ovectl_ratemanage2_arg,bitrate_limit_max_kbps),
  MB(struct ovectl_ratemanage2_arg,bitrate_limit_reservoir_bits),MB(struct ovectl_ratemanage2_arg,bitrate_limit_reservoir_bias),MB(struct ovectl_ratemanage2_arg,bitrate_average_kbps),
  MB(struct ovectl_ratemanage2_arg,bitrate_average_damping) };
static const memb M_DBL[]={ {"value(double)",0,sizeof(double)} };
static const memb M_INT[]={ {"value(int)",0,sizeof(int)} };
typedef struct { const char *name; int num; size_t argsz; const memb *m; int nm; } req_t;
enum { Q_RM1=0,Q_RM2,Q_LP,Q_IB,Q_CP,NREQ };
static const req_t g_req[NREQ]={
  {"OV_ECTL_RATEMANAGE_GET",OV_ECTL_RATEMANAGE_GET,sizeof(struct ovectl_ratemanage_arg),M_RM1,8},
  {"OV_ECTL_RATEMANAGE2_GET",OV_ECTL_RATEMANAGE2_GET,sizeof(struct ovectl_ratemanage2_arg),M_RM2,7},
  {"OV_ECTL_LOWPASS_GET",OV_ECTL_LOWPASS_GET,sizeof(double),M_DBL,1},
  {"OV_ECTL_IBLOCK_GET",OV_ECTL_IBLOCK_GET,sizeof(double),M_DBL,1},
  {"OV_ECTL_COUPLING_GET",OV_ECTL_COUPLING_GET,sizeof(int),M_INT,1} };
static long g_get_moff[NREQ],g_get_mon[NREQ];      /* GET executions with management off / on (internal flag read for the guard only) */
static long g_ctlcalls=0;
typedef union { unsigned char b[160]; double align_d; long align_l; } argbuf;
#define ARG(a) ((void*)((a)->b+32))

static int managed_now(vorbis_info *vi){ codec_setup_info *ci=(codec_setup_info*)vi->codec_setup; return ci?ci->hi.managed:0; }
/* GET into caller memory pre-filled with the pattern; records rc and, when rc==0, every documented member */
static int do_get(rec_t *R,vorbis_info *vi,int q,argbuf *a,int pat){
  const req_t *rq=&g_req[q]; int r,i;
  fillbytes(a->b,sizeof(a->b),pat);
  if(managed_now(vi))g_get_mon[q]++; else g_get_moff[q]++;
  r=vorbis_encode_ctl(vi,rq->num,ARG(a)); g_ctlcalls++;
  REC(R,rq->name,r);
  if(r==0)for(i=0;i<rq->nm;i++){ int64_t v=0; memcpy(&v,(unsigned char*)ARG(a)+rq->m[i].off,rq->m[i].sz); REC(R,rq->m[i].name,v); }
  return r;
}
static int do_set(rec_t *R,vorbis_info *vi,int num,const char *name,void *arg){ int r=vorbis_encode_ctl(vi,num,arg); g_ctlcalls++; REC(R,name,r); return r; }
static int build_state(rec_t *R,vorbis_info *vi,const ecfg *c,int s){
  int r=0;
  vorbis_info_init(vi);
  switch(s){
  case S_VBR: r=vorbis_encode_setup_vbr(vi,c->ch,c->rate,c->q); break;
  case S_ABR: case S_ABROFF1: r=vorbis_encode_setup_managed(vi,c->ch,c->rate,-1,c->nom,-1); break;
  default: r=vorbis_encode_setup_managed(vi,c->ch,c->rate,c->mx,c->nom,c->mn); break;
  }
  REC(R,"setup",r); if(r)return r;
  if(s==S_MANOFF)do_set(R,vi,OV_ECTL_RATEMANAGE2_SET,"OV_ECTL_RATEMANAGE2_SET(NULL)",NULL);
  if(s==S_ABROFF1)do_set(R,vi,OV_ECTL_RATEMANAGE_SET,"OV_ECTL_RATEMANAGE_SET(NULL)",NULL);
  return 0;
}
/* the operation alphabet of the sequences: GET into pattern-filled memory, modify documented members, SET the same memory */
static const char *g_opname[]={"R2a","R2b","R2c","R2n","R2x","R1a","R1v","R1h","LP","IB","CP","OFF2","OFF1",0};
static int op_id(const char *s){ int i; for(i=0;g_opname[i];i++)if(!strcmp(g_opname[i],s))return i; return -1; }
static int g_rmw_on=0;     /* a read-modify-write that switched management on from an off state and was accepted */
static void do_op(rec_t *R,vorbis_info *vi,const ecfg *c,int op,int pat){
  argbuf a; int was=managed_now(vi),r;
  switch(op){
  case 0: case 1: case 2: case 3: case 4: {
    struct ovectl_ratemanage2_arg *ai=(struct ovectl_ratemanage2_arg*)ARG(&a);
    if(do_get(R,vi,Q_RM2,&a,pat))return;
    if(op==0)ai->management_active=1;
    if(op==1){ ai->management_active=1; ai->bitrate_average_kbps=c->nom/1000; }
    if(op==2){ ai->management_active=1; ai->bitrate_limit_max_kbps=c->mx/1000; ai->bitrate_limit_min_kbps=c->mn/1000; }
    if(op==4){ ai->bitrate_limit_reservoir_bits=ai->bitrate_limit_reservoir_bits/2+1000; }
    r=do_set(R,vi,OV_ECTL_RATEMANAGE2_SET,"OV_ECTL_RATEMANAGE2_SET",ai);
    if(r==0&&!was&&managed_now(vi))g_rmw_on++;
  } break;
  case 5: case 6: case 7: {
    struct ovectl_ratemanage_arg *ai=(struct ovectl_ratemanage_arg*)ARG(&a);
    if(do_get(R,vi,Q_RM1,&a,pat))return;
    if(op==5){ ai->management_active=1; do_set(R,vi,OV_ECTL_RATEMANAGE_SET,"OV_ECTL_RATEMANAGE_SET",ai); }
    if(op==6){ ai->bitrate_av_lo=ai->bitrate_av_hi=c->nom; do_set(R,vi,OV_ECTL_RATEMANAGE_AVG,"OV_ECTL_RATEMANAGE_AVG",ai); }
    if(op==7){ ai->bitrate_hard_min=c->mn; ai->bitrate_hard_max=c->mx; do_set(R,vi,OV_ECTL_RATEMANAGE_HARD,"OV_ECTL_RATEMANAGE_HARD",ai); }
  } break;
  case 8: { double *v=(double*)ARG(&a); if(do_get(R,vi,Q_LP,&a,pat))return; *v-=2.0; do_set(R,vi,OV_ECTL_LOWPASS_SET,"OV_ECTL_LOWPASS_SET",v); } break;
  case 9: { double *v=(double*)ARG(&a); if(do_get(R,vi,Q_IB,&a,pat))return; *v-=4.0; do_set(R,vi,OV_ECTL_IBLOCK_SET,"OV_ECTL_IBLOCK_SET",v); } break;
  case 10:{ int *v=(int*)ARG(&a); if(do_get(R,vi,Q_CP,&a,pat))return; *v=!*v; do_set(R,vi,OV_ECTL_COUPLING_SET,"OV_ECTL_COUPLING_SET",v); } break;
  case 11: do_set(R,vi,OV_ECTL_RATEMANAGE2_SET,"OV_ECTL_RATEMANAGE2_SET(NULL)",NULL); break;
  case 12: do_set(R,vi,OV_ECTL_RATEMANAGE_SET,"OV_ECTL_RATEMANAGE_SET(NULL)",NULL); break;
  }
}
static void rec_pkt(rec_t *R,const char *tag,const ogg_packet *op){
  REC(R,tag,op->bytes); REC(R,"packet.b_o_s",op->b_o_s); REC(R,"packet.e_o_s",op->e_o_s); REC(R,"packet.granulepos",op->granulepos); REC(R,"packet.packetno",op->packetno);
  REC(R,"packet.bytes_content",(op->bytes>0&&op->packet)?(int64_t)hash64(op->packet,(size_t)op->bytes):0);
}
static float fsig(unsigned *lcg,int k,long t,long rate){
  *lcg=*lcg*1103515245u+12345u;
  return 0.33f*sinf(6.2831853f*(350.f+80.f*k)*(float)t/(float)rate)+0.15f*(((*lcg>>8)&0xffff)/32768.f-1.f)+((t%1100)==(500+23*k)?0.6f:0.f);
}
static long g_encodes=0,g_packets=0;
/* encode the fixed signal; every ogg_packet the library writes into is pre-filled with the pattern.  direct: vorbis_analysis(vb,&op) instead of the addblock/flushpacket idiom */
static void encode_fixed(rec_t *R,vorbis_info *vi,const ecfg *c,int pat,int direct){
  vorbis_dsp_state vd; vorbis_block vb; vorbis_comment vc; ogg_packet h[3],op; int r; long done=0; unsigned lcg=20260929u; int eos=0,guard=0;
  g_encodes++;
  r=vorbis_analysis_init(&vd,vi); REC(R,"vorbis_analysis_init",r); if(r)return;
  r=vorbis_block_init(&vd,&vb); REC(R,"vorbis_block_init",r);
  vorbis_comment_init(&vc); vorbis_comment_add_tag(&vc,"TITLE","c18 ambient");
  fillbytes(&op,sizeof(op),pat);
  r=vorbis_commentheader_out(&vc,&op); REC(R,"vorbis_commentheader_out",r); if(!r){ rec_pkt(R,"commentheader.bytes",&op); ogg_packet_clear(&op); }
  fillbytes(h,sizeof(h),pat);
  r=vorbis_analysis_headerout(&vd,&vc,&h[0],&h[1],&h[2]); REC(R,"vorbis_analysis_headerout",r);
  if(!r){ rec_pkt(R,"header1.bytes",&h[0]); rec_pkt(R,"header2.bytes",&h[1]); rec_pkt(R,"header3.bytes",&h[2]); }
  while(!eos&&guard++<64){
    if(done<c->nsamp){
      long n=c->nsamp-done>1024?1024:c->nsamp-done,j; int k; float **b=vorbis_analysis_buffer(&vd,(int)n);
      for(j=0;j<n;j++)for(k=0;k<c->ch;k++)b[k][j]=fsig(&lcg,k,done+j,c->rate);
      r=vorbis_analysis_wrote(&vd,(int)n); REC(R,"vorbis_analysis_wrote",r); done+=n;
    }else{ r=vorbis_analysis_wrote(&vd,0); REC(R,"vorbis_analysis_wrote(0)",r); eos=1; }
    while(1){
      r=vorbis_analysis_blockout(&vd,&vb); REC(R,"vorbis_analysis_blockout",r); if(r!=1)break;
      if(direct){
        fillbytes(&op,sizeof(op),pat);
        r=vorbis_analysis(&vb,&op); REC(R,"vorbis_analysis(op)",r); if(r==0){ rec_pkt(R,"analysis.bytes",&op); g_packets++; }
        if(r==0)continue;
      }
      r=vorbis_analysis(&vb,NULL); REC(R,"vorbis_analysis",r);
      r=vorbis_bitrate_addblock(&vb); REC(R,"vorbis_bitrate_addblock",r);
      while(1){ fillbytes(&op,sizeof(op),pat); r=vorbis_bitrate_flushpacket(&vd,&op); REC(R,"vorbis_bitrate_flushpacket",r); if(r!=1)break; rec_pkt(R,"flushpacket.bytes",&op); g_packets++; }
    }
  }
  vorbis_block_clear(&vb); vorbis_dsp_clear(&vd); vorbis_comment_clear(&vc);
}
static void viol_pat(long idx,const char *family,const char *what,const rec_t *ref,const rec_t *cur,int pat,const char *where){
  int d=rec_diff(ref,cur); if(d<0)d=0;
  printf("%ld viol key=ambient:%s:%s:%s|pattern=%s|%s: with the caller's memory pre-filled with pattern %s observation #%d is %s=%lld (0x%llx), with pattern 00 it is %s=%lld (0x%llx); %s\n",
         idx,family,what,ob_tag(ref,d),g_patname[pat],where,g_patname[pat],d,ob_tag(cur,d),ob_val(cur,d),(unsigned long long)ob_val(cur,d),ob_tag(ref,d),ob_val(ref,d),(unsigned long long)ob_val(ref,d),
         "the call sequence and all inputs are identical, only the prior contents of memory the library is documented to write differ");
}
static const ecfg *cfg_get(const char *n){ int i; for(i=0;i<2;i++)if(!strcmp(g_cfg[i].name,n))return &g_cfg[i]; return 0; }
static int state_get(const char *n){ int i; for(i=0;i<NSTATE;i++)if(!strcmp(g_sname[i],n))return i; return -1; }

/* ctl1 <cfg> <state> <post 0/1> <req index> */
static void case_ctl1(long idx,const char *cn,const char *sn,int post,int q){
  const ecfg *c=cfg_get(cn); int s=state_get(sn),pat,moff=-1,rc0=0; char where[200];
  if(!c||s<0||q<0||q>=NREQ){ printf("%ld MACHINERY bad ctl1 case\n",idx); return; }
  snprintf(where,sizeof(where),"%s on a %s encoder set-up in state %s %s vorbis_encode_setup_init",g_req[q].name,cn,sn,post?"after":"before");
  for(pat=0;pat<NPAT;pat++){
    rec_t *R=pat?&RB:&RA; vorbis_info vi; argbuf a; int r;
    rec_init(R);
    if(build_state(R,&vi,c,s)){ vorbis_info_clear(&vi); printf("%ld MACHINERY set-up failed\n",idx); return; }
    if(post){ r=vorbis_encode_setup_init(&vi); REC(R,"vorbis_encode_setup_init",r); if(r){ vorbis_info_clear(&vi); printf("%ld MACHINERY setup_init failed %d\n",idx,r); return; } }
    if(pat==0)moff=!managed_now(&vi);
    r=do_get(R,&vi,q,&a,pat); if(pat==0)rc0=r;
    vorbis_info_clear(&vi);
    if(pat&&!rec_same(&RA,&RB)){ char w[32]; snprintf(w,sizeof(w),"mgmt_%s",moff?"off":"on"); viol_pat(idx,"ctl_get",w,&RA,&RB,pat,where); return; }
  }
  { char hx[40]; h_hex(&RA.dig,hx); printf("%ld ok pats=%d rc=%d moff=%d members=%d dig=%s\n",idx,NPAT,rc0,moff,g_req[q].nm,hx); }
}
/* one program of the seq family; returns the internal set-up hash (never judged) */
static uint64_t seq_prog(rec_t *R,const ecfg *c,int s,const int *ops,int nops,int pat,int encode,int *managed_at_init){
  vorbis_info vi; int i,r,q; uint64_t H=0; argbuf a;
  rec_init(R);
  if(build_state(R,&vi,c,s)){ vorbis_info_clear(&vi); return 0; }
  for(i=0;i<nops;i++)do_op(R,&vi,c,ops[i],pat);
  r=vorbis_encode_setup_init(&vi); REC(R,"vorbis_encode_setup_init",r);
  if(r){ vorbis_info_clear(&vi); return 1; }
  REC(R,"vi.channels",vi.channels); REC(R,"vi.rate",vi.rate); REC(R,"vi.bitrate_upper",vi.bitrate_upper); REC(R,"vi.bitrate_nominal",vi.bitrate_nominal);
  REC(R,"vi.bitrate_lower",vi.bitrate_lower); REC(R,"vi.bitrate_window",vi.bitrate_window);
  for(q=0;q<NREQ;q++)do_get(R,&vi,q,&a,pat);
  { codec_setup_info *ci=(codec_setup_info*)vi.codec_setup; H=hash64(&ci->hi,sizeof(ci->hi))^(hash64(&ci->bi,sizeof(ci->bi))<<1); if(managed_at_init)*managed_at_init=ci->hi.managed; }
  if(encode)encode_fixed(R,&vi,c,pat,0);
  vorbis_info_clear(&vi);
  return H;
}
/* seq <cfg> <state> <mode> <op,op,..|->   mode 1: encode on every pattern; mode 2: encode only when the internal set-up state differs between patterns */
static void case_seq(long idx,const char *cn,const char *sn,int mode,const char *opl){
  const ecfg *c=cfg_get(cn); int s=state_get(sn),ops[8],nops=0,pat,man=0,pass; char buf[128],*q,where[260]; uint64_t H[NPAT]; long enc0=g_encodes,pk0=g_packets; int rmw0=g_rmw_on;
  if(!c||s<0){ printf("%ld MACHINERY bad seq case\n",idx); return; }
  snprintf(buf,sizeof(buf),"%s",opl);
  if(strcmp(buf,"-"))for(q=strtok(buf,",");q&&nops<8;q=strtok(NULL,",")){ int o=op_id(q); if(o<0){ printf("%ld MACHINERY bad op %s\n",idx,q); return; } ops[nops++]=o; }
  snprintf(where,sizeof(where),"%s encoder set-up in state %s, GET/modify/SET operations [%s] on pattern-filled memory, then setup_init, the five GET requests%s",cn,sn,opl,mode?", then the encode of a fixed signal":"");
  for(pass=0;pass<2;pass++){
    int encode=(mode==1)||(pass==1), differ=0;
    if(pass==1&&mode!=2)break;
    for(pat=0;pat<NPAT;pat++){
      H[pat]=seq_prog(pat?&RB:&RA,c,s,ops,nops,pat,encode,pat?0:&man);
      if(pat&&!rec_same(&RA,&RB)){ viol_pat(idx,"ctl_seq",sn,&RA,&RB,pat,where); return; }
      if(pat&&H[pat]!=H[0])differ=1;
    }
    if(!differ)break;
  }
  { char hx[40]; h_hex(&RA.dig,hx); printf("%ld ok pats=%d nops=%d managed=%d encodes=%ld packets=%ld rmw_on=%d obs=%d dig=%s\n",idx,NPAT,nops,man,g_encodes-enc0,g_packets-pk0,g_rmw_on-rmw0,RA.nob,hx); }
}
/* encout <cfg> <state> <direct>: encode straight after the set-up, every packet out-parameter pre-filled */
static void case_encout(long idx,const char *cn,const char *sn,int direct){
  const ecfg *c=cfg_get(cn); int s=state_get(sn),pat; long pk0=g_packets; char where[200];
  if(!c||s<0){ printf("%ld MACHINERY bad encout case\n",idx); return; }
  snprintf(where,sizeof(where),"encode on a %s encoder in state %s (%s), ogg_packet out-parameters pre-filled",cn,sn,direct?"vorbis_analysis(vb,&op)":"addblock/flushpacket");
  for(pat=0;pat<NPAT;pat++){
    rec_t *R=pat?&RB:&RA; vorbis_info vi; int r; rec_init(R);
    if(build_state(R,&vi,c,s)){ vorbis_info_clear(&vi); printf("%ld MACHINERY set-up failed\n",idx); return; }
    r=vorbis_encode_setup_init(&vi); REC(R,"vorbis_encode_setup_init",r);
    if(!r)encode_fixed(R,&vi,c,pat,direct);
    vorbis_info_clear(&vi);
    if(pat&&!rec_same(&RA,&RB)){ viol_pat(idx,"packet_out",sn,&RA,&RB,pat,where); return; }
  }
  { char hx[40]; h_hex(&RA.dig,hx); printf("%ld ok pats=%d packets=%ld obs=%d dig=%s\n",idx,NPAT,(g_packets-pk0)/NPAT,RA.nob,hx); }
}
/* dec <file>: packet decoder on the first link, pcm pointer of pcmout / lapout pre-filled */
static void case_dec(long idx,const char *fname){
  file_t *f=file_get(fname); int pat; long blocks=0;
  if(!f){ printf("%ld MACHINERY unknown file %s\n",idx,fname); return; }
  for(pat=0;pat<NPAT;pat++){
    rec_t *R=pat?&RB:&RA; ogg_sync_state oy; ogg_stream_state os; ogg_page og; ogg_packet op; vorbis_info vi; vorbis_comment vc; vorbis_dsp_state vd; vorbis_block vb;
    int have_os=0,nh=0,inited=0,r,stop=0; long pos=0; rec_init(R);
    ogg_sync_init(&oy); vorbis_info_init(&vi); vorbis_comment_init(&vc);
    while(!stop){
      int pr=ogg_sync_pageout(&oy,&og);
      if(pr==0){ long n=f->n-pos>4096?4096:f->n-pos; char *b; if(n<=0)break; b=ogg_sync_buffer(&oy,n); memcpy(b,f->d+pos,(size_t)n); pos+=n; ogg_sync_wrote(&oy,n); continue; }
      if(pr<0)continue;
      if(!have_os){ ogg_stream_init(&os,ogg_page_serialno(&og)); have_os=1; }
      else if(ogg_page_serialno(&og)!=os.serialno)break;       /* next link */
      ogg_stream_pagein(&os,&og);
      while(ogg_stream_packetout(&os,&op)==1){
        if(nh<3){ r=vorbis_synthesis_headerin(&vi,&vc,&op); REC(R,"vorbis_synthesis_headerin",r); if(r){ stop=1; break; } nh++;
          if(nh==3){ r=vorbis_synthesis_init(&vd,&vi); REC(R,"vorbis_synthesis_init",r); if(r){ stop=1; break; } vorbis_block_init(&vd,&vb); inited=1; } continue; }
        r=vorbis_synthesis(&vb,&op); REC(R,"vorbis_synthesis",r);
        if(r==0){ r=vorbis_synthesis_blockin(&vd,&vb); REC(R,"vorbis_synthesis_blockin",r); }
        { float **pcm; int n,k; fillbytes(&pcm,sizeof(pcm),pat);
          n=vorbis_synthesis_lapout(&vd,&pcm); REC(R,"vorbis_synthesis_lapout",n); if(n>0)for(k=0;k<vi.channels;k++)REC(R,"lapout.pcm",(int64_t)hash64(pcm[k],(size_t)n*sizeof(float)));
          fillbytes(&pcm,sizeof(pcm),pat);
          n=vorbis_synthesis_pcmout(&vd,&pcm); REC(R,"vorbis_synthesis_pcmout",n); if(n>0){ for(k=0;k<vi.channels;k++)REC(R,"pcmout.pcm",(int64_t)hash64(pcm[k],(size_t)n*sizeof(float))); vorbis_synthesis_read(&vd,n); if(!pat)blocks++; } }
      }
    }
    if(inited){ vorbis_block_clear(&vb); vorbis_dsp_clear(&vd); }
    if(have_os)ogg_stream_clear(&os);
    vorbis_comment_clear(&vc); vorbis_info_clear(&vi); ogg_sync_clear(&oy);
    if(pat&&!rec_same(&RA,&RB)){ viol_pat(idx,"pcm_out","dec",&RA,&RB,pat,"packet decoder, pcm pointer of vorbis_synthesis_pcmout / lapout pre-filled"); return; }
  }
  { char hx[40]; h_hex(&RA.dig,hx); printf("%ld ok pats=%d blocks=%ld obs=%d dig=%s\n",idx,NPAT,blocks,RA.nob,hx); }
}

/* ------------------------------------------------------------------ main */
static volatile long g_curcase=-1;
static void on_vtalrm(int s){ char b[64]; int n=snprintf(b,sizeof(b),"%ld TIMEOUT\n",g_curcase); (void)s; if(write(1,b,n)){} _exit(3); }
static void do_case(long idx,char *line){
  char *w[8]; int n=0; char *q;
  for(q=strtok(line," ");q&&n<8;q=strtok(NULL," "))w[n++]=q;
  if(n>=3&&!strcmp(w[0],"vf"))case_vf(idx,w[1],w[2]);
  else if(n>=5&&!strcmp(w[0],"il"))case_il(idx,w[1],w[2],w[3],w[4],n>=6?w[5]:0);
  else if(n>=5&&!strcmp(w[0],"ctl1"))case_ctl1(idx,w[1],w[2],atoi(w[3]),atoi(w[4]));
  else if(n>=5&&!strcmp(w[0],"seq"))case_seq(idx,w[1],w[2],atoi(w[3]),w[4]);
  else if(n>=4&&!strcmp(w[0],"encout"))case_encout(idx,w[1],w[2],atoi(w[3]));
  else if(n>=2&&!strcmp(w[0],"dec"))case_dec(idx,w[1]);
  else printf("%ld MACHINERY bad case line\n",idx);
}
int main(int argc,char **argv){
  int i; const char *cases=0;
  for(i=1;i<argc;i++){
    char *eq;
    if(!strcmp(argv[i],"--cases")&&i+1<argc){ cases=argv[++i]; continue; }
    if(!strncmp(argv[i],"deadline=",9))continue;
    eq=strchr(argv[i],'=');
    if(eq&&g_nf<MAXF&&(size_t)(eq-argv[i])<sizeof(g_f[0].name)){
      file_t *f=&g_f[g_nf++]; memcpy(f->name,argv[i],(size_t)(eq-argv[i])); f->name[eq-argv[i]]=0; snprintf(f->path,sizeof(f->path),"%s",eq+1); f->d=load_file(f->path,&f->n);
    }
  }
  if(!cases){ fprintf(stderr,"usage: c18_ambient name=file.ogg ... --cases <file>\n"); return 2; }
  {
    FILE *f=fopen(cases,"r"); char *line=0; size_t cap=0; struct sigaction sa; memset(&sa,0,sizeof(sa)); sa.sa_handler=on_vtalrm; sigaction(SIGVTALRM,&sa,NULL);
    if(!f){ perror(cases); return 2; }
    while(getline(&line,&cap,f)>0){
      long idx; int off=0; struct itimerval it; size_t n=strlen(line); while(n&&(line[n-1]=='\n'||line[n-1]=='\r'))line[--n]=0;
      if(sscanf(line,"%ld %n",&idx,&off)<1)continue;
      g_curcase=idx;
      memset(&it,0,sizeof(it)); it.it_value.tv_sec=120; setitimer(ITIMER_VIRTUAL,&it,NULL);
      do_case(idx,line+off);
      fflush(stdout);
    }
    fclose(f);
  }
  return 0;
}
