/* c11_damage: packet-history damage executor for C11 ("a damaged or skipped packet disturbs only its
 * own neighbourhood").
 *
 * usage: c11_damage --cases <file> [--timeout s] [--noexempt] stream0.ogg stream1.ogg ...
 *        a stream argument written hr:<path> is decoded (clean reference and every damaged history) in HALF-RATE mode:
 *        vorbis_synthesis_halfrate(&vi,1) before vorbis_synthesis_init; restart histories may come from a full-rate stream entry
 *        of the same setup (only its packets are used).
 *        lap:<path> (combinable: lap:hr:<path>) reads every block through vorbis_synthesis_lapout: pcmout(v,NULL) for the count of
 *        finished samples, lapout for finished+look-ahead data, vorbis_synthesis_read of the finished ones.  Clean reference and every
 *        damaged history use that path; --info also reports whether the clean lapout output equals the clean pcmout output.
 *        c11_damage --info stream0.ogg ...          (one JSON line per stream, then exit)
 *
 * Every stream is parsed once with libogg (ogg_sync/ogg_stream_packetout: granulepos, packetno and e_o_s
 * exactly as libogg delivers them), its three headers are fed to vorbis_synthesis_headerin once, and the
 * CLEAN decode (vorbis_synthesis -> vorbis_synthesis_blockin -> one pcmout/read drain per packet) is kept
 * as per-packet output chunks (sample count + floats).
 *
 * case line:  <idx> <stream#> <kind> <k> <a> <b> [<kind2> <k2> <a2> <b2>]
 *   With two operations the FIRST is applied first and must be a simple one (no inner loop), k < k2.
 *   kinds (k = clean audio packet index):
 *     dropgap k 0 0     packet k not delivered, packet numbers of the others unchanged (decoder sees the gap)
 *     drop    k 0 0     packet k not delivered, the following packets renumbered (no visible gap)
 *     dup     k r 0     packet k delivered twice; r=0 same packetno twice, r=1 copy and followers renumbered
 *     repl    k j m     bytes of packet k replaced by those of packet j; m=1: also j's granulepos and e_o_s
 *     zero    k 0 0     packet k delivered with 0 bytes
 *     hdr     k h r     header packet h (0..2) injected before packet k; r=1: k and followers renumbered
 *     trunc   k lo hi   INNER LOOP: every length L in [lo,hi) (hi<0: packet length) -> first L bytes
 *     flip    k lo hi   INNER LOOP: every single bit of bytes [lo,hi) (hi<0: packet length) flipped
 *     restart k s2 h    INNER LOOP over h (h<0: every h in 0..n(s2)): decode packets 0..h-1 of stream s2
 *                       (same codec setup, verified), vorbis_synthesis_restart, continue with packet k
 *     pgdrop/pgcrc/pgdup p m 0   PAGE level, through vorbisfile (m=1 seekable, m=0 streaming): physical page p dropped /
 *                       its CRC broken / delivered twice; ov_read_float to EOF.  Demanded: open succeeds, no return code other than
 *                       samples, OV_HOLE, 0; at least one OV_HOLE; samples before the lost packets and the samples from the second
 *                       packet after the gap to the end are bit-identical to the clean decode (tail judged only when a complete
 *                       page follows the page after the gap, same reason as exemption E below).
 * Every damaged history is decoded from the first packet on a fresh vorbis_dsp_state / vorbis_block.
 * A packet that vorbis_synthesis rejects is skipped without vorbis_synthesis_blockin (what vorbisfile does).
 *
 * Oracle (bit-exact, memcmp of floats): every clean packet j of the delivered history that is not the disturbed
 * item itself and not the first delivered packet after a disturbance must produce exactly the clean chunk j
 * (count and content).  So: drop/dup/repl/zero/trunc/flip at k -> all j<=k-1 and all j>=k+2; hdr before k and
 * restart at k -> all j>=k+1 (and j<=k-1 for hdr).
 * Two narrow exemptions, both about granule-position based TRIMMING, not about audio (--noexempt disables both):
 *  (E) end trimming needs an in-sequence granule reference (block.c:837-846): the COUNT of the final e_o_s packet is only
 *      demanded when some packet delivered after the last disturbance and before the final packet carries a granulepos;
 *      otherwise only the common prefix is compared.
 *  (S) start trimming (spec A.2, block.c:854-893): where the damaged history AS DELIVERED makes a position-less decoder see a
 *      first granulepos smaller than the samples produced since it lost its position, that packet's output is only required
 *      to be a suffix of the clean chunk (see judge()).
 *
 * output: <idx> ok n=<inner> acc=<a> rej=<r> obs=<o> bsz=<b> ex=<e> exdiff=<x> sx=<s> cmp=<chunks compared>
 *         <idx> FAIL inner=<first failing inner> nfail=<m> j=<packet> rel=<j-k> what=<...> n=.. acc=.. ...
 *         <idx> SKIP <why>
 *   acc: damaged packet accepted by vorbis_synthesis; obs: accepted AND output of packet k or k+1 changed;
 *   bsz: accepted with a different block size than the clean packet. */
#include "common.h"

typedef struct { unsigned char *data; long bytes; ogg_int64_t gp, pno; int eos; } pkt;
typedef struct { int cnt; int acc; long off; } chunk;
typedef struct {
  char path[400]; pkt hdr[3]; pkt *p; int n, cap;
  vorbis_info vi; vorbis_comment vc; int ch; long bs0, bs1;
  chunk *clean; float *pcm; long pcm_n; long *bsz; long total;
  unsigned char *file; long flen; int halfrate, lap, lap_equals_pcmout, lap_first_diff;
} stream;
typedef struct { const unsigned char *data; long bytes; ogg_int64_t gp, pno; int eos; int tag; int cmp; int restart; int mark; } item;
typedef struct { char kind[12]; long k, a, b; } opr;

#define MAXS 64
static stream S[MAXS]; static int NS = 0;
static int g_noexempt = 0;
static volatile long g_cur = -1, g_inner = -1;
static int g_timeout = 20;

static void on_alarm(int s){ char b[96]; int n = snprintf(b, sizeof(b), "%ld TIMEOUT inner=%ld\n", g_cur, g_inner); fflush(stdout); if(write(1, b, n) < 0){} _exit(3); }
static void arm(void){ struct itimerval it; memset(&it, 0, sizeof(it)); it.it_value.tv_sec = g_timeout; setitimer(ITIMER_VIRTUAL, &it, NULL); }

static void die(const char *m, const char *a){ fprintf(stderr, "c11_damage: %s %s\n", m, a ? a : ""); exit(2); }

/* ------------------------------------------------------------------ loading */
static void load_stream(stream *s, const char *path){
  ogg_sync_state oy; ogg_stream_state os; ogg_page og; ogg_packet op; long len, pos = 0; unsigned char *d; int sinit = 0, nh = 0;
  int hr = 0, lap = 0; const char *full = path;
  while(1){ if(!strncmp(path, "hr:", 3)){ hr = 1; path += 3; } else if(!strncmp(path, "lap:", 4)){ lap = 1; path += 4; } else break; }
  memset(s, 0, sizeof(*s)); strncpy(s->path, full, sizeof(s->path) - 1); s->halfrate = hr; s->lap = lap; s->lap_equals_pcmout = -1; s->lap_first_diff = -1;
  d = load_file(path, &len);
  ogg_sync_init(&oy);
  while(1){
    int r = ogg_sync_pageout(&oy, &og);
    if(r == 0){ long k = len - pos; char *b; if(k <= 0)break; if(k > 4096)k = 4096; b = ogg_sync_buffer(&oy, k); memcpy(b, d + pos, k); pos += k; ogg_sync_wrote(&oy, k); continue; }
    if(r < 0)die("hole in clean stream", path);
    if(!sinit){ ogg_stream_init(&os, ogg_page_serialno(&og)); sinit = 1; }
    if(ogg_stream_pagein(&os, &og) < 0)die("pagein failed", path);
    while((r = ogg_stream_packetout(&os, &op)) != 0){
      pkt q;
      if(r < 0)die("packet hole in clean stream", path);
      q.bytes = op.bytes; q.data = (unsigned char*)__real_malloc(op.bytes ? op.bytes : 1); memcpy(q.data, op.packet, op.bytes);
      q.gp = op.granulepos; q.pno = op.packetno; q.eos = op.e_o_s;
      if(nh < 3){ s->hdr[nh++] = q; continue; }
      if(s->n == s->cap){ s->cap = s->cap ? s->cap * 2 : 64; s->p = (pkt*)__real_realloc(s->p, sizeof(pkt) * s->cap); }
      s->p[s->n++] = q;
    }
  }
  if(nh < 3)die("fewer than 3 header packets", path);
  ogg_stream_clear(&os); ogg_sync_clear(&oy); s->file = d; s->flen = len;
  vorbis_info_init(&s->vi); vorbis_comment_init(&s->vc);
  for(nh = 0; nh < 3; nh++){
    ogg_packet h; memset(&h, 0, sizeof(h)); h.packet = s->hdr[nh].data; h.bytes = s->hdr[nh].bytes; h.b_o_s = (nh == 0); h.packetno = nh;
    if(vorbis_synthesis_headerin(&s->vi, &s->vc, &h) < 0)die("headerin failed", path);
  }
  s->ch = s->vi.channels; s->bs0 = vorbis_info_blocksize(&s->vi, 0); s->bs1 = vorbis_info_blocksize(&s->vi, 1);
  /* half-rate decoding: set on the vorbis_info before any vorbis_synthesis_init; the clean reference is decoded the same way */
  if(hr && vorbis_synthesis_halfrate(&s->vi, 1))die("half-rate refused (short block <= 64)", path);
}

/* ------------------------------------------------------------------ decoding */
static float *g_scr = NULL; static long g_scr_cap = 0;
static int g_lap_on = 1;   /* 0 while the pcmout-path reference of a lap: stream is decoded */

/* decodes the delivered history on a fresh decoder; out[i] = chunk of item i (off = sample offset into g_scr, channel-major per chunk) */
static int decode_items(stream *s, item *it, int n, chunk *out){
  vorbis_dsp_state vd; vorbis_block vb; int i, c; long used = 0; long need = ((long)n + 2) * s->bs1 * s->ch;
  if(need > g_scr_cap){ g_scr = (float*)__real_realloc(g_scr, sizeof(float) * need); g_scr_cap = need; if(!g_scr)die("oom", 0); }
  if(vorbis_synthesis_init(&vd, &s->vi))die("synthesis_init failed", s->path);
  vorbis_block_init(&vd, &vb);
  for(i = 0; i < n; i++){
    ogg_packet op; int r; float **pcm; int m;
    if(it[i].restart)vorbis_synthesis_restart(&vd);
    memset(&op, 0, sizeof(op));
    op.packet = (unsigned char*)it[i].data; op.bytes = it[i].bytes; op.granulepos = it[i].gp; op.packetno = it[i].pno; op.e_o_s = it[i].eos;
    r = vorbis_synthesis(&vb, &op);
    out[i].acc = (r == 0); out[i].cnt = 0; out[i].off = used;
    if(r == 0){ if(vorbis_synthesis_blockin(&vd, &vb) != 0)out[i].acc = 2; }
    if(s->lap && g_lap_on){
      /* lapout read path: pcmout(v,NULL) for the number of finished samples, lapout for finished + look-ahead data,
         vorbis_synthesis_read of the finished ones; only after a block was taken in (what a player with look-ahead does) */
      if(out[i].acc == 1){
        int cnt = vorbis_synthesis_pcmout(&vd, NULL), tot = vorbis_synthesis_lapout(&vd, &pcm);
        if(tot < cnt)cnt = tot < 0 ? 0 : tot;
        if(cnt > 0){
          float *base = g_scr + used * s->ch;
          if((used + cnt) * s->ch > g_scr_cap)die("scratch overflow", 0);
          for(c = 0; c < s->ch; c++)memcpy(base + (long)c * cnt, pcm[c], sizeof(float) * cnt);
          out[i].cnt = cnt;
          if(vorbis_synthesis_read(&vd, cnt))out[i].acc = 2;
        }
      }
    }else
    while((m = vorbis_synthesis_pcmout(&vd, &pcm)) > 0){
      if((used + out[i].cnt + m) * s->ch > g_scr_cap)die("scratch overflow", 0);
      /* a chunk is stored channel-major only after the drain is complete; usually one iteration */
      if(out[i].cnt){ /* second iteration: re-pack (rare) */
        long old = out[i].cnt, nw = old + m; float *base = g_scr + used * s->ch;
        for(c = s->ch - 1; c >= 0; c--){ memmove(base + c * nw, base + c * old, sizeof(float) * old); }
        for(c = 0; c < s->ch; c++)memcpy(base + c * nw + old, pcm[c], sizeof(float) * m);
        out[i].cnt = (int)nw;
      }else{
        float *base = g_scr + used * s->ch;
        for(c = 0; c < s->ch; c++)memcpy(base + (long)c * m, pcm[c], sizeof(float) * m);
        out[i].cnt = m;
      }
      vorbis_synthesis_read(&vd, m);
    }
    used += out[i].cnt;
  }
  vorbis_block_clear(&vb); vorbis_dsp_clear(&vd);
  return 0;
}

/* chunk equality: returns 0 equal, 1 count differs, 2 content differs (first difference -> *ch,*idx)
 * mode 0: exact; 1: common prefix only (count free); 2: damaged chunk must be a suffix of the clean chunk */
static int chunk_diff(stream *s, int j, const chunk *d, int mode, int *pc, long *pi){
  const chunk *c = &s->clean[j]; const float *a = s->pcm + c->off * s->ch, *b = g_scr + d->off * s->ch; int ch; long m = c->cnt < d->cnt ? c->cnt : d->cnt, i;
  if(mode == 0 && c->cnt != d->cnt)return 1;
  if(mode == 2 && d->cnt > c->cnt)return 1;
  for(ch = 0; ch < s->ch; ch++){
    const float *x = a + (long)ch * c->cnt + (mode == 2 ? c->cnt - m : 0), *y = b + (long)ch * d->cnt;
    if(memcmp(x, y, sizeof(float) * m)){ for(i = 0; i < m; i++)if(memcmp(x + i, y + i, sizeof(float))){ *pc = ch; *pi = i; break; } return 2; }
  }
  return 0;
}

/* ------------------------------------------------------------------ operations on a history */
static int find_tag(item *it, int n, long k){ int i; for(i = 0; i < n; i++)if(it[i].tag == k)return i; return -1; }
static void nocmp_next(item *it, int n, int i, int mark){ if(i < n){ it[i].cmp = 0; it[i].mark = mark; } }

/* applies a simple op in place; returns new n, or -1 if not applicable */
static int apply_simple(stream *s, item *it, int n, const opr *o, int mark, int *dist_idx){
  int i = find_tag(it, n, o->k), t;
  *dist_idx = -1;
  if(i < 0)return -1;
  if(!strcmp(o->kind, "dropgap") || !strcmp(o->kind, "drop")){
    int ren = !strcmp(o->kind, "drop");
    memmove(it + i, it + i + 1, sizeof(item) * (n - i - 1)); n--;
    if(ren)for(t = i; t < n; t++)it[t].pno -= 1;
    nocmp_next(it, n, i, mark);
    return n;
  }
  if(!strcmp(o->kind, "dup")){
    memmove(it + i + 2, it + i + 1, sizeof(item) * (n - i - 1)); n++;
    it[i + 1] = it[i]; it[i + 1].tag = -1; it[i + 1].cmp = 0; it[i + 1].mark = 0; it[i + 1].restart = 0; *dist_idx = i + 1;
    if(o->a){ for(t = i + 1; t < n; t++)it[t].pno += 1; }
    nocmp_next(it, n, i + 2, mark);
    return n;
  }
  if(!strcmp(o->kind, "repl")){
    if(o->a < 0 || o->a >= s->n || o->a == o->k)return -1;
    it[i].data = s->p[o->a].data; it[i].bytes = s->p[o->a].bytes; it[i].cmp = 0; *dist_idx = i;
    if(o->b){ it[i].gp = s->p[o->a].gp; it[i].eos = s->p[o->a].eos; }
    nocmp_next(it, n, i + 1, mark);
    return n;
  }
  if(!strcmp(o->kind, "zero")){
    it[i].bytes = 0; it[i].cmp = 0; *dist_idx = i;
    nocmp_next(it, n, i + 1, mark);
    return n;
  }
  if(!strcmp(o->kind, "hdr")){
    if(o->a < 0 || o->a > 2)return -1;
    memmove(it + i + 1, it + i, sizeof(item) * (n - i)); n++;
    it[i].data = s->hdr[o->a].data; it[i].bytes = s->hdr[o->a].bytes; it[i].gp = (o->a == 0 ? 0 : -1); it[i].eos = 0; it[i].tag = -1; it[i].cmp = 0; it[i].mark = 0; it[i].restart = 0; it[i].pno = it[i + 1].pno; *dist_idx = i;
    if(o->b)for(t = i + 1; t < n; t++)it[t].pno += 1;
    nocmp_next(it, n, i + 1, mark);
    return n;
  }
  return -1;
}

/* ------------------------------------------------------------------ judging one damaged history */
typedef struct { long n, acc, rej, obs, bsz, ex, exdiff, sx, cmp, nfail; long first_inner; int fj; long frel; char what[96]; } tally;

static int clean_assert = 0;
static void judge(stream *s, item *it, int n, chunk *out, long k, int dist_idx, long inner, tally *T){
  int i, last_mark = -1, fin = -1, exempt = 0, failed = 0, strim = -1;
  T->n++;
  for(i = 0; i < n; i++){ if(it[i].mark)last_mark = i; if(it[i].tag == s->n - 1 && it[i].eos)fin = i; }
  if(fin >= 0 && last_mark >= 0 && !g_noexempt){
    int g = 0; for(i = last_mark; i < fin; i++)if(it[i].gp != -1 && it[i].tag >= 0)g = 1;
    if(!g && it[fin].cmp && last_mark <= fin){ exempt = 1; T->ex++; }
  }
  /* Start trimming (Vorbis I spec A.2, block.c:854-893): a decoder without a position (stream start, restart, visible sequence
     gap) that has produced more samples than the first granule position it then sees must discard the excess from the
     beginning of that packet's output.  Where this rule applies to the history AS DELIVERED, the packet's output is only
     required to be a suffix of the clean chunk.  (Never applies to a clean stream of the zoo: asserted in clean_decode.) */
  {
    ogg_int64_t seq = -1, sc = -1; int haspos = 0; long lbs = 0;
    strim = -1;
    for(i = 0; i < n; i++){
      ogg_packet op; long bz;
      if(it[i].restart){ seq = -1; sc = -1; haspos = 0; }
      if(!out[i].acc)continue;
      memset(&op, 0, sizeof(op)); op.packet = (unsigned char*)it[i].data; op.bytes = it[i].bytes; bz = vorbis_packet_blocksize(&s->vi, &op);
      if(seq == -1 || seq + 1 != it[i].pno){ haspos = 0; sc = -1; }
      seq = it[i].pno;
      if(sc == -1)sc = 0; else sc += lbs / 4 + bz / 4;
      lbs = bz;
      if(it[i].gp != -1){ if(!haspos && sc > it[i].gp && !it[i].eos && strim < 0 && !g_noexempt)strim = i; haspos = 1; }
    }
    if(strim >= 0){ if(it[strim].tag >= 0 && it[strim].cmp)T->sx++; if(clean_assert)die("start trimming rule fires on a clean stream", s->path); }
  }
  for(i = 0; i < n; i++){
    int j = it[i].tag, d, pc = 0; long pi = 0;
    if(j < 0 || !it[i].cmp)continue;
    T->cmp++;
    d = chunk_diff(s, j, &out[i], (exempt && i == fin) ? 1 : (i == strim ? 2 : 0), &pc, &pi);
    if(exempt && i == fin && out[i].cnt != s->clean[j].cnt)T->exdiff++;
    if(d && !failed){
      failed = 1; T->nfail++;
      if(T->nfail == 1){
        T->first_inner = inner; T->fj = j; T->frel = j - k;
        if(d == 1)snprintf(T->what, sizeof(T->what), "count:%d!=%d", out[i].cnt, s->clean[j].cnt);
        else snprintf(T->what, sizeof(T->what), "content:ch%d:i%ld:%.9g!=%.9g", pc, pi, (double)(g_scr + out[i].off * s->ch)[(long)pc * out[i].cnt + pi], (double)(s->pcm + s->clean[j].off * s->ch)[(long)pc * s->clean[j].cnt + pi]);
      }
    }
    if(out[i].acc != 1 && !failed){ failed = 1; T->nfail++; if(T->nfail == 1){ T->first_inner = inner; T->fj = j; T->frel = j - k; snprintf(T->what, sizeof(T->what), "clean_packet_rejected:%d", out[i].acc); } }
  }
  /* statistics about the disturbed item (the last operation's) */
  if(dist_idx >= 0){
    if(out[dist_idx].acc){
      int changed = 0, pc; long pi; int kk = find_tag(it, n, k), k1 = find_tag(it, n, k + 1);
      ogg_packet op; long bz;
      T->acc++;
      if(kk >= 0 && kk == dist_idx && chunk_diff(s, (int)k, &out[kk], 0, &pc, &pi))changed = 1;
      if(kk >= 0 && kk != dist_idx)changed = 1; /* an extra delivered packet (dup/hdr accepted) always adds or alters output */
      if(k1 >= 0 && chunk_diff(s, (int)k + 1, &out[k1], 0, &pc, &pi))changed = 1;
      if(changed)T->obs++;
      memset(&op, 0, sizeof(op)); op.packet = (unsigned char*)it[dist_idx].data; op.bytes = it[dist_idx].bytes;
      bz = vorbis_packet_blocksize(&s->vi, &op);
      if(k >= 0 && k < s->n && bz != s->bsz[k])T->bsz++;
    }else T->rej++;
  }
}

static void init_items(stream *s, item *it){
  int j; for(j = 0; j < s->n; j++){ it[j].data = s->p[j].data; it[j].bytes = s->p[j].bytes; it[j].gp = s->p[j].gp; it[j].pno = s->p[j].pno; it[j].eos = s->p[j].eos; it[j].tag = j; it[j].cmp = 1; it[j].restart = 0; it[j].mark = 0; }
}

static void clean_decode(stream *s){
  item *it = (item*)__real_malloc(sizeof(item) * (s->n + 1)); int j; long tot = 0;
  s->clean = (chunk*)__real_malloc(sizeof(chunk) * (s->n + 1)); s->bsz = (long*)__real_malloc(sizeof(long) * (s->n + 1));
  for(j = 0; j < s->n; j++){
    ogg_packet op; memset(&op, 0, sizeof(op)); op.packet = s->p[j].data; op.bytes = s->p[j].bytes;
    it[j].data = s->p[j].data; it[j].bytes = s->p[j].bytes; it[j].gp = s->p[j].gp; it[j].pno = s->p[j].pno; it[j].eos = s->p[j].eos; it[j].tag = j; it[j].cmp = 1; it[j].restart = 0; it[j].mark = 0;
    s->bsz[j] = vorbis_packet_blocksize(&s->vi, &op);
  }
  decode_items(s, it, s->n, s->clean);
  for(j = 0; j < s->n; j++){ tot += s->clean[j].cnt; if(s->clean[j].acc != 1)die("clean stream has a rejected packet", s->path); }
  s->pcm_n = tot; s->total = tot;
  s->pcm = (float*)__real_malloc(sizeof(float) * (tot * s->ch + 1)); memcpy(s->pcm, g_scr, sizeof(float) * tot * s->ch);
  if(s->lap){ /* the finished samples read through lapout must be the ones the pcmout path delivers */
    chunk *o2 = (chunk*)__real_malloc(sizeof(chunk) * (s->n + 1)); long u = 0; int same = 1;
    g_lap_on = 0; decode_items(s, it, s->n, o2); g_lap_on = 1;
    for(j = 0; j < s->n && same; j++){ if(o2[j].cnt != s->clean[j].cnt || o2[j].off != s->clean[j].off)same = 0; u += o2[j].cnt; }
    if(same && memcmp(g_scr, s->pcm, sizeof(float) * tot * s->ch))same = 0;
    s->lap_equals_pcmout = same;
    if(!same){ s->lap_first_diff = -1; for(j = 0; j < s->n; j++){ if(o2[j].cnt != s->clean[j].cnt || memcmp(g_scr + o2[j].off * s->ch, s->pcm + s->clean[j].off * s->ch, sizeof(float) * s->ch * (o2[j].cnt < s->clean[j].cnt ? o2[j].cnt : s->clean[j].cnt))){ s->lap_first_diff = j; break; } } }
    __real_free(o2);
    /* g_scr now holds the pcmout decode; judge() below compares s->clean against s->pcm only through out[].off into g_scr, so redo the lap decode */
    decode_items(s, it, s->n, s->clean);
  }
  { tally T; memset(&T, 0, sizeof(T)); clean_assert = 1; judge(s, it, s->n, s->clean, -1, -1, 0, &T); clean_assert = 0; if(T.nfail || T.ex || T.sx)die("self-check of the judge on the clean history failed", s->path); }
  __real_free(it);
}


/* ------------------------------------------------------------------ page-level damage through vorbisfile */
typedef struct { long off, len; int npk; int cont, spans; int a, b; } pginfo;   /* a..b: audio packet indices completed on the page */
static int parse_pages(stream *s, pginfo *pg, int maxp){
  long o = 0; int n = 0, done = 0;
  while(o + 27 <= s->flen && n < maxp){
    int nseg, i, c = 0; long bl = 0;
    if(memcmp(s->file + o, "OggS", 4))return -1;
    nseg = s->file[o + 26]; if(o + 27 + nseg > s->flen)return -1;
    for(i = 0; i < nseg; i++){ bl += s->file[o + 27 + i]; if(s->file[o + 27 + i] < 255)c++; }
    pg[n].off = o; pg[n].len = 27 + nseg + bl; pg[n].npk = c; pg[n].cont = s->file[o + 5] & 1; pg[n].spans = nseg && s->file[o + 27 + nseg - 1] == 255;
    pg[n].a = done - 3; pg[n].b = done + c - 1 - 3; done += c;
    o += pg[n].len; n++;
  }
  return (o == s->flen) ? n : -1;
}
/* full read through vorbisfile; returns total samples (channel-major into *buf with stride cap), holes, first error */
static long vf_readall(stream *s, const unsigned char *data, long len, int seekable, float **buf, long *cap, int *holes, int *err){
  memio m; OggVorbis_File vf; long tot = 0; int c, r;
  *holes = 0; *err = 0;
  mio_init(&m, data, len);
  r = ov_open_callbacks(&m, &vf, NULL, 0, seekable ? mio_cb_seekable : mio_cb_stream);
  if(r < 0){ *err = r; return -1; }
  if(ov_info(&vf, -1)->channels != s->ch){ *err = -999; ov_clear(&vf); return -1; }
  while(1){
    float **pcm; int bs; long n = ov_read_float(&vf, &pcm, 4096, &bs);
    if(n == 0)break;
    if(n == OV_HOLE){ (*holes)++; if(*holes > 1000){ *err = -998; break; } continue; }
    if(n < 0){ *err = (int)n; break; }
    if(tot + n > *cap){ long nc = (*cap ? *cap * 2 : 65536); float *nb; while(nc < tot + n)nc *= 2; nb = (float*)__real_malloc(sizeof(float) * nc * s->ch);
      for(c = 0; c < s->ch; c++)if(tot)memcpy(nb + c * nc, *buf + c * (*cap), sizeof(float) * tot); __real_free(*buf); *buf = nb; *cap = nc; }
    for(c = 0; c < s->ch; c++)memcpy(*buf + c * (*cap) + tot, pcm[c], sizeof(float) * n);
    tot += n;
  }
  ov_clear(&vf);
  return tot;
}
static void run_page_case(long idx, stream *s, const char *kind, long p, int seekable){
  static pginfo pg[4096]; int np = parse_pages(s, pg, 4096), c, j, holes, err, judged = 1; unsigned char *d; long dl = 0, tot, M = 0, P = 0;
  static float *cb = NULL, *db = NULL; static long ccap = 0, dcap = 0; static stream *cfor = NULL, *bfor = NULL; static long ctot = 0; static int cseek = -1;
  if(s->halfrate || s->lap){ printf("%ld SKIP page_cases_only_on_plain_streams\n", idx); return; }
  if(np < 0){ printf("%ld SKIP unparsable_pages\n", idx); return; }
  if(p < 2 || p >= np || pg[p].a < 0){ printf("%ld SKIP not_an_audio_page\n", idx); return; }
  for(j = 0; j < np; j++)if(pg[j].cont || pg[j].spans){ printf("%ld SKIP packet_spans_pages\n", idx); return; }
  arm();
  /* clean reference through vorbisfile itself must equal the packet-level clean decode */
  if(bfor != s){ __real_free(cb); __real_free(db); cb = db = NULL; ccap = dcap = 0; bfor = s; cfor = NULL; }   /* buffers are sized per channel count */
  if(cfor != s || cseek != seekable){
    ctot = vf_readall(s, s->file, s->flen, seekable, &cb, &ccap, &holes, &err); cfor = s; cseek = seekable;
    if(ctot != s->total || holes || err){ printf("%ld FAIL inner=-1 nfail=1 j=-1 rel=0 what=clean_vorbisfile_decode:total%ld/%ld:holes%d:err%d n=1\n", idx, ctot, s->total, holes, err); cfor = NULL; return; }
    for(j = 0; j < s->n; j++)for(c = 0; c < s->ch; c++)
      if(memcmp(cb + c * ccap + s->clean[j].off, s->pcm + s->clean[j].off * s->ch + (long)c * s->clean[j].cnt, sizeof(float) * s->clean[j].cnt)){ printf("%ld FAIL inner=-1 nfail=1 j=%d rel=0 what=clean_vorbisfile_differs_from_packet_api n=1\n", idx, j); cfor = NULL; return; }
  }
  d = (unsigned char*)__real_malloc(s->flen + pg[p].len + 1);
  if(!strcmp(kind, "pgdrop")){ memcpy(d, s->file, pg[p].off); memcpy(d + pg[p].off, s->file + pg[p].off + pg[p].len, s->flen - pg[p].off - pg[p].len); dl = s->flen - pg[p].len; }
  else if(!strcmp(kind, "pgcrc")){ memcpy(d, s->file, s->flen); d[pg[p].off + pg[p].len - 1] ^= 0x10; dl = s->flen; }
  else if(!strcmp(kind, "pgdup")){ memcpy(d, s->file, pg[p].off + pg[p].len); memcpy(d + pg[p].off + pg[p].len, s->file + pg[p].off, s->flen - pg[p].off); dl = s->flen + pg[p].len; }
  else{ printf("%ld BADCASE\n", idx); __real_free(d); return; }
  tot = vf_readall(s, d, dl, seekable, &db, &dcap, &holes, &err);
  __real_free(d);
  /* prefix: everything before the first lost packet; tail: from the second packet after the gap */
  for(j = 0; j < pg[p].a; j++)P += s->clean[j].cnt;
  if(!strcmp(kind, "pgdup"))for(j = pg[p].a; j <= pg[p].b; j++)P += s->clean[j].cnt;
  for(j = pg[p].b + 2; j < s->n; j++)M += s->clean[j].cnt;
  /* end trimming needs a granule-bearing packet between the gap and the final packet: a complete page must follow the next one */
  if(p + 2 > np - 1)judged = 0;
  if(p == np - 1 && strcmp(kind, "pgdup")){ /* the e_o_s page itself is gone: nothing follows the gap */
    if(err && err != OV_HOLE){ printf("%ld FAIL inner=0 nfail=1 j=-1 rel=0 what=read_error:%d n=1\n", idx, err); return; }
    printf("%ld ok n=1 acc=0 rej=1 obs=0 bsz=0 ex=1 exdiff=0 sx=0 cmp=0 holes=%d\n", idx, holes); return; }
  if(tot < 0){ printf("%ld FAIL inner=0 nfail=1 j=-1 rel=0 what=open_failed:%d n=1\n", idx, err); return; }
  if(err){ printf("%ld FAIL inner=0 nfail=1 j=-1 rel=0 what=read_error:%d n=1\n", idx, err); return; }
  /* vorbisfile (re)starts a seekable link with ogg_stream_reset_serialno, so a missing FIRST audio page is not detectable there */
  if(holes < 1 && !(seekable && pg[p].a == 0 && strcmp(kind, "pgdup"))){ printf("%ld FAIL inner=0 nfail=1 j=-1 rel=0 what=no_hole_reported:total%ld n=1\n", idx, tot); return; }
  if(tot < P){ printf("%ld FAIL inner=0 nfail=1 j=%d rel=-1 what=count:short_prefix:%ld<%ld n=1\n", idx, pg[p].a - 1, tot, P); return; }
  for(c = 0; c < s->ch; c++)if(memcmp(db + c * dcap, cb + c * ccap, sizeof(float) * P)){ printf("%ld FAIL inner=0 nfail=1 j=%d rel=-1 what=content:prefix n=1\n", idx, pg[p].a - 1); return; }
  if(judged){
    if(tot < M){ printf("%ld FAIL inner=0 nfail=1 j=%d rel=2 what=count:tail_too_short:%ld<%ld n=1\n", idx, pg[p].b + 2, tot, M); return; }
    for(c = 0; c < s->ch; c++)if(memcmp(db + c * dcap + (tot - M), cb + c * ccap + (ctot - M), sizeof(float) * M)){
      long i; for(i = 0; i < M; i++)if(memcmp(db + c * dcap + (tot - M) + i, cb + c * ccap + (ctot - M) + i, sizeof(float)))break;
      printf("%ld FAIL inner=0 nfail=1 j=%d rel=2 what=content:tail:ch%d:i%ld:total%ld/%ld n=1\n", idx, pg[p].b + 2, c, i, tot, ctot); return; }
  }
  printf("%ld ok n=1 acc=0 rej=1 obs=%d bsz=0 ex=%d exdiff=0 sx=0 cmp=%d holes=%d\n", idx, tot != ctot, !judged, judged ? s->n - (pg[p].b + 2) + pg[p].a : pg[p].a, holes);
}

static int same_setup(stream *a, stream *b){
  return a->hdr[0].bytes == b->hdr[0].bytes && !memcmp(a->hdr[0].data, b->hdr[0].data, a->hdr[0].bytes) &&
         a->hdr[2].bytes == b->hdr[2].bytes && !memcmp(a->hdr[2].data, b->hdr[2].data, a->hdr[2].bytes);
}

static void run_case(long idx, int si, opr *ops, int nops){
  stream *s = &S[si]; int maxn = s->n + 8, n, i, dist = -1; item *it, *base; chunk *out; tally T; opr *o;
  int s2n = 0; int k;
  if(!strncmp(ops[nops - 1].kind, "pg", 2)){ run_page_case(idx, s, ops[0].kind, ops[0].k, (int)ops[0].a); return; }
  memset(&T, 0, sizeof(T)); T.first_inner = -1;
  for(i = 0; i < NS; i++)if(S[i].n > s2n)s2n = S[i].n;
  maxn += s2n;
  base = (item*)__real_malloc(sizeof(item) * maxn); it = (item*)__real_malloc(sizeof(item) * maxn); out = (chunk*)__real_malloc(sizeof(chunk) * maxn);
  init_items(s, base); n = s->n;
  if(nops == 2){
    n = apply_simple(s, base, n, &ops[0], 1, &dist);
    if(n < 0){ printf("%ld SKIP first_op_not_applicable\n", idx); goto done; }
  }
  o = &ops[nops - 1]; k = (int)o->k;
  if(k < 0 || k >= s->n){ printf("%ld SKIP k_out_of_range\n", idx); goto done; }
  if(!strcmp(o->kind, "flip") || !strcmp(o->kind, "trunc")){
    int fl = !strcmp(o->kind, "flip"); int ki = find_tag(base, n, k); long lo = o->a, hi = o->b, len, x;
    if(ki < 0){ printf("%ld SKIP packet_gone\n", idx); goto done; }
    len = base[ki].bytes; if(hi < 0 || hi > len)hi = len; if(lo < 0)lo = 0;
    for(x = fl ? lo * 8 : lo; x < (fl ? hi * 8 : hi); x++){
      unsigned char *buf; long bl = fl ? len : x;
      g_inner = x; arm();
      memcpy(it, base, sizeof(item) * n);
      buf = (unsigned char*)malloc(bl ? bl : 1);      /* exact-size heap block: ASan sees any over-read */
      memcpy(buf, base[ki].data, bl);
      if(fl)buf[x >> 3] ^= (unsigned char)(1u << (x & 7));
      it[ki].data = buf; it[ki].bytes = bl; it[ki].cmp = 0; nocmp_next(it, n, ki + 1, 2);
      decode_items(s, it, n, out);
      judge(s, it, n, out, k, ki, x, &T);
      free(buf);
    }
  }else if(!strcmp(o->kind, "restart")){
    int s2i = (int)o->a; stream *s2; long h, hlo, hhi;
    if(nops == 2){ printf("%ld SKIP restart_as_second_op_unsupported\n", idx); goto done; }
    if(s2i < 0 || s2i >= NS){ printf("%ld SKIP bad_s2\n", idx); goto done; }
    s2 = &S[s2i];
    if(!same_setup(s, s2)){ printf("%ld SKIP setup_differs\n", idx); goto done; }
    if(o->b < 0){ hlo = 0; hhi = s2->n; }else{ hlo = hhi = o->b; if(hhi > s2->n){ printf("%ld SKIP h_out_of_range\n", idx); goto done; } }
    for(h = hlo; h <= hhi; h++){
      int m = 0, j;
      g_inner = h; arm();
      for(j = 0; j < h; j++){ it[m].data = s2->p[j].data; it[m].bytes = s2->p[j].bytes; it[m].gp = s2->p[j].gp; it[m].pno = s2->p[j].pno; it[m].eos = 0; it[m].tag = -1; it[m].cmp = 0; it[m].restart = 0; it[m].mark = 0; m++; }
      for(j = k; j < s->n; j++){ it[m] = base[j]; m++; }
      it[h].restart = 1; it[h].cmp = 0; it[h].mark = 2;
      decode_items(s, it, m, out);
      judge(s, it, m, out, k, -1, h, &T);
      /* statistics: was the history observable at all, i.e. does packet k's own output differ from clean (it must: restart suppresses it) */
      if(out[h].acc == 1)T.acc++; else T.rej++;
      if(out[h].cnt != s->clean[k].cnt)T.obs++;
    }
  }else{
    int d2 = -1;
    g_inner = 0; arm();
    memcpy(it, base, sizeof(item) * n);
    n = apply_simple(s, it, n, o, 2, &d2);
    if(n < 0){ printf("%ld SKIP op_not_applicable\n", idx); goto done; }
    decode_items(s, it, n, out);
    judge(s, it, n, out, k, d2, 0, &T);
    if(d2 < 0){ /* drop: "accepted" is meaningless; observable iff packet k+1's output changed */
      int k1 = find_tag(it, n, k + 1), pc; long pi;
      if(k1 >= 0 && chunk_diff(s, k + 1, &out[k1], 0, &pc, &pi))T.obs++;
    }
  }
  if(T.nfail)printf("%ld FAIL inner=%ld nfail=%ld j=%d rel=%ld what=%s n=%ld acc=%ld rej=%ld obs=%ld bsz=%ld ex=%ld exdiff=%ld sx=%ld cmp=%ld\n", idx, T.first_inner, T.nfail, T.fj, T.frel, T.what, T.n, T.acc, T.rej, T.obs, T.bsz, T.ex, T.exdiff, T.sx, T.cmp);
  else printf("%ld ok n=%ld acc=%ld rej=%ld obs=%ld bsz=%ld ex=%ld exdiff=%ld sx=%ld cmp=%ld\n", idx, T.n, T.acc, T.rej, T.obs, T.bsz, T.ex, T.exdiff, T.sx, T.cmp);
 done:
  __real_free(base); __real_free(it); __real_free(out);
}

static void info(stream *s, int si){
  h128 hp, hs, ho; char a[40], b[40], c[40]; int j, ngp = 0, trans = 0; long total = 0;
  h_init(&hp); h_init(&hs); h_init(&ho);
  for(j = 0; j < s->n; j++){ h_i64(&hp, s->p[j].bytes); h_bytes(&hp, s->p[j].data, s->p[j].bytes); if(s->p[j].gp != -1)ngp++; if(j && s->bsz[j] != s->bsz[j - 1])trans++; total += s->p[j].bytes; }
  h_bytes(&hs, s->hdr[0].data, s->hdr[0].bytes); h_bytes(&hs, s->hdr[2].data, s->hdr[2].bytes);
  for(j = 0; j < s->n; j++)h_i64(&ho, s->clean[j].cnt);
  h_bytes(&ho, s->pcm, sizeof(float) * s->pcm_n * s->ch);
  h_hex(&hp, a); h_hex(&hs, b); h_hex(&ho, c);
  printf("{\"stream\":%d,\"lap\":%d,\"lap_equals_pcmout\":%d,\"lap_first_diff\":%d,\"halfrate\":%d,\"path\":\"%s\",\"packets\":%d,\"bytes\":%ld,\"ch\":%d,\"bs0\":%ld,\"bs1\":%ld,\"granule_packets\":%d,\"transitions\":%d,\"samples\":%ld,\"last_eos\":%d,\"packets_hash\":\"%s\",\"setup_hash\":\"%s\",\"pcm_hash\":\"%s\",\"blocks\":\"",
         si, s->lap, s->lap_equals_pcmout, s->lap_first_diff, s->halfrate, s->path + (s->lap ? 0 : 0), s->n, total, s->ch, s->bs0, s->bs1, ngp, trans, s->total, (s->n && s->p[s->n - 1].eos) ? 1 : 0, a, b, c);
  for(j = 0; j < s->n; j++)putchar(s->bsz[j] == s->bs1 && s->bs1 != s->bs0 ? 'L' : 'S');
  /* per packet: bitmask of channels whose spectrum decoded to exact silence (unused floor) */
  printf("\",\"zeroch\":\"");
  { vorbis_dsp_state vd; vorbis_block vb; vorbis_synthesis_init(&vd, &s->vi); vorbis_block_init(&vd, &vb);
    for(j = 0; j < s->n; j++){ ogg_packet op; int c, m = 0; long i; memset(&op, 0, sizeof(op)); op.packet = s->p[j].data; op.bytes = s->p[j].bytes; op.packetno = s->p[j].pno;
      if(vorbis_synthesis(&vb, &op) == 0){ for(c = 0; c < s->ch && c < 3; c++){ int z = 1; for(i = 0; i < vb.pcmend; i++)if(vb.pcm[c][i] != 0.f){ z = 0; break; } if(z)m |= 1 << c; } }
      putchar('0' + m); }
    vorbis_block_clear(&vb); vorbis_dsp_clear(&vd); }
  printf("\",\"lens\":["); for(j = 0; j < s->n; j++)printf("%s%ld", j ? "," : "", s->p[j].bytes);
  printf("],\"gp\":["); for(j = 0; j < s->n; j++)printf("%s%lld", j ? "," : "", (long long)s->p[j].gp);
  printf("],\"counts\":["); for(j = 0; j < s->n; j++)printf("%s%d", j ? "," : "", s->clean[j].cnt);
  printf("]}\n");
}

int main(int argc, char **argv){
  const char *cases = NULL; int i, doinfo = 0; FILE *cf; char *line = NULL; size_t lcap = 0;
  for(i = 1; i < argc; i++){
    if(!strcmp(argv[i], "--cases"))cases = argv[++i];
    else if(!strcmp(argv[i], "--timeout"))g_timeout = atoi(argv[++i]);
    else if(!strcmp(argv[i], "--noexempt"))g_noexempt = 1;
    else if(!strcmp(argv[i], "--info"))doinfo = 1;
    else{ if(NS >= MAXS)die("too many streams", 0); load_stream(&S[NS], argv[i]); clean_decode(&S[NS]); NS++; }
  }
  if(doinfo){ for(i = 0; i < NS; i++)info(&S[i], i); return 0; }
  if(!cases)return 2;
  cf = fopen(cases, "r"); if(!cf)return 2;
  signal(SIGVTALRM, on_alarm);
  while(getline(&line, &lcap, cf) > 0){
    long idx; int si, nf; opr ops[2];
    nf = sscanf(line, "%ld %d %11s %ld %ld %ld %11s %ld %ld %ld", &idx, &si, ops[0].kind, &ops[0].k, &ops[0].a, &ops[0].b, ops[1].kind, &ops[1].k, &ops[1].a, &ops[1].b);
    if(nf < 1)continue;
    g_cur = idx; g_inner = -1;
    if((nf != 6 && nf != 10) || si < 0 || si >= NS){ printf("%ld BADCASE\n", idx); fflush(stdout); continue; }
    run_case(idx, si, ops, nf == 10 ? 2 : 1);
    fflush(stdout);
    { struct itimerval it; memset(&it, 0, sizeof(it)); setitimer(ITIMER_VIRTUAL, &it, NULL); }
  }
  return 0;
}
