/* c16_comments: comment header round trip + tag queries against a list reference model (C16).
 *
 * One case line = one completely enumerated sub-space of comment lists (the enumeration runs inside this
 * process).  Case texts (after the index):
 *
 *   enum <mode> <loc> <alpha> <maxlen> <n> <lo> <hi> <xalpha|-> <xmaxlen>
 *        all lists of exactly <n> entries over S = all strings of length <= maxlen over the byte alphabet
 *        <alpha> (hex), whose FIRST entry has index lo <= k < hi in S (S ordered by length, then by alphabet
 *        order); n=0 is the single empty list.  Lists whose entries ALL lie in S(xalpha,xmaxlen) are skipped
 *        (they belong to another sub-space; keeps sub-spaces disjoint so that list counts add up to distinct lists).
 *   one  <mode> <loc> <e1>,<e2>,...     one explicit list, entries in hex, '-' = empty entry, '.' = empty list
 *   count  <mode> <loc> <N>             N NUL-free entries of a fixed pattern (TITLE=/a=/A=/""/I=/aa=/a==/\xc9=)
 *   countz <mode> <loc> <N>             N entries with embedded NUL bytes (explicit lengths)
 *   len  <mode> <loc> <L>               lists [En(L)], [Ez(L)], [En(L),"",Ez(L)]   (En NUL-free, Ez with NULs)
 *   all256 <mode> <loc>                 entries holding all 256 byte values
 *   fold256 <mode> <loc>                256 entries  X"=v"  (X = every byte value) queried with every 1-byte tag
 *   longtag <mode> <loc> <L>            tag T of L characters; pool: T=, T in other case=, T with only the last character's case changed=,
 *                                       T with another last character=, T+"x"=, T minus its last character=, the 126- and 127-character
 *                                       prefixes of T= (L>126 / L>127); every ordered choice of 3 distinct pool entries + the whole pool;
 *                                       queried with T and each of those relatives (pool reduced for L>256)
 *   probe <loc>                         does setlocale(LC_ALL,loc) succeed?
 *
 * Call-sequence families (one "sequence" = one evaluation; counted in seqs/seqok, not in lists):
 *   EDIT  : base list (N entries, explicit lengths, may hold NULs) -> vorbis_commentheader_out -> vorbis_synthesis_headerin into
 *           `dec` (the DECODER-FILLED structure) -> K x vorbis_comment_add / vorbis_comment_add_tag onto dec -> dec == base+added
 *           (count, lengths, bytes, terminators, vendor kept), queries on dec, dec -> vorbis_commentheader_out (mode f: and
 *           vorbis_analysis_headerout) -> decode again == base+added, queries.
 *     editgrid <mode> <loc> <Nlo> <Nhi> <Kmax> [V]  every N in Nlo..Nhi x every K in 0..Kmax (0 = plain transcode), contents cycling through S(A6,3)
 *           V = source vendor of the decoded stream: 0 written by this library; 1..5 FOREIGN, comment header packed by hand
 *           (AcmeCodec..., empty, 300 bytes, with NUL and 0xff, high bytes): the re-written header must carry the LIBRARY's vendor
 *           (editenum and edit1 take the same optional trailing V)
 *     editenum <mode> <loc> <alpha> <bmaxlen> <bn> <amaxlen> <ak> <lo> <hi>
 *           every base list of exactly bn entries over S(alpha,bmaxlen) (first entry index in [lo,hi)) x every added list of
 *           exactly ak entries over the NUL-free strings of S(alpha,amaxlen)
 *     edit1 <mode> <loc> <N> <hexlist>              one sequence: the first N entries are the base, the rest is added
 *   REUSE : vorbis_comment_init -> add N entries -> vorbis_commentheader_out + decode == first -> vorbis_comment_clear ->
 *           (NO vorbis_comment_init) add M entries -> structure == second (count M, ...), queries, vorbis_commentheader_out
 *           (mode f: and vorbis_analysis_headerout) -> decode == second, vendor, queries -> vorbis_comment_clear
 *     reusegrid <mode> <loc> <Nlo> <Nhi> <Mmax>     every N in Nlo..Nhi x every M in 0..Mmax, NUL-free contents cycling through S(A6,3)
 *     reuseenum <mode> <loc> <alpha> <amaxlen> <an> <bmaxlen> <bn> <lo> <hi>
 *           every first list of exactly an entries over NUL-free S(alpha,amaxlen) (first entry index in [lo,hi) of the NUL-free
 *           table) x every second list of exactly bn entries over NUL-free S(alpha,bmaxlen)
 *     reuse1 <mode> <loc> <N> <hexlist>             one sequence: the first N entries are the first fill, the rest the second
 *
 *   mode f: struct variant (explicit lengths): zero-terminated buffers -> queries + vorbis_analysis_headerout path,
 *           exact-size unterminated buffers -> vorbis_commentheader_out path;
 *           for NUL-free lists additionally vorbis_comment_add and vorbis_comment_add_tag (split at the first / last '=')
 *           variants: built structure == model, then vorbis_commentheader_out path
 *        q: struct variant, vorbis_analysis_headerout path only (used for the additional locale pass: queries)
 *   loc : locale name for setlocale(LC_ALL, .) during the case (LC_CTYPE alone if the locale has no other categories)
 *
 * Reference model: the list of (bytes,length) itself.  Per list and variant:
 *   built vc (API variants): count/lengths/bytes/terminator == model
 *   packet -> fresh vorbis_info + vorbis_comment: headerin(id)==0, headerin(comment)==0,
 *   comments==n, comment_lengths[i]==len_i, bytes equal, user_comments[i][len_i]==0, vendor == --vendor
 *   queries on the built vc and on the decoded vc: for every tag T and i in 0..n+1:
 *       vorbis_comment_query(vc,T,i) == user_comments[k_i]+|T|+1, k_i = i-th model entry whose first |T|+1 bytes
 *       equal T"=" under ASCII-only folding, NULL beyond; query_count == #matches == #non-NULL results.
 *
 * output: <idx> ok <stats>   |   <idx> bad:<what> nfail=<k> first=<variant>/<path>/<hexlist> <stats>
 */
#include "common.h"
#include <locale.h>
#include <ctype.h>
#include <stdarg.h>
#include <fcntl.h>

typedef struct { const unsigned char *p; int len; } ent;
typedef struct { long lists, nontriv, variants, rts, queries, qnonnull, qcase, qmulti, nul_rt, nul_entries, api_variants, big_rt, amb, nfail, seqs, seqok; int maxlen; } stats;

static const char *g_vendor="";
static vorbis_info g_evi; static vorbis_dsp_state g_vd;
static unsigned char *g_id; static long g_idlen;
static stats S;
static char g_first[320],g_firstlist[600];
static int g_tracefd=-1;
static const char *g_variant="-",*g_path="-";
static const ent *g_m; static int g_n;

static const char *TAGS10[]={"a","A","aa","a=","","i","I","\xe9","\xc9","TITLE"};
static const char **g_tags=TAGS10; static int g_ntags=10;

/* LC_ALL if the locale is complete, else LC_CTYPE alone (all that toupper/tolower/strcasecmp depend on) */
static int set_loc(const char *loc){ if(setlocale(LC_ALL,loc))return 2; setlocale(LC_ALL,"C"); if(setlocale(LC_CTYPE,loc))return 1; return 0; }
/* a small quarantine keeps the page-fault (sys) time of millions of tiny alloc/free pairs down; ASAN_OPTIONS from the environment still win */
const char *__asan_default_options(void){ return "quarantine_size_mb=16:thread_local_quarantine_size_kb=64"; }
static volatile long g_cur=-1;
static void on_alarm(int s){ char b[64]; int n=snprintf(b,sizeof(b),"%ld TIMEOUT\n",g_cur); if(write(1,b,n)<0){} _exit(3); }

/* ------------------------------------------------------------ reporting */
static int hexlist(char *out,int cap,const ent *m,int n){
  int o=0,i,j;
  if(n==0){ o+=snprintf(out+o,cap-o,"."); return o; }
  for(i=0;i<n&&o<cap-16;i++){
    if(i)out[o++]=',';
    if(m[i].len==0)out[o++]='-';
    for(j=0;j<m[i].len&&o<cap-16;j++){
      if(j>=24){ o+=snprintf(out+o,cap-o,"..(len%d)",m[i].len); break; }
      o+=snprintf(out+o,cap-o,"%02x",m[i].p[j]);
    }
    if(i>=11&&i<n-1){ o+=snprintf(out+o,cap-o,",..(%d entries)",n); break; }
  }
  out[o]=0; return o;
}
static void fail(const char *fmt,...){
  S.nfail++;
  if(!g_first[0]){
    va_list ap; char hl[500];
    va_start(ap,fmt); vsnprintf(g_first,300,fmt,ap); va_end(ap);
    hexlist(hl,sizeof(hl),g_m,g_n);
    snprintf(g_firstlist,sizeof(g_firstlist),"%s/%s/%s",g_variant,g_path,hl);
  }
}

/* ------------------------------------------------------------ the model's folding */
static int mfold(int c){ return (c>=0x61&&c<=0x7a)?c-0x20:c; }
static int foldeq(const unsigned char *a,const unsigned char *b,int n){ int i; for(i=0;i<n;i++)if(mfold(a[i])!=mfold(b[i]))return 0; return 1; }

static int *g_match; static int g_matchcap;

static void check_queries(vorbis_comment *vc,const ent *m,int n,const char *where){
  int t,k,i;
  if(n+2>g_matchcap){ g_matchcap=n+2+1024; g_match=(int*)realloc(g_match,sizeof(int)*g_matchcap); }
  for(t=0;t<g_ntags;t++){
    const char *T=g_tags[t]; int tl=(int)strlen(T)+1,nm=0,amb=0,c,nonnull=0; static unsigned char *ft; static int ftcap;
    if(tl+1>ftcap){ ftcap=tl+64; ft=(unsigned char*)realloc(ft,ftcap); }
    memcpy(ft,T,tl-1); ft[tl-1]='=';
    for(k=0;k<n;k++){
      int a=(m[k].len>=tl)&&foldeq(m[k].p,ft,tl);
      int cl=(int)strnlen((const char*)m[k].p,m[k].len);   /* C-string reading of the entry */
      int b=(cl>=tl)&&foldeq(m[k].p,ft,tl);
      if(a!=b)amb=1;
      if(a)g_match[nm++]=k;
    }
    if(amb){ S.amb++; continue; }   /* the two readings of an embedded-NUL tag part differ: not judged */
    c=vorbis_comment_query_count(vc,(char*)T);
    if(c!=nm)fail("bad:query_count:%s:tag=%02x%02x(len%d):got%d!=%d",where,(unsigned char)T[0],T[0]?(unsigned char)T[1]:0,tl-1,c,nm);
    for(i=0;i<=n+1;i++){
      char *r=vorbis_comment_query(vc,(char*)T,i);
      S.queries++;
      if(r)nonnull++;
      if(i<nm){
        char *want=vc->user_comments[g_match[i]]+tl;
        if(r!=want){
          /* describe what came back: which entry (if any) does r point into? */
          int j,hit=-1; for(j=0;j<vc->comments;j++)if(r>=vc->user_comments[j]&&r<=vc->user_comments[j]+vc->comment_lengths[j]){ hit=j; break; }
          fail("bad:query_wrong_entry:%s:tag=%02x%02x(len%d):i=%d:got_%s%d:want_entry%d",where,(unsigned char)T[0],T[0]?(unsigned char)T[1]:0,tl-1,i,r?"entry":"NULL",hit,g_match[i]);
        }else{
          S.qnonnull++;
          if(memcmp(m[g_match[i]].p,ft,tl))S.qcase++;
          if(i>=1)S.qmulti++;
        }
      }else if(r){
        fail("bad:query_beyond_matches_not_null:%s:tag=%02x%02x(len%d):i=%d:matches=%d",where,(unsigned char)T[0],T[0]?(unsigned char)T[1]:0,tl-1,i,nm);
      }
    }
    if(nonnull!=c)fail("bad:count_ne_successful_queries:%s:tag=%02x%02x(len%d):count%d:nonnull%d",where,(unsigned char)T[0],T[0]?(unsigned char)T[1]:0,tl-1,c,nonnull);
  }
}

/* ------------------------------------------------------------ construction variants */
enum { V_STRUCT=0, V_ADD, V_TAGFIRST, V_TAGLAST };
static const char *VNAME[]={"struct","add","add_tag_first","add_tag_last"};

static void build_struct(vorbis_comment *vc,const ent *m,int n){
  int i;
  vorbis_comment_init(vc);
  vc->user_comments=(char**)malloc(sizeof(char*)*(n+1));
  vc->comment_lengths=(int*)malloc(sizeof(int)*(n+1));
  for(i=0;i<n;i++){
    vc->user_comments[i]=(char*)malloc(m[i].len+1);
    memcpy(vc->user_comments[i],m[i].p,m[i].len); vc->user_comments[i][m[i].len]=0;
    vc->comment_lengths[i]=m[i].len;
  }
  vc->user_comments[n]=NULL; vc->comment_lengths[n]=0; vc->comments=n;
}
/* the same list with exact-size, NOT zero-terminated buffers: "lengths are given explicitly"; any read past an entry is an ASan report */
static void build_exact(vorbis_comment *vc,const ent *m,int n){
  int i;
  vorbis_comment_init(vc);
  vc->user_comments=(char**)malloc(sizeof(char*)*(n?n:1));
  vc->comment_lengths=(int*)malloc(sizeof(int)*(n?n:1));
  for(i=0;i<n;i++){
    vc->user_comments[i]=(char*)malloc(m[i].len?m[i].len:1);
    memcpy(vc->user_comments[i],m[i].p,m[i].len);
    vc->comment_lengths[i]=m[i].len;
  }
  vc->comments=n;
}
static void free_struct(vorbis_comment *vc){
  int i; for(i=0;i<vc->comments;i++)free(vc->user_comments[i]);
  free(vc->user_comments); free(vc->comment_lengths); memset(vc,0,sizeof(*vc));
}
/* entries must be NUL-free; m[i].p[m[i].len]==0 is guaranteed by every generator */
static void build_api(vorbis_comment *vc,const ent *m,int n,int variant){
  int i;
  vorbis_comment_init(vc);
  for(i=0;i<n;i++){
    const unsigned char *eq=NULL;
    if(variant==V_TAGFIRST)eq=(const unsigned char*)memchr(m[i].p,'=',m[i].len);
    else if(variant==V_TAGLAST)eq=(const unsigned char*)memrchr(m[i].p,'=',m[i].len);
    if(eq){
      int tl=(int)(eq-m[i].p); char *tag=(char*)malloc(tl+1);
      memcpy(tag,m[i].p,tl); tag[tl]=0;
      vorbis_comment_add_tag(vc,tag,(const char*)eq+1);
      free(tag);
    }else vorbis_comment_add(vc,(const char*)m[i].p);
  }
}

static int compare_vc(vorbis_comment *vc,const ent *m,int n,const char *where,int want_vendor){
  int i;
  if(vc->comments!=n){ fail("bad:count_mismatch:%s:got%d!=%d",where,vc->comments,n); return 1; }
  if(n>0&&(!vc->user_comments||!vc->comment_lengths)){ fail("bad:null_arrays:%s",where); return 1; }
  for(i=0;i<n;i++){
    if(vc->comment_lengths[i]!=m[i].len){ fail("bad:length_mismatch:%s:entry%d:got%d!=%d",where,i,vc->comment_lengths[i],m[i].len); return 1; }
    if(!vc->user_comments[i]){ fail("bad:null_entry:%s:entry%d",where,i); return 1; }
    if(memcmp(vc->user_comments[i],m[i].p,m[i].len)){ fail("bad:bytes_mismatch:%s:entry%d",where,i); return 1; }
    if(vc->user_comments[i][m[i].len]!=0){ fail("bad:not_zero_terminated:%s:entry%d",where,i); return 1; }
  }
  if(want_vendor){
    if(!vc->vendor){ fail("bad:vendor_null:%s",where); return 1; }
    if(strcmp(vc->vendor,g_vendor)){ fail("bad:vendor_mismatch:%s:got_len%d",where,(int)strlen(vc->vendor)); return 1; }
  }
  return 0;
}

/* path 0: vorbis_analysis_headerout, path 1: vorbis_commentheader_out.  returns 0 if the round trip matched the model */
static int roundtrip(vorbis_comment *vc,const ent *m,int n,int path,int queries){
  ogg_packet op,opc,opk,idp; vorbis_info vi; vorbis_comment dc; int rc,bad=0;
  memset(&op,0,sizeof(op)); memset(&opc,0,sizeof(opc)); memset(&opk,0,sizeof(opk));
  g_path=path?"commentheader_out":"headerout";
  if(path==0){
    rc=vorbis_analysis_headerout(&g_vd,vc,&op,&opc,&opk);
    if(rc){ fail("bad:headerout:rc%d",rc); return 1; }
    idp=op;
  }else{
    rc=vorbis_commentheader_out(vc,&opc);
    if(rc){ fail("bad:commentheader_out:rc%d",rc); return 1; }
    memset(&idp,0,sizeof(idp)); idp.packet=g_id; idp.bytes=g_idlen; idp.b_o_s=1;
  }
  if(!opc.packet||opc.bytes<=0){ fail("bad:no_comment_packet"); return 1; }
  vorbis_info_init(&vi); vorbis_comment_init(&dc);
  rc=vorbis_synthesis_headerin(&vi,&dc,&idp);
  if(rc){ fail("bad:headerin_id:rc%d",rc); bad=1; }
  else{
    rc=vorbis_synthesis_headerin(&vi,&dc,&opc);
    if(rc){ fail("bad:headerin_comment:rc%d:packet%ldbytes",rc,(long)opc.bytes); bad=1; }
    else{
      bad=compare_vc(&dc,m,n,"decoded",1);
      if(!bad&&queries)check_queries(&dc,m,n,"decoded");
    }
  }
  vorbis_comment_clear(&dc); vorbis_info_clear(&vi);
  if(path==1)free(opc.packet);
  S.rts++;
  return bad;
}

static void trace_list(const ent *m,int n){
  char hl[700]; int o=snprintf(hl,80,"%s ",g_variant); o+=hexlist(hl+o,sizeof(hl)-o-2,m,n); hl[o++]='\n';
  if(pwrite(g_tracefd,hl,o,0)<0){} if(ftruncate(g_tracefd,o)<0){}
}

/* the per-list oracle */
static void check_list(const ent *m,int n,int mode){
  int i,nulfree=1,haseq=0,multieq=0,nulents=0,maxl=0,v; long f0=S.nfail; vorbis_comment vc;
  g_m=m; g_n=n;
  if(g_tracefd>=0)trace_list(m,n);
  for(i=0;i<n;i++){
    const unsigned char *e1;
    if(memchr(m[i].p,0,m[i].len)){ nulfree=0; nulents++; }
    e1=(const unsigned char*)memchr(m[i].p,'=',m[i].len);
    if(e1){ haseq=1; if(memrchr(m[i].p,'=',m[i].len)!=(void*)e1)multieq=1; }
    if(m[i].len>maxl)maxl=m[i].len;
  }
  S.lists++;
  for(v=V_STRUCT;v<=V_TAGLAST;v++){
    if(v!=V_STRUCT&&(mode!='f'||!nulfree))break;
    if(v==V_TAGFIRST&&!haseq)break;
    if(v==V_TAGLAST&&!multieq)break;
    g_variant=VNAME[v]; g_path="-";
    if(v==V_STRUCT)build_struct(&vc,m,n);
    else{
      build_api(&vc,m,n,v); S.api_variants++;
      if(compare_vc(&vc,m,n,"built",0)){ vorbis_comment_clear(&vc); continue; }
    }
    S.variants++;
    check_queries(&vc,m,n,"built");
    if(v==V_STRUCT){
      roundtrip(&vc,m,n,0,1);
      if(mode=='f'){
        vorbis_comment ex; build_exact(&ex,m,n); g_variant="struct_exact";
        roundtrip(&ex,m,n,1,0);
        free_struct(&ex);
      }
    }else{
      /* the API-built structure was just shown to hold exactly the model's counts, lengths and bytes; vorbis_analysis_headerout
         spends ~80% of its time re-packing the codebooks, so these variants take the stand-alone comment header path only */
      roundtrip(&vc,m,n,1,1);
    }
    if(v==V_STRUCT)free_struct(&vc); else vorbis_comment_clear(&vc);
  }
  g_variant="-"; g_path="-";
  if(S.nfail==f0){
    if(n>0)S.nontriv++;
    S.nul_rt+=nulents;               /* entries with embedded NUL that came back with their full length */
    if(maxl>65536)S.big_rt++;
    if(maxl>S.maxlen)S.maxlen=maxl;
  }
  S.nul_entries+=nulents;
}

/* ------------------------------------------------------------ call-sequence families */
static ent *g_seq; static int g_seqcap; static char g_vn[64];
static ent *seq_concat(const ent *a,int na,const ent *b,int nb){
  if(na+nb+1>g_seqcap){ g_seqcap=na+nb+64; g_seq=(ent*)realloc(g_seq,sizeof(ent)*g_seqcap); }
  if(na)memcpy(g_seq,a,sizeof(ent)*na); if(nb)memcpy(g_seq+na,b,sizeof(ent)*nb);
  return g_seq;
}
/* NUL-free entries through the public API: odd positions holding a '=' go through vorbis_comment_add_tag (split at the first '=') */
static void apply_adds(vorbis_comment *vc,const ent *m,int n){
  int i;
  for(i=0;i<n;i++){
    const unsigned char *eq=(i&1)?(const unsigned char*)memchr(m[i].p,'=',m[i].len):NULL;
    if(eq){
      int tl=(int)(eq-m[i].p); char *tag=(char*)malloc(tl+1);
      memcpy(tag,m[i].p,tl); tag[tl]=0;
      vorbis_comment_add_tag(vc,tag,(const char*)eq+1);
      free(tag);
    }else vorbis_comment_add(vc,(const char*)m[i].p);
  }
}
/* source vendors of the stream that the decoder-filled structure comes from: 0 = written by this library, 1.. = FOREIGN
   (comment header packed by hand below, independently of the library's bit packer) */
#define NVEND 6
static unsigned char g_v300[301];
static const unsigned char *vend_bytes(int V,int *len){
  switch(V){
    case 1: *len=40; return (const unsigned char*)"AcmeCodec 2.1 (definitely not libvorbis)";
    case 2: *len=0;  return (const unsigned char*)"";
    case 3: { int j; for(j=0;j<300;j++)g_v300[j]=(unsigned char)(0x21+j%94); g_v300[300]=0; *len=300; return g_v300; }
    case 4: *len=8;  return (const unsigned char*)"Foo\0bar\xff";             /* NUL and 0xff inside */
    default:*len=3;  return (const unsigned char*)"\xff\xfe\x80";
  }
}
static void put32(unsigned char **p,unsigned v){ (*p)[0]=v&255; (*p)[1]=(v>>8)&255; (*p)[2]=(v>>16)&255; (*p)[3]=(v>>24)&255; *p+=4; }
static unsigned char *handpack(const unsigned char *vend,int vlen,const ent *m,int n,long *bytes){
  long tot=7+4+vlen+4+1; int i; unsigned char *b,*p;
  for(i=0;i<n;i++)tot+=4+m[i].len;
  b=p=(unsigned char*)malloc(tot);
  *p++=3; memcpy(p,"vorbis",6); p+=6;
  put32(&p,vlen); memcpy(p,vend,vlen); p+=vlen;
  put32(&p,n);
  for(i=0;i<n;i++){ put32(&p,m[i].len); memcpy(p,m[i].p,m[i].len); p+=m[i].len; }
  *p++=1;
  *bytes=tot; return b;
}
/* EDIT: adds (na>=0; 0 = plain transcode) onto a decoder-filled structure whose stream had source vendor V, then re-written by this library */
static void seq_edit(const ent *base,int nb,const ent *add,int na,int mode,int V){
  ent *m=seq_concat(base,nb,add,na); int n=nb+na,rc,vlen=0; long f0=S.nfail; const unsigned char *vb=NULL; unsigned char *hp=NULL;
  vorbis_comment src,dec; vorbis_info vi; ogg_packet opc,idp;
  snprintf(g_vn,sizeof(g_vn),"edit:N=%d:V=%d",nb,V); g_variant=g_vn; g_path="-"; g_m=m; g_n=n;
  if(g_tracefd>=0)trace_list(m,n);
  S.seqs++;
  memset(&opc,0,sizeof(opc));
  if(V==0){
    build_exact(&src,base,nb);
    rc=vorbis_commentheader_out(&src,&opc);
    free_struct(&src);
    if(rc||!opc.packet){ fail("bad:commentheader_out:rc%d:base",rc); return; }
  }else{
    vb=vend_bytes(V,&vlen);
    hp=handpack(vb,vlen,base,nb,&opc.bytes); opc.packet=hp; opc.packetno=1;
  }
  memset(&idp,0,sizeof(idp)); idp.packet=g_id; idp.bytes=g_idlen; idp.b_o_s=1;
  vorbis_info_init(&vi); vorbis_comment_init(&dec);
  rc=vorbis_synthesis_headerin(&vi,&dec,&idp);
  if(!rc)rc=vorbis_synthesis_headerin(&vi,&dec,&opc);
  free(opc.packet);
  if(rc){ fail("bad:headerin_comment:rc%d:base",rc); vorbis_comment_clear(&dec); vorbis_info_clear(&vi); return; }
  if(!compare_vc(&dec,base,nb,"decoded_base",V==0)){
    /* the decoder reports the vendor that was in the packet (as a C string) */
    if(V>0&&(!dec.vendor||strcmp(dec.vendor,(const char*)vb)))fail("bad:source_vendor_not_reported:decoded_base");
    apply_adds(&dec,add,na);
    if(!compare_vc(&dec,m,n,"edited",V==0)){
      if(V>0&&(!dec.vendor||strcmp(dec.vendor,(const char*)vb)))fail("bad:source_vendor_changed_by_add:edited");
      check_queries(&dec,m,n,"edited");
      /* whatever the source said: a header written by THIS library carries the library's vendor string (roundtrip checks it) */
      roundtrip(&dec,m,n,1,1);
      if(mode=='f')roundtrip(&dec,m,n,0,0);
    }
  }
  vorbis_comment_clear(&dec); vorbis_info_clear(&vi);
  g_variant="-"; g_path="-";
  if(S.nfail==f0)S.seqok++;
}
/* REUSE: fill, clear, fill again without vorbis_comment_init */
static void seq_reuse(const ent *a,int na,const ent *b,int nb,int mode){
  ent *m=seq_concat(a,na,b,nb); long f0=S.nfail; vorbis_comment vc;
  snprintf(g_vn,sizeof(g_vn),"reuse:N=%d",na); g_variant=g_vn; g_path="-"; g_m=m; g_n=na+nb;
  if(g_tracefd>=0)trace_list(m,na+nb);
  S.seqs++;
  vorbis_comment_init(&vc);
  apply_adds(&vc,a,na);
  if(compare_vc(&vc,a,na,"first_fill",0))return;                 /* structure not trusted any more: leak it */
  if(roundtrip(&vc,a,na,1,0))return;
  g_path="-";
  vorbis_comment_clear(&vc);
  apply_adds(&vc,b,nb);
  if(compare_vc(&vc,b,nb,"refilled_after_clear",0))return;       /* ditto */
  check_queries(&vc,b,nb,"refilled_after_clear");
  roundtrip(&vc,b,nb,1,1);
  if(mode=='f')roundtrip(&vc,b,nb,0,0);
  vorbis_comment_clear(&vc);
  g_variant="-"; g_path="-";
  if(S.nfail==f0)S.seqok++;
}

/* ------------------------------------------------------------ enumeration */
typedef struct { unsigned char b[12]; int len; int excl; } str_t;
static str_t *g_S; static int g_ns;
static int parse_hex(const char *s,unsigned char *out,int cap){
  int n=0; if(!strcmp(s,"-"))return 0;
  while(s[0]&&s[1]&&n<cap){ unsigned v; if(sscanf(s,"%2x",&v)!=1)return -1; out[n++]=(unsigned char)v; s+=2; }
  return n;
}
static str_t *gen_table(const unsigned char *al,int na,int maxlen,const unsigned char *xal,int nxa,int xmaxlen,int nulfree_only,int *ns){
  long total=1,p=1; int l,i,j,n=0; long k; str_t *T;
  for(l=1;l<=maxlen;l++){ p*=na; total+=p; }
  T=(str_t*)calloc(total,sizeof(str_t));
  for(l=0;l<=maxlen;l++){
    long cnt=1; for(i=0;i<l;i++)cnt*=na;
    for(k=0;k<cnt;k++){
      str_t *s=&T[n]; long r=k; s->len=l;
      for(i=l-1;i>=0;i--){ s->b[i]=al[r%na]; r/=na; }
      s->b[l]=0;
      if(nulfree_only&&memchr(s->b,0,l))continue;
      s->excl=(nxa>=0&&l<=xmaxlen);
      if(s->excl)for(i=0;i<l;i++){ int in=0; for(j=0;j<nxa;j++)if(xal[j]==s->b[i])in=1; if(!in){ s->excl=0; break; } }
      n++;
    }
  }
  *ns=n; return T;
}
static void gen_strings(const unsigned char *al,int na,int maxlen,const unsigned char *xal,int nxa,int xmaxlen){
  free(g_S); g_S=gen_table(al,na,maxlen,xal,nxa,xmaxlen,0,&g_ns);
}
/* all lists of exactly n entries over table T (first entry index in [lo,hi)), handed to f together with the fixed other list */
static void prod_rec(ent *m,int pos,int n,const str_t *T,int nt,int lo,int hi,void (*f)(const ent*,int,void*),void *arg){
  int k,a=(pos==0)?lo:0,b=(pos==0)?(hi<nt?hi:nt):nt;
  if(pos==n){ f(m,n,arg); return; }
  for(k=a;k<b;k++){ m[pos].p=T[k].b; m[pos].len=T[k].len; prod_rec(m,pos+1,n,T,nt,lo,hi,f,arg); }
}
typedef struct { const ent *outer; int nouter; const str_t *T; int nt; int n; int mode; int kind; int V; } seqctx;
static void seq_inner(const ent *m,int n,void *arg){ seqctx *c=(seqctx*)arg; if(c->kind==0)seq_edit(c->outer,c->nouter,m,n,c->mode,c->V); else seq_reuse(c->outer,c->nouter,m,n,c->mode); }
static void seq_outer(const ent *m,int n,void *arg){ seqctx *c=(seqctx*)arg; ent in[8]; c->outer=m; c->nouter=n; prod_rec(in,0,c->n,c->T,c->nt,0,c->nt,seq_inner,c); }
static void enum_rec(ent *m,int pos,int n,int allx,int mode){
  int k;
  if(pos==n){ if(!(allx&&n>0))check_list(m,n,mode); return; }
  for(k=0;k<g_ns;k++){ m[pos].p=g_S[k].b; m[pos].len=g_S[k].len; enum_rec(m,pos+1,n,allx&&g_S[k].excl,mode); }
}

/* ------------------------------------------------------------ generated size extremes */
static unsigned char *arena; static long arena_len,arena_cap;
static unsigned char *ar_alloc(long n){ unsigned char *p; if(arena_len+n+1>arena_cap){ fprintf(stderr,"arena\n"); exit(2); } p=arena+arena_len; arena_len+=n+1; p[n]=0; return p; }
static void ar_reset(long cap){ if(cap>arena_cap){ free(arena); arena=(unsigned char*)malloc(cap); arena_cap=cap; } arena_len=0; }
static ent mk(const void *b,int len){ ent e; unsigned char *p=ar_alloc(len); memcpy(p,b,len); e.p=p; e.len=len; return e; }
static ent mkEn(int L){ ent e; unsigned char *p=ar_alloc(L); int j; for(j=0;j<L;j++)p[j]=(j==0)?'a':(j==1)?'=':(unsigned char)((j-2)%255+1); e.p=p; e.len=L; return e; }
static ent mkEz(int L){ ent e; unsigned char *p=ar_alloc(L); int j; for(j=0;j<L;j++)p[j]=(j==0)?'A':(j==1)?'=':(unsigned char)((j-2)%256); e.p=p; e.len=L; return e; }

static void sig_list(h128 *h,const ent *m,int n){ int i; h_i64(h,n); for(i=0;i<n;i++){ h_i64(h,m[i].len); h_bytes(h,m[i].p,m[i].len); } }

int main(int argc,char **argv){
  const char *cases=NULL; int i; FILE *cf; char *line=NULL; size_t lcap=0; int timeout=900;
  for(i=1;i<argc;i++){
    if(!strcmp(argv[i],"--cases"))cases=argv[++i];
    else if(!strcmp(argv[i],"--timeout"))timeout=atoi(argv[++i]);
    else if(!strcmp(argv[i],"--vendor"))g_vendor=argv[++i];
    else if(!strcmp(argv[i],"--trace"))g_tracefd=open(argv[++i],O_WRONLY|O_CREAT|O_TRUNC,0644);
  }
  if(!cases)return 2;
  cf=fopen(cases,"r"); if(!cf)return 2;
  signal(SIGVTALRM,on_alarm);
  /* one encoder for the vorbis_analysis_headerout path */
  vorbis_info_init(&g_evi);
  if(vorbis_encode_init_vbr(&g_evi,1,8000,0.3f)){ fprintf(stderr,"encode_init failed\n"); return 2; }
  if(vorbis_analysis_init(&g_vd,&g_evi)){ fprintf(stderr,"analysis_init failed\n"); return 2; }
  { vorbis_comment vc; ogg_packet a,b,c; vorbis_comment_init(&vc);
    if(vorbis_analysis_headerout(&g_vd,&vc,&a,&b,&c)){ fprintf(stderr,"headerout failed\n"); return 2; }
    g_idlen=a.bytes; g_id=(unsigned char*)malloc(g_idlen); memcpy(g_id,a.packet,g_idlen); vorbis_comment_clear(&vc); }

  while(getline(&line,&lcap,cf)>0){
    char *sv,*tok,*kind,*loc; long idx; int mode='f'; struct itimerval it; h128 sig; char sighex[40]; int have_sig=0;
    tok=strtok_r(line," \n",&sv); if(!tok)continue; idx=atol(tok); g_cur=idx;
    kind=strtok_r(NULL," \n",&sv); if(!kind){ printf("%ld BADCASE\n",idx); fflush(stdout); continue; }
    memset(&S,0,sizeof(S)); g_first[0]=0; g_tags=TAGS10; g_ntags=10; h_init(&sig);
    if(!strcmp(kind,"probe")){
      loc=strtok_r(NULL," \n",&sv);
      int how=loc?set_loc(loc):0;
      if(how){ printf("%ld ok category=%s toupper_i=%02x tolower_I=%02x toupper_e9=%02x\n",idx,how==2?"LC_ALL":"LC_CTYPE",(unsigned)toupper('i')&0xff,(unsigned)tolower('I')&0xff,(unsigned)toupper(0xe9)&0xff); setlocale(LC_ALL,"C"); }
      else printf("%ld nolocale\n",idx);
      fflush(stdout); continue;
    }
    tok=strtok_r(NULL," \n",&sv); mode=tok?tok[0]:'f';
    loc=strtok_r(NULL," \n",&sv);
    if(!loc||!set_loc(loc)){ printf("%ld nolocale\n",idx); fflush(stdout); continue; }
    memset(&it,0,sizeof(it)); it.it_value.tv_sec=timeout; setitimer(ITIMER_VIRTUAL,&it,NULL);

    if(!strcmp(kind,"enum")){
      unsigned char al[64],xal[64]; int na,nxa=-1,maxlen,n,lo,hi,xmaxlen=0; char *a1,*a2; ent m[8]; int k;
      a1=strtok_r(NULL," \n",&sv); maxlen=atoi(strtok_r(NULL," \n",&sv)); n=atoi(strtok_r(NULL," \n",&sv));
      lo=atoi(strtok_r(NULL," \n",&sv)); hi=atoi(strtok_r(NULL," \n",&sv)); a2=strtok_r(NULL," \n",&sv); tok=strtok_r(NULL," \n",&sv); xmaxlen=tok?atoi(tok):0;
      na=parse_hex(a1,al,64); if(a2&&strcmp(a2,"-"))nxa=parse_hex(a2,xal,64);
      if(na<=0||maxlen>8||n>8||n<0){ printf("%ld BADCASE\n",idx); fflush(stdout); continue; }
      gen_strings(al,na,maxlen,xal,nxa,xmaxlen);
      if(n==0){ if(lo==0)check_list(m,0,mode); }
      else for(k=lo;k<hi&&k<g_ns;k++){ m[0].p=g_S[k].b; m[0].len=g_S[k].len; enum_rec(m,1,n,g_S[k].excl,mode); }
    }else if(!strcmp(kind,"editgrid")||!strcmp(kind,"reusegrid")){
      static const unsigned char A6[6]={0x61,0x41,0x3d,0x00,0xe9,0x69};
      int lo_=atoi(strtok_r(NULL," \n",&sv)),hi_=atoi(strtok_r(NULL," \n",&sv)),kmax=atoi(strtok_r(NULL," \n",&sv)),ed=!strcmp(kind,"editgrid"); char *vt=strtok_r(NULL," \n",&sv); int V=vt?atoi(vt):0;
      int nall,nnf,N,K,i; str_t *ALL=gen_table(A6,6,3,NULL,-1,0,0,&nall),*NF=gen_table(A6,6,3,NULL,-1,0,1,&nnf);
      ent *a=(ent*)malloc(sizeof(ent)*(hi_+2)),*b=(ent*)malloc(sizeof(ent)*(kmax+2));
      for(N=lo_;N<=hi_;N++)for(K=0;K<=kmax;K++){
        for(i=0;i<N;i++){ const str_t *t=ed?&ALL[(i*37+N*11+K)%nall]:&NF[(i*37+N*11+K)%nnf]; a[i].p=t->b; a[i].len=t->len; }
        for(i=0;i<K;i++){ const str_t *t=&NF[(i*13+N+K*5)%nnf]; b[i].p=t->b; b[i].len=t->len; }
        if(ed)seq_edit(a,N,b,K,mode,V); else seq_reuse(a,N,b,K,mode);
      }
      free(a); free(b); free(ALL); free(NF);
    }else if(!strcmp(kind,"editenum")||!strcmp(kind,"reuseenum")){
      unsigned char al[64]; int na,l1,n1,l2,n2,lo,hi,nt1,nt2,ed=!strcmp(kind,"editenum"); char *a1; str_t *T1,*T2; seqctx c; ent out[8];
      a1=strtok_r(NULL," \n",&sv); l1=atoi(strtok_r(NULL," \n",&sv)); n1=atoi(strtok_r(NULL," \n",&sv)); l2=atoi(strtok_r(NULL," \n",&sv)); n2=atoi(strtok_r(NULL," \n",&sv));
      lo=atoi(strtok_r(NULL," \n",&sv)); hi=atoi(strtok_r(NULL," \n",&sv));
      { char *vt=strtok_r(NULL," \n",&sv); memset(&c,0,sizeof(c)); c.V=vt?atoi(vt):0; }
      na=parse_hex(a1,al,64);
      if(na<=0||l1>8||l2>8||n1>7||n2>7||n1<0||n2<0){ printf("%ld BADCASE\n",idx); fflush(stdout); continue; }
      T1=gen_table(al,na,l1,NULL,-1,0,ed?0:1,&nt1); T2=gen_table(al,na,l2,NULL,-1,0,1,&nt2);
      c.T=T2; c.nt=nt2; c.n=n2; c.mode=mode; c.kind=ed?0:1;
      if(n1==0){ if(lo==0)seq_outer(out,0,&c); }
      else prod_rec(out,0,n1,T1,nt1,lo,hi,seq_outer,&c);
      free(T1); free(T2);
    }else if(!strcmp(kind,"edit1")||!strcmp(kind,"reuse1")){
      int N=atoi(strtok_r(NULL," \n",&sv)); char *ls=strtok_r(NULL," \n",&sv); char *vt=strtok_r(NULL," \n",&sv); int V=vt?atoi(vt):0; ent *m; int n=0,cap=1; char *p,*q,*sv2;
      if(!ls){ printf("%ld BADCASE\n",idx); fflush(stdout); continue; }
      for(p=ls;*p;p++)if(*p==',')cap++;
      m=(ent*)malloc(sizeof(ent)*(cap+1)); ar_reset((long)strlen(ls)+cap*2+64);
      if(strcmp(ls,"."))for(q=strtok_r(ls,",",&sv2);q;q=strtok_r(NULL,",",&sv2)){
        int l=(int)strlen(q)/2; unsigned char *bb=ar_alloc(l); l=parse_hex(q,bb,l+1); if(l<0)l=0; bb[l]=0; m[n].p=bb; m[n].len=l; n++;
      }
      if(N>n)N=n;
      { ent *first=(ent*)malloc(sizeof(ent)*(N+1)),*rest=(ent*)malloc(sizeof(ent)*(n-N+1)); memcpy(first,m,sizeof(ent)*N); memcpy(rest,m+N,sizeof(ent)*(n-N));
        if(!strcmp(kind,"edit1"))seq_edit(first,N,rest,n-N,mode,V); else seq_reuse(first,N,rest,n-N,mode);
        free(first); free(rest); }
      free(m);
    }else if(!strcmp(kind,"one")){
      char *ls=strtok_r(NULL," \n",&sv); ent *m; int n=0,cap=1; char *p,*q,*sv2;
      if(!ls){ printf("%ld BADCASE\n",idx); fflush(stdout); continue; }
      for(p=ls;*p;p++)if(*p==',')cap++;
      m=(ent*)malloc(sizeof(ent)*(cap+1)); ar_reset((long)strlen(ls)+cap*2+64);
      if(strcmp(ls,"."))for(q=strtok_r(ls,",",&sv2);q;q=strtok_r(NULL,",",&sv2)){
        int l=(int)strlen(q)/2; unsigned char *b=ar_alloc(l); l=parse_hex(q,b,l+1); if(l<0)l=0; b[l]=0; m[n].p=b; m[n].len=l; n++;
      }
      check_list(m,n,mode); sig_list(&sig,m,n); have_sig=1;
      free(m);
    }else if(!strcmp(kind,"count")||!strcmp(kind,"countz")){
      int N=atoi(strtok_r(NULL," \n",&sv)),z=!strcmp(kind,"countz"),k; ent *m=(ent*)malloc(sizeof(ent)*(N+1)); char b[64];
      ar_reset((long)N*40+64);
      for(k=0;k<N;k++){
        int l;
        if(!z)switch(k%8){
          case 0: l=sprintf(b,"TITLE=t%d",k); break; case 1: l=sprintf(b,"a=%d",k); break; case 2: l=sprintf(b,"A=%d",k); break;
          case 3: l=0; b[0]=0; break; case 4: l=sprintf(b,"I=\xe9%d",k); break; case 5: l=sprintf(b,"aa=%d",k); break;
          case 6: l=sprintf(b,"a==%d",k); break; default: l=sprintf(b,"\xc9=%d",k); break; }
        else switch(k%4){
          case 0: l=sprintf(b,"a=_%d",k); b[2]=0; break;          /* NUL inside the value */
          case 1: l=sprintf(b,"A_=%d",k); b[1]=0; break;          /* NUL inside the tag part */
          case 2: l=1; b[0]=0; break;                              /* a single NUL byte */
          default: l=sprintf(b,"a=%d_",k); b[l-1]=0; break; }     /* trailing NUL counted in the length */
        m[k]=mk(b,l);
      }
      check_list(m,N,mode); sig_list(&sig,m,N); have_sig=1; free(m);
    }else if(!strcmp(kind,"len")){
      int L=atoi(strtok_r(NULL," \n",&sv)); ent m[3];
      ar_reset(4L*L+64);
      m[0]=mkEn(L); check_list(m,1,mode); sig_list(&sig,m,1);
      m[0]=mkEz(L); check_list(m,1,mode); sig_list(&sig,m,1);
      m[0]=mkEn(L); m[1]=mk("",0); m[2]=mkEz(L); check_list(m,3,mode); sig_list(&sig,m,3); have_sig=1;
    }else if(!strcmp(kind,"all256")){
      unsigned char b[300]; ent m[2]; int j;
      ar_reset(4096);
      for(j=0;j<256;j++)b[j]=(unsigned char)j; m[0]=mk(b,256); check_list(m,1,mode); sig_list(&sig,m,1);
      b[0]='a'; b[1]='='; for(j=0;j<256;j++)b[2+j]=(unsigned char)j; m[0]=mk(b,258); check_list(m,1,mode); sig_list(&sig,m,1);
      for(j=0;j<255;j++)b[j]=(unsigned char)(j+1); m[0]=mk(b,255); check_list(m,1,mode); sig_list(&sig,m,1);   /* NUL-free: goes through vorbis_comment_add too */
      for(j=0;j<256;j++)b[j]=(unsigned char)(255-j); m[0]=mk(b,256); m[1]=mk(b,128); check_list(m,2,mode); sig_list(&sig,m,2); have_sig=1;
    }else if(!strcmp(kind,"longtag")){
      /* tag T of L characters; pool of entries around it; every ordered choice of 3 distinct pool entries; queried with T and its relatives */
      int L=atoi(strtok_r(NULL," \n",&sv)),j,np=0,nt=0,a,b2,c2; char *T,*Tc,*Tl,*Tlc,*Tx,*P126=NULL,*P127=NULL,*Pm1; ent pool[10]; static const char *tags[12]; ent m[10];
      if(L<1){ printf("%ld BADCASE\n",idx); fflush(stdout); setlocale(LC_ALL,"C"); continue; }
      ar_reset(24L*(L+16)+4096);
#define LT_NEW(len) ((char*)ar_alloc((len)))
      T=LT_NEW(L); for(j=0;j<L;j++)T[j]=(j%5==4)?(char)('0'+j%10):(char)('a'+(j*7+3)%26); T[L-1]='k';
      Tc=LT_NEW(L); for(j=0;j<L;j++)Tc[j]=(T[j]>='a'&&T[j]<='z')?T[j]-32:T[j];          /* differs only in case (every letter) */
      Tlc=LT_NEW(L); memcpy(Tlc,T,L); Tlc[L-1]='K';                                        /* differs only in the case of the last character */
      Tl=LT_NEW(L); memcpy(Tl,T,L); Tl[L-1]='m';                                           /* differs only in the last character */
      Tx=LT_NEW(L+1); memcpy(Tx,T,L); Tx[L]='x';                                           /* one character longer */
      Pm1=LT_NEW(L-1); memcpy(Pm1,T,L-1);                                                  /* one character shorter */
      if(L>126){ P126=LT_NEW(126); memcpy(P126,T,126); }
      if(L>127){ P127=LT_NEW(127); memcpy(P127,T,127); }
#define LT_ENT(tag,tlen,val) do{ unsigned char *e=ar_alloc((tlen)+3); memcpy(e,tag,tlen); e[tlen]='='; e[(tlen)+1]='v'; e[(tlen)+2]=(unsigned char)(val); pool[np].p=e; pool[np].len=(tlen)+3; np++; }while(0)
      LT_ENT(T,L,'0'); LT_ENT(Tc,L,'1'); if(P126)LT_ENT(P126,126,'2'); if(P127)LT_ENT(P127,127,'3'); LT_ENT(Tl,L,'4');
      if(L<=256){ LT_ENT(Tlc,L,'5'); LT_ENT(Tx,L+1,'6'); LT_ENT(Pm1,L-1,'7'); }
      tags[nt++]=T; tags[nt++]=Tc; tags[nt++]=Tl; tags[nt++]=Tx; tags[nt++]=Pm1; if(P126)tags[nt++]=P126; if(P127)tags[nt++]=P127;
      g_tags=tags; g_ntags=nt;
      for(a=0;a<np;a++)for(b2=0;b2<np;b2++)for(c2=0;c2<np;c2++){
        if(a==b2||a==c2||b2==c2)continue;
        m[0]=pool[a]; m[1]=pool[b2]; m[2]=pool[c2]; check_list(m,3,mode); sig_list(&sig,m,3);
      }
      check_list(pool,np,mode); sig_list(&sig,pool,np); have_sig=1;
    }else if(!strcmp(kind,"fold256")){
      static char tagbuf[256][2]; static const char *tags[300]; ent m[256]; int j,nt=0; unsigned char b[4];
      ar_reset(4096);
      for(j=0;j<256;j++){ b[0]=(unsigned char)j; b[1]='='; b[2]='v'; m[j]=mk(b,3); }
      for(j=1;j<256;j++){ tagbuf[j][0]=(char)j; tagbuf[j][1]=0; tags[nt++]=tagbuf[j]; }
      g_tags=tags; g_ntags=nt;
      check_list(m,256,mode); sig_list(&sig,m,256); have_sig=1;
    }else{ printf("%ld BADCASE\n",idx); fflush(stdout); setlocale(LC_ALL,"C"); continue; }

    memset(&it,0,sizeof(it)); setitimer(ITIMER_VIRTUAL,&it,NULL);
    setlocale(LC_ALL,"C");
    if(have_sig)h_hex(&sig,sighex); else strcpy(sighex,"-");
    if(S.nfail)printf("%ld %s nfail=%ld first=%s",idx,g_first,S.nfail,g_firstlist);
    else printf("%ld ok",idx);
    printf(" lists=%ld nontriv=%ld variants=%ld api=%ld rts=%ld queries=%ld qnonnull=%ld qcase=%ld qmulti=%ld nulents=%ld nulrt=%ld big=%ld amb=%ld maxlen=%d seqs=%ld seqok=%ld sig=%s\n",
           S.lists,S.nontriv,S.variants,S.api_variants,S.rts,S.queries,S.qnonnull,S.qcase,S.qmulti,S.nul_entries,S.nul_rt,S.big_rt,S.amb,S.maxlen,S.seqs,S.seqok,sighex);
    fflush(stdout);
  }
  return 0;
}
