/* vorbisfile executor support: file table, linear reference decode, canonical state hash */
#ifndef VFCOMMON_H
#define VFCOMMON_H
#include "common.h"
#include "codec_internal.h"

#define MAXFILES 64
#define MAXLINKS 16
typedef struct {
  int nlinks;
  long start[MAXLINKS+1];     /* global full-rate start position of each link (from REF's own observations) */
  long len[MAXLINKS];         /* samples delivered for the link */
  int ch[MAXLINKS];
  float **pcm[MAXLINKS];      /* [link][ch][sample] */
  long total;
  int ok;                     /* reference decode clean (no negative returns) */
  int holes;
  long tell_errors;           /* linear decode: tell != running count */
} refdec;
typedef struct {
  char path[512];
  unsigned char *data; long len;
  refdec ref;                 /* full-rate linear decode */
  refdec href;                /* half-rate linear decode (ok=0 if refused) */
  int have_ref, have_href;
  long pcm_total; int links; long link_total[MAXLINKS]; long link_rate[MAXLINKS];
} vfile;
static vfile g_files[MAXFILES]; static int g_nfiles=0;

static void load_files(const char *list){
  FILE *f=fopen(list,"r"); char line[600];
  if(!f){ fprintf(stderr,"no file list %s\n",list); exit(2); }
  while(fgets(line,sizeof(line),f)){
    size_t n=strlen(line); while(n&&(line[n-1]=='\n'||line[n-1]==' '))line[--n]=0;
    if(!n)continue;
    if(g_nfiles>=MAXFILES){ fprintf(stderr,"too many files\n"); exit(2); }
    strcpy(g_files[g_nfiles].path,line);
    g_files[g_nfiles].data=load_file(line,&g_files[g_nfiles].len);
    g_nfiles++;
  }
  fclose(f);
}

/* linear decode through a fresh seekable handle */
static void ref_decode(vfile *vf_,refdec *r,int half){
  OggVorbis_File vf; memio m; int i; long cap[MAXLINKS];
  memset(r,0,sizeof(*r));
  mio_init(&m,vf_->data,vf_->len);
  if(ov_open_callbacks(&m,&vf,NULL,0,mio_cb_seekable)<0){ r->ok=0; return; }
  if(half){ if(ov_halfrate(&vf,1)){ r->ok=0; ov_clear(&vf); return; } }
  r->ok=1;
  r->nlinks=ov_streams(&vf);
  if(r->nlinks>MAXLINKS){ fprintf(stderr,"too many links\n"); exit(2); }
  if(!half){
    vf_->links=r->nlinks; vf_->pcm_total=(long)ov_pcm_total(&vf,-1);
    for(i=0;i<r->nlinks;i++){ vf_->link_total[i]=(long)ov_pcm_total(&vf,i); vf_->link_rate[i]=ov_info(&vf,i)->rate; }
  }
  for(i=0;i<r->nlinks;i++){
    int c; r->ch[i]=ov_info(&vf,i)->channels; cap[i]=(long)ov_pcm_total(&vf,i)+16;
    r->pcm[i]=(float**)__real_malloc(sizeof(float*)*r->ch[i]);
    for(c=0;c<r->ch[i];c++)r->pcm[i][c]=(float*)__real_malloc(sizeof(float)*cap[i]);
    r->len[i]=0;
  }
  {
    long start=0;
    for(i=0;i<r->nlinks;i++){ r->start[i]=start; start+=vf_->link_total[i]; }
    r->start[r->nlinks]=start;
  }
  while(1){
    float **pcm; int bs=-1; long t0=(long)ov_pcm_tell(&vf);
    long n=ov_read_float(&vf,&pcm,4096,&bs);
    if(n==0)break;
    if(n<0){ r->ok=0; if(n==OV_HOLE){ r->holes++; continue; } break; }
    if(bs<0||bs>=r->nlinks){ r->ok=0; break; }
    {
      int c; long idx=r->len[bs];
      /* position bookkeeping: tell before the read must equal link start + delivered<<hs */
      if(t0!=r->start[bs]+(idx<<half))r->tell_errors++;
      if(idx+n>cap[bs]){ r->ok=0; break; }
      for(c=0;c<r->ch[bs];c++)memcpy(r->pcm[bs][c]+idx,pcm[c],sizeof(float)*n);
      r->len[bs]+=n;
      if((long)ov_pcm_tell(&vf)!=t0+(n<<half))r->tell_errors++;
    }
  }
  r->total=0; for(i=0;i<r->nlinks;i++)r->total+=r->len[i];
  ov_clear(&vf);
}
static void need_ref(vfile *f){ if(!f->have_ref){ ref_decode(f,&f->ref,0); f->have_ref=1; } }
static void need_href(vfile *f){ need_ref(f); if(!f->have_href){ ref_decode(f,&f->href,1); f->have_href=1; } }

/* canonical state hash of an OggVorbis_File; see DESIGN.md 2.6 / C07 for the argument */
static void vf_state_hash(OggVorbis_File *vf,memio *m,h128 *h){
  int i;
  h_tag(h,"vf");
  h_i64(h,vf->ready_state); h_i64(h,vf->seekable); h_i64(h,vf->links);
  if(vf->ready_state<OPENED)return;
  h_i64(h,vf->offset); h_i64(h,vf->end); h_i64(h,vf->pcm_offset);
  h_i64(h,m?m->pos:-1);
  if(vf->ready_state>=STREAMSET||1){ h_i64(h,vf->current_link); h_i64(h,vf->current_serialno); }
  if(vf->vi&&vf->vi->codec_setup)h_i64(h,((codec_setup_info*)vf->vi->codec_setup)->halfrate_flag);
  /* ogg_sync_state: live bytes only */
  h_tag(h,"oy");
  h_i64(h,vf->oy.fill-vf->oy.returned); h_i64(h,vf->oy.unsynced); h_i64(h,vf->oy.headerbytes); h_i64(h,vf->oy.bodybytes);
  if(vf->oy.data&&vf->oy.fill>vf->oy.returned)h_bytes(h,vf->oy.data+vf->oy.returned,vf->oy.fill-vf->oy.returned);
  /* ogg_stream_state: live ranges */
  h_tag(h,"os");
  {
    ogg_stream_state *os=&vf->os;
    h_i64(h,os->body_fill-os->body_returned);
    if(os->body_data&&os->body_fill>os->body_returned)h_bytes(h,os->body_data+os->body_returned,os->body_fill-os->body_returned);
    h_i64(h,os->lacing_fill-os->lacing_returned); h_i64(h,os->lacing_packet-os->lacing_returned);
    for(i=os->lacing_returned;i<os->lacing_fill;i++){ h_i64(h,os->lacing_vals[i]); h_i64(h,os->granule_vals[i]); }
    h_i64(h,os->e_o_s); h_i64(h,os->b_o_s); h_i64(h,os->serialno); h_i64(h,os->pageno); h_i64(h,os->granulepos);
  }
  if(vf->ready_state==INITSET){
    vorbis_dsp_state *v=&vf->vd; codec_setup_info *ci=(codec_setup_info*)v->vi->codec_setup; private_state *b=(private_state*)v->backend_state;
    int hs=ci->halfrate_flag; int n1=ci->blocksizes[1]>>(hs+1);
    h_tag(h,"vd");
    h_i64(h,v->W); h_i64(h,v->granulepos); h_i64(h,v->eofflag); h_i64(h,b->sample_count);
    /* packet sequence matters only relative to the stream's running counter */
    h_i64(h,v->sequence==-1?-1:(int64_t)(vf->os.packetno-v->sequence));
    if(v->pcm_returned==-1)h_i64(h,-1);
    else{
      int n=ci->blocksizes[v->W]>>(hs+1); int c; long sv=n1-v->centerW;
      h_i64(h,v->lW); h_i64(h,v->pcm_current-v->pcm_returned);
      for(c=0;c<v->vi->channels;c++){
        if(v->pcm_current>v->pcm_returned)h_bytes(h,v->pcm[c]+v->pcm_returned,sizeof(float)*(v->pcm_current-v->pcm_returned));
        h_bytes(h,v->pcm[c]+sv,sizeof(float)*n);
      }
    }
  }else{
    h_tag(h,"novd");
  }
}
#endif
