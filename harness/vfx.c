/* vfx: vorbisfile executor.  Replays one operation history per case on a FRESH real
 * OggVorbis_File over a scripted in-memory data source and reports observations.
 *
 * usage: vfx --files list.txt --cases cases.txt [--timeout s]
 * case line:  <idx> <file#> <mode s|n|t> <env> <probe> op op ...
 *   env:   '-' or ';'-separated items: cap=N | k:kind:arg:persist
 *   probe: none | plin | misc
 *   ops:   rf<n> ri<n> ps<p> pp<p> rs<o> ts<sec> tp<sec> PS PP RS TS TP (lapped) h0 h1 q bi x<i> cl
 * output: <idx> O=<openrc> R=rc:tell,... H=<hash> T=<tell> P=<probe> E=<points> D=<devhits> C=<closes> F=<flags>
 */
#include "vfcommon.h"
#include <math.h>

static volatile long g_cur_idx=-1;
static void on_alarm(int s){
  char b[64]; int n=snprintf(b,sizeof(b),"%ld TIMEOUT\n",g_cur_idx);
  fflush(stdout); if(write(1,b,n)<0){} _exit(3);
}

typedef struct { char flags[512]; } fl_t;
static void addflag(fl_t *f,const char *s){ if(strlen(f->flags)+strlen(s)+2<sizeof(f->flags)){ if(f->flags[0])strcat(f->flags,","); strcat(f->flags,s); } }

static void parse_env(memio *m,char *env){
  char *t,*sv;
  if(!strcmp(env,"-"))return;
  for(t=strtok_r(env,";",&sv);t;t=strtok_r(NULL,";",&sv)){
    if(!strncmp(t,"cap=",4))m->cap=atol(t+4);
    else{
      mio_dev *d=&m->dev[m->ndev]; long a=0,b=0,c=0,e=0;
      if(sscanf(t,"%ld:%ld:%ld:%ld",&a,&b,&c,&e)>=2&&m->ndev<8){ d->idx=a; d->kind=(int)b; d->arg=c; d->persist=(int)e; m->ndev++; }
    }
  }
}

/* read-through probe: everything read from here must equal the linear reference at tell */
static void probe_plin(OggVorbis_File *vf,vfile *F,char *out,size_t outn){
  int hs=(vf->vi&&vf->vi->codec_setup)?((codec_setup_info*)vf->vi->codec_setup)->halfrate_flag:0;
  refdec *r; long nread=0; long T0;
  if(hs){ need_href(F); r=&F->href; } else { need_ref(F); r=&F->ref; }
  T0=(long)ov_pcm_tell(vf);
  if(!r->ok){ snprintf(out,outn,"noref"); return; }
  {
    /* expected remaining samples: from T0 to the end */
    long expect=0,pos=T0; int l;
    if(T0<0){ snprintf(out,outn,"bad:negtell:%ld",T0); return; }
    while(1){
      float **pcm; int bs=-1; long t=(long)ov_pcm_tell(vf);
      long n=ov_read_float(vf,&pcm,4096,&bs);
      long idx; int c;
      if(n==0)break;
      if(n<0){ snprintf(out,outn,"bad:readerr%ld:%ld",n,t); return; }
      if(bs<0||bs>=r->nlinks){ snprintf(out,outn,"bad:link%d:%ld",bs,t); return; }
      if(t<r->start[bs]){ snprintf(out,outn,"bad:tellbeforelink%d:%ld",bs,t); return; }
      if(hs&&((t-r->start[bs])&1)){ snprintf(out,outn,"bad:oddtell:%ld",t); return; }
      idx=(t-r->start[bs])>>hs;
      if(idx+n>r->len[bs]){ snprintf(out,outn,"bad:overrun:%ld:link%d:idx%ld+%ld>%ld",t,bs,idx,n,r->len[bs]); return; }
      if(ov_info(vf,-1)->channels!=r->ch[bs]){ snprintf(out,outn,"bad:channels:%ld",t); return; }
      for(c=0;c<r->ch[bs];c++){
        if(memcmp(pcm[c],r->pcm[bs][c]+idx,sizeof(float)*n)){
          long k; for(k=0;k<n;k++)if(memcmp(&pcm[c][k],&r->pcm[bs][c][idx+k],4))break;
          snprintf(out,outn,"bad:pcm:%ld:link%d:ch%d:off%ld",t,bs,c,k); return;
        }
      }
      if((long)ov_pcm_tell(vf)!=t+(n<<hs)){ snprintf(out,outn,"bad:advance:%ld:%ld->%ld",t,n,(long)ov_pcm_tell(vf)); return; }
      /* continuity: the chunk must start where the reference says the previous one ended */
      if(nread>0||1){
        if(t!=pos){
          /* allowed only at a link boundary in half-rate mode with an odd link length */
          int okb=0; for(l=1;l<r->nlinks;l++)if(t==r->start[l]&&hs&&pos==t+1)okb=1;
          if(!okb){ snprintf(out,outn,"bad:discont:%ld:expected%ld",t,pos); return; }
        }
      }
      pos=t+(n<<hs); nread+=n;
    }
    /* must have reached the end of the reference */
    {
      /* remaining = all reference samples at positions >= T0 */
      for(l=0;l<r->nlinks;l++){
        long s=r->start[l],e; long li0;
        if(T0<=s)li0=0; else li0=(T0-s+hs)>>hs;
        e=r->len[l]; if(li0<e)expect+=e-li0;
      }
      if(nread!=expect){ snprintf(out,outn,"bad:count:%ld:read%ld:expected%ld",T0,nread,expect); return; }
    }
    snprintf(out,outn,"ok:%ld",nread);
  }
}

/* concatenation probe (works for streaming handles too): everything read from here to the
 * end must be the tail of the reference, link by link; positions must be non-negative and advance by 1<<hs per sample inside a link */
static void probe_pcat(OggVorbis_File *vf,vfile *F,char *out,size_t outn){
  int hs=(vf->vi&&vf->vi->codec_setup)?((codec_setup_info*)vf->vi->codec_setup)->halfrate_flag:0;
  refdec *r; long nread=0; int curlink=-1; long idx=0; int lastbs=-1; int holes=0;
  if(hs){ need_href(F); r=&F->href; } else { need_ref(F); r=&F->ref; }
  if(!r->ok){ snprintf(out,outn,"noref"); return; }
  { long t0=(long)ov_pcm_tell(vf); if(t0<0){ snprintf(out,outn,"bad:negtell_before_read:%ld",t0); return; } }
  while(1){
    float **pcm; int bs=-1; long tb=(long)ov_pcm_tell(vf); long n=ov_read_float(vf,&pcm,4096,&bs); int c; long ta=(long)ov_pcm_tell(vf);
    if(n==0)break;
    if(n==OV_HOLE){ holes++; if(holes>1000)break; continue; }
    if(n<0){ snprintf(out,outn,"bad:readerr%ld:%ld",n,nread); return; }
    /* positions: full-rate units, advancing by 1<<hs per sample returned (judged when the read stayed inside one link) */
    /* (first link only: on a streaming handle a later link's positions are re-anchored by its first page with a granule position, full rate or not) */
    if(curlink<=0&&(lastbs<0||bs==lastbs)&&ta!=tb+(n<<hs)){ snprintf(out,outn,"bad:advance:%ld+%ld->%ld",tb,n,ta); return; }
    if(ta<0||(hs&&curlink<=0&&(tb&1))){ snprintf(out,outn,"bad:tell:%ld->%ld",tb,ta); return; }
    if(bs!=lastbs){ curlink++; idx=0; lastbs=bs; while(curlink<r->nlinks&&r->len[curlink]==0)curlink++; }
    if(curlink>=r->nlinks){ snprintf(out,outn,"bad:extralink:%ld",nread); return; }
    if(ov_info(vf,-1)->channels!=r->ch[curlink]){ snprintf(out,outn,"bad:channels:%ld",nread); return; }
    if(idx+n>r->len[curlink]){ snprintf(out,outn,"bad:overrun:link%d:%ld+%ld>%ld",curlink,idx,n,r->len[curlink]); return; }
    for(c=0;c<r->ch[curlink];c++)if(memcmp(pcm[c],r->pcm[curlink][c]+idx,sizeof(float)*n)){ snprintf(out,outn,"bad:pcm:link%d:idx%ld",curlink,idx); return; }
    idx+=n; nread+=n;
  }
  if(holes){ snprintf(out,outn,"bad:holes%d:%ld",holes,nread); return; }
  if(nread!=r->total){ snprintf(out,outn,"bad:count:read%ld:expected%ld",nread,r->total); return; }
  snprintf(out,outn,"ok:%ld",nread);
}

static long misc_calls(OggVorbis_File *vf,int i,h128 *h){
  vorbis_info *vi; vorbis_comment *vc; long bad=0;
  h_i64(h,ov_streams(vf)); h_i64(h,ov_seekable(vf));
  h_i64(h,ov_bitrate(vf,i)); h_i64(h,ov_serialnumber(vf,i));
  h_i64(h,ov_raw_total(vf,i)); h_i64(h,ov_pcm_total(vf,i));
  { double t=ov_time_total(vf,i); h_bytes(h,&t,sizeof(t)); }
  h_i64(h,ov_raw_tell(vf)); h_i64(h,ov_pcm_tell(vf));
  { double t=ov_time_tell(vf); h_bytes(h,&t,sizeof(t)); }
  h_i64(h,ov_halfrate_p(vf));
  vi=ov_info(vf,i); if(vi){ h_i64(h,vi->channels); h_i64(h,vi->rate); }
  vc=ov_comment(vf,i); if(vc){ int k; h_i64(h,vc->comments); for(k=0;k<vc->comments;k++)h_bytes(h,vc->user_comments[k],vc->comment_lengths[k]); if(vc->vendor)h_tag(h,vc->vendor); }
  return bad;
}

int main(int argc,char **argv){
  const char *files=NULL,*cases=NULL; int timeout=20; int describe=0,refstats=0; int i; FILE *cf; char *line=NULL; size_t cap=0;
  for(i=1;i<argc;i++){
    if(!strcmp(argv[i],"--files"))files=argv[++i];
    else if(!strcmp(argv[i],"--cases"))cases=argv[++i];
    else if(!strcmp(argv[i],"--timeout"))timeout=atoi(argv[++i]);
    else if(!strcmp(argv[i],"--describe"))describe=1;
    else if(!strcmp(argv[i],"--refstats"))refstats=1;
  }
  if(!files||(!cases&&!describe&&!refstats)){ fprintf(stderr,"usage\n"); return 2; }
  load_files(files);
  if(describe){
    /* observations used only to choose alphabets (never as an oracle) */
    int f; printf("[");
    for(f=0;f<g_nfiles;f++){
      vfile *F=&g_files[f]; OggVorbis_File vf; memio m; int l; long pos=0;
      mio_init(&m,F->data,F->len);
      printf("%s{\"path\":\"%s\"",f?",":"",F->path);
      if(ov_open_callbacks(&m,&vf,NULL,0,mio_cb_seekable)<0){ printf(",\"open\":false}"); continue; }
      printf(",\"open\":true,\"links\":[");
      for(l=0;l<vf.links;l++)printf("%s{\"offset\":%ld,\"dataoffset\":%ld,\"end\":%ld,\"pcm\":%ld,\"rate\":%ld,\"ch\":%d,\"serial\":%ld,\"bs0\":%ld,\"bs1\":%ld}",l?",":"",(long)vf.offsets[l],(long)vf.dataoffsets[l],(long)vf.offsets[l+1],(long)vf.pcmlengths[l*2+1],vf.vi[l].rate,vf.vi[l].channels,(long)vf.serialnos[l],vorbis_info_blocksize(vf.vi+l,0),vorbis_info_blocksize(vf.vi+l,1));
      printf("],\"chunks\":[");
      while(1){ float **pcm; int bs; long n=ov_read_float(&vf,&pcm,1<<20,&bs); if(n<=0)break; printf("%s%ld",pos?",":"",pos); pos+=n; }
      printf("],\"decoded\":%ld}",pos);
      ov_clear(&vf);
    }
    printf("]\n"); return 0;
  }
  if(refstats){
    int f; printf("[");
    for(f=0;f<g_nfiles;f++){
      vfile *F=&g_files[f]; int l; need_href(F);
      printf("%s{\"ref_ok\":%d,\"ref_tell_errors\":%ld,\"ref_holes\":%d,\"href_ok\":%d,\"href_tell_errors\":%ld,\"links\":[",f?",":"",F->ref.ok,F->ref.tell_errors,F->ref.holes,F->href.ok,F->href.tell_errors);
      for(l=0;l<F->ref.nlinks;l++)printf("%s{\"len\":%ld,\"hlen\":%ld,\"total\":%ld}",l?",":"",F->ref.len[l],F->href.ok?F->href.len[l]:-1,F->link_total[l]);
      printf("]}");
    }
    printf("]\n"); return 0;
  }
  cf=fopen(cases,"r"); if(!cf)return 2;
  signal(SIGVTALRM,on_alarm);
  while(getline(&line,&cap,cf)>0){
    char *sv,*tok; long idx; int fno; char mode; char envs[256]; char probe[32];
    OggVorbis_File vf; memio m; vfile *F; int orc; fl_t fl; h128 sh; char hx[40]; char pres[256];
    char rbuf[8192]; size_t rl=0; int cleared=0; struct itimerval it;
    fl.flags[0]=0; rbuf[0]=0; pres[0]=0; strcpy(pres,"-");
    tok=strtok_r(line," \n",&sv); if(!tok)continue; idx=atol(tok); g_cur_idx=idx;
    tok=strtok_r(NULL," \n",&sv); fno=atoi(tok); F=&g_files[fno];
    tok=strtok_r(NULL," \n",&sv); mode=tok[0];
    tok=strtok_r(NULL," \n",&sv); strncpy(envs,tok,sizeof(envs)-1); envs[sizeof(envs)-1]=0;
    tok=strtok_r(NULL," \n",&sv); strncpy(probe,tok,sizeof(probe)-1); probe[sizeof(probe)-1]=0;
    if(fno<0||fno>=g_nfiles){ printf("%ld BADCASE\n",idx); continue; }
    /* references are computed outside the watchdog and the script */
    if(!strcmp(probe,"plin")||!strcmp(probe,"pcat")){ need_href(F); }
    memset(&it,0,sizeof(it)); it.it_value.tv_sec=timeout; setitimer(ITIMER_VIRTUAL,&it,NULL);
    mio_init(&m,F->data,F->len); parse_env(&m,envs);
    memset(&vf,0x5a,sizeof(vf));
    if(mode=='t'){ orc=ov_test_callbacks(&m,&vf,NULL,0,mio_cb_seekable); if(!orc)orc=ov_test_open(&vf); }
    else orc=ov_open_callbacks(&m,&vf,NULL,0,mode=='n'?mio_cb_stream:mio_cb_seekable);
    if(orc<0){
      /* failed open: handle must be zeroed, source not closed */
      size_t k; int z=1; for(k=0;k<sizeof(vf);k++)if(((unsigned char*)&vf)[k]){ z=0; break; }
      if(!z)addflag(&fl,"open_fail_not_zeroed");
      if(m.nclose)addflag(&fl,"open_fail_closed_source");
    }
    while((tok=strtok_r(NULL," \n",&sv))){
      long rc=0; long tb,ta; int hs=0; int isread=0;
      if(cleared&&strcmp(tok,"cl")){ continue; }
      if(vf.vi&&vf.vi->codec_setup)hs=((codec_setup_info*)vf.vi->codec_setup)->halfrate_flag;
      tb=(long)ov_pcm_tell(&vf);
      if(!strncmp(tok,"rf",2)){ float **pcm; int bs=-1; rc=ov_read_float(&vf,&pcm,atoi(tok+2),&bs); isread=1; }
      else if(!strncmp(tok,"ri",2)){ static char buf[1<<17]; int bs=-1; int len=atoi(tok+2); if(len>(int)sizeof(buf))len=sizeof(buf); rc=ov_read(&vf,buf,len,0,2,1,&bs);
        if(rc>0){ int chn=ov_info(&vf,-1)->channels; if(rc%(2*chn))addflag(&fl,"ri_partial_frame"); rc/=(2*chn); } isread=1; }
      else if(!strncmp(tok,"ps",2))rc=ov_pcm_seek(&vf,atoll(tok+2));
      else if(!strncmp(tok,"pp",2))rc=ov_pcm_seek_page(&vf,atoll(tok+2));
      else if(!strncmp(tok,"rs",2))rc=ov_raw_seek(&vf,atoll(tok+2));
      else if(!strncmp(tok,"ts",2))rc=ov_time_seek(&vf,atof(tok+2));
      else if(!strncmp(tok,"tp",2))rc=ov_time_seek_page(&vf,atof(tok+2));
      else if(!strncmp(tok,"PS",2))rc=ov_pcm_seek_lap(&vf,atoll(tok+2));
      else if(!strncmp(tok,"PP",2))rc=ov_pcm_seek_page_lap(&vf,atoll(tok+2));
      else if(!strncmp(tok,"RS",2))rc=ov_raw_seek_lap(&vf,atoll(tok+2));
      else if(!strncmp(tok,"TS",2))rc=ov_time_seek_lap(&vf,atof(tok+2));
      else if(!strncmp(tok,"TP",2))rc=ov_time_seek_page_lap(&vf,atof(tok+2));
      else if(!strcmp(tok,"h1"))rc=ov_halfrate(&vf,1);
      else if(!strcmp(tok,"h0"))rc=ov_halfrate(&vf,0);
      else if(!strcmp(tok,"h2"))rc=ov_halfrate(&vf,2);        /* "nonzero turns it on" */
      else if(!strcmp(tok,"hm"))rc=ov_halfrate(&vf,-1);
      else if(!strcmp(tok,"hb"))rc=ov_halfrate(&vf,256);
      else if(!strcmp(tok,"q")){ m.quiet=1; rc=0; }
      else if(!strcmp(tok,"bi"))rc=ov_bitrate_instant(&vf);
      else if(tok[0]=='x'){ h128 hh; h_init(&hh); misc_calls(&vf,atoi(tok+1),&hh); rc=(long)(hh.a&0x7fff); }
      else if(!strcmp(tok,"cl")){ long c0=m.nclose; rc=ov_clear(&vf); cleared++;
        if(cleared==1){ if(orc==0&&m.nclose!=c0+1)addflag(&fl,"clear_close_count"); if(orc<0&&m.nclose!=c0)addflag(&fl,"clear_closed_failed_open"); }
        else if(m.nclose!=c0)addflag(&fl,"double_close"); }
      else { printf("%ld BADOP %s\n",idx,tok); goto next; }
      ta=cleared?-1:(long)ov_pcm_tell(&vf);
      if(isread&&rc>0&&tb>=0&&ta!=tb+(rc<<hs))addflag(&fl,"read_advance");
      if(rl+48<sizeof(rbuf))rl+=snprintf(rbuf+rl,sizeof(rbuf)-rl,"%s%ld:%ld",rl?",":"",rc,ta);
    }
    h_init(&sh);
    if(!cleared){ if(orc<0){ h_tag(&sh,"closed"); } else vf_state_hash(&vf,&m,&sh); } else h_tag(&sh,"cleared");
    h_hex(&sh,hx);
    {
      long tell=cleared||orc<0?-1:(long)ov_pcm_tell(&vf);
      long points=m.npoints,hits=m.dev_hits; long total_after=(cleared||orc<0)?-1:(long)ov_pcm_total(&vf,-1);
      if(!cleared&&orc==0){
        if(!strcmp(probe,"plin"))probe_plin(&vf,F,pres,sizeof(pres));
        else if(!strcmp(probe,"pcat"))probe_pcat(&vf,F,pres,sizeof(pres));
        else if(!strcmp(probe,"misc")){ h128 hh; int k; h_init(&hh); for(k=-1;k<=vf.links;k++)misc_calls(&vf,k,&hh); snprintf(pres,sizeof(pres),"%016llx",(unsigned long long)hh.a); }
      }
      if(!cleared){ long c0=m.nclose; ov_clear(&vf); if(orc==0&&m.nclose!=c0+1)addflag(&fl,"clear_close_count"); if(orc<0&&m.nclose!=c0)addflag(&fl,"clear_closed_failed_open");
        { long c1=m.nclose; ov_clear(&vf); if(m.nclose!=c1)addflag(&fl,"double_close"); } }
      memset(&it,0,sizeof(it)); setitimer(ITIMER_VIRTUAL,&it,NULL);
      printf("%ld O=%d R=%s H=%s T=%ld P=%s E=%ld D=%ld C=%ld B=%ld N=%ld F=%s\n",idx,orc,rbuf[0]?rbuf:"-",hx,tell,pres,points,hits,m.nclose,m.max_backhop,total_after,fl.flags[0]?fl.flags:"-");
      fflush(stdout);
    }
    next:;
  }
  return 0;
}
