/* c10_deliver: delivery-independence executor (C10).
 *
 * usage: c10_deliver --cases <file> [--timeout s] --file <id> <path> <truth> [--file ...]
 *   truth = ch:rate:n/ch:rate:n/...      per-link ground truth from construction (mkzoo meta)
 *
 * case line:  <idx> <fileid> <path> <api> <req> <cap> <ncut> [b1 [b2|lo..hi]]
 *   path : s  vorbisfile, seekable callbacks
 *          n  vorbisfile, streaming (seek_func = tell_func = NULL)
 *          p  packet-level API: raw libogg sync/stream loop + vorbis_synthesis*, fed through the same
 *             scripted read callback (asks 4096 bytes per read, like examples/decoder_example.c)
 *          any path may carry "@<k>" (s@58): the first k bytes of the file are handed over as already-read data - the
 *          `initial`/`ibytes` arguments of ov_open_callbacks (path p: one ogg_sync_wrote of k bytes) - and the source is
 *          left positioned just after them (the file-type-sniffing usage)
 *   api  : f  ov_read_float(length = req schedule)   (path p: vorbis_synthesis_read(min(avail,req)))
 *          i  ov_read(..., length bytes, little endian, 16 bit, signed)          (paths s,n only)
 *          g  ov_read_filter(same format) with a stateless gain-0.5 filter       (paths s,n only)
 *          k  ov_read_filter(same format) with an identity filter                (paths s,n only)
 *             both filters check that their input is exactly the unfiltered reference PCM at their own cursor
 *             (advanced by the frames they were shown) and count frames; at the end frames shown == frames delivered.
 *             The delivered bytes are compared with the default-schedule output of the same call (api g: anchor taken
 *             with a 131072-byte buffer so that a whole block always fits; tied to 0.5*reference within one LSB).
 *   req  : c<k> constant k | a<x>,<y> alternating x,y | r<k> ramp 1,2..k..2,1,2.. |
 *          (api i) b<bytes> | F<k> = k frames of the widest link of the file
 *   cap  : uniform cap of every read callback answer (0 = none)
 *   cuts : absolute byte offsets; every read that would cross a cut offset stops exactly there (persisting).
 *          The LAST cut may be a range lo..hi (hi exclusive): the executor then runs one execution per value
 *          ("row") and prints a single summary line.
 *
 * Oracle (all in-process, bit exact): the reference is the packet-level decode of the file with full 4096-byte
 * reads and complete consumption, split into links at BOS pages.  Every execution must deliver, link by link,
 * exactly these floats (memcmp), with the link's channel count / rate, in link order, with no negative return
 * value (vorbisfile) resp. no sync/stream hole and no rejected packet (packet API).  Integer output of ov_read
 * is compared with the ov_read output of the default schedule (seekable, full reads, 4096 bytes).
 *
 * output: <idx> ok|bad:<what> neg=<k>[:code@link:idx,..] E=<env points> R=<reads> hits=<cuts/caps applied>
 *         LG=<callback log hash> C=<api calls> B=<largest backward seek> RH=<reference hash> [row fields]                              */
#include "common.h"

#define MAXL 16
#define MAXF 48
#define MAXNEG 8

/* ------------------------------------------------------------------ scripted source */
typedef struct { memio m; long cut[4]; int ncut; long cuthit[4]; long caphit; long initial; } dsrc;
static void d_init(dsrc *d,const unsigned char *data,long len,long cap,const long *cut,int ncut){
  int i; memset(d,0,sizeof(*d)); mio_init(&d->m,data,len); d->m.cap=cap; d->ncut=ncut; for(i=0;i<ncut;i++)d->cut[i]=cut[i];
}
static size_t d_read(void *ptr,size_t size,size_t nmemb,void *ds){
  dsrc *d=(dsrc*)ds; memio *m=&d->m; long want=(long)(size*nmemb),avail=m->len-m->pos; int i;
  if(avail<0)avail=0;
  if(want>avail)want=avail;
  if(m->cap>0&&want>m->cap){ want=m->cap; d->caphit++; }
  for(i=0;i<d->ncut;i++) if(m->pos<d->cut[i]&&m->pos+want>d->cut[i]){ want=d->cut[i]-m->pos; d->cuthit[i]++; m->dev_hits++; }
  m->npoints++; m->nread++;
  if(want>0)memcpy(ptr,m->data+m->pos,want);
  m->pos+=want;
  h_i64(&m->log,want);
  return (size_t)want;
}

/* ------------------------------------------------------------------ request schedules */
typedef struct { char kind; long a,b; long i; } rsched;
static int rs_parse(rsched *r,const char *s,int maxch){
  memset(r,0,sizeof(*r)); r->kind=s[0];
  switch(s[0]){
  case 'c': r->a=atol(s+1); return r->a>0;
  case 'b': r->a=atol(s+1); r->kind='c'; return r->a>0;
  case 'F': r->a=atol(s+1)*2*maxch; r->kind='c'; return r->a>0;
  case 'a': if(sscanf(s+1,"%ld,%ld",&r->a,&r->b)!=2)return 0; return r->a>0&&r->b>0;
  case 'r': r->a=atol(s+1); return r->a>0;
  }
  return 0;
}
static long rs_next(rsched *r){
  long i=r->i++;
  if(r->kind=='c')return r->a;
  if(r->kind=='a')return (i&1)?r->b:r->a;
  { long per=2*r->a-2,p; if(per<=0)return 1; p=i%per; return p<r->a?p+1:2*r->a-1-p; }
}

/* ------------------------------------------------------------------ reference tables */
typedef struct { int ch; long rate; long n; long cap; float **pcm; short *ipcm; long in; long icap; short *gpcm; long gn; long gcap; } rlink;
typedef struct {
  char id[32]; char path[500]; unsigned char *data; long len;
  int tn; int tch[MAXL]; long trate[MAXL],tcount[MAXL];     /* construction truth */
  int nl; rlink L[MAXL]; int maxch; int have_ref, have_int; char rh[33], rih[33]; char referr[160]; char interr[160];   /* referr: float reference unusable; interr: only the integer anchors (built through vorbisfile) failed */
} rfile;
static rfile g_f[MAXF]; static int g_nf=0;

/* ------------------------------------------------------------------ output cursor / comparator */
typedef struct {
  rfile *rf; int build;        /* build=1: append into rf (reference construction) */
  int ints;                    /* 0 float, 1 integer stream (ov_read / identity filter), 2 integer stream after the gain filter */
  int cur; long idx; long total;
  char res[200];               /* first problem found ("" = none) */
  int nneg; long negcode[MAXNEG]; int neglink[MAXNEG]; long negidx[MAXNEG];
  long calls;
} outst;
#define L_IN(l,m) ((m)==2?(l)->gn:(l)->in)
#define L_IP(l,m) ((m)==2?(l)->gpcm:(l)->ipcm)
static void o_init(outst *o,rfile *rf,int build,int ints){ memset(o,0,sizeof(*o)); o->rf=rf; o->build=build; o->ints=ints; }
static void o_neg(outst *o,long code){
  int k=o->cur; long ix=o->idx;
  if(!o->build&&k<o->rf->nl){ long n=o->ints?L_IN(&o->rf->L[k],o->ints):o->rf->L[k].n; if(ix>=n&&k+1<o->rf->nl){ k++; ix=0; } }
  if(o->nneg<MAXNEG){ o->negcode[o->nneg]=code; o->neglink[o->nneg]=k; o->negidx[o->nneg]=ix; }
  o->nneg++;
}
/* packet path: a new link's headers are complete */
static void o_link(outst *o,int ch,long rate){
  rfile *rf=o->rf;
  if(!o->build)return;
  if(rf->nl>=MAXL){ if(!o->res[0])strcpy(o->res,"too_many_links"); return; }
  memset(&rf->L[rf->nl],0,sizeof(rlink)); rf->L[rf->nl].ch=ch; rf->L[rf->nl].rate=rate; rf->nl++;
}
/* deliver n frames; returns the link index they were attributed to, or -1 */
static int o_pcm(outst *o,float **pcm,short *ip,long n,int ch,long rate){
  rfile *rf=o->rf; int c;
  if(o->build){
    rlink *l;
    if(o->ints){
      /* integer reference: links follow the float reference's lengths */
      while(o->cur<rf->nl&&o->idx>=rf->L[o->cur].n){ o->cur++; o->idx=0; }
      if(o->cur>=rf->nl){ if(!o->res[0])strcpy(o->res,"int_ref_extra_audio"); return -1; }
      l=&rf->L[o->cur];
      if(ch!=l->ch){ if(!o->res[0])strcpy(o->res,"int_ref_channels"); return -1; }
      if(o->ints==2){
        if(l->gn+n>l->gcap){ l->gcap=(l->gn+n)*2+1024; l->gpcm=(short*)__real_realloc(l->gpcm,sizeof(short)*l->gcap*ch); }
        memcpy(l->gpcm+l->gn*ch,ip,sizeof(short)*n*ch); l->gn+=n; o->idx+=n; o->total+=n;
        return o->cur;
      }
      if(l->in+n>l->icap){ l->icap=(l->in+n)*2+1024; l->ipcm=(short*)__real_realloc(l->ipcm,sizeof(short)*l->icap*ch); }
      memcpy(l->ipcm+l->in*ch,ip,sizeof(short)*n*ch); l->in+=n; o->idx+=n; o->total+=n;
      return o->cur;
    }
    if(rf->nl<1){ if(!o->res[0])strcpy(o->res,"pcm_before_link"); return -1; }
    l=&rf->L[rf->nl-1];
    if(!l->pcm){ l->pcm=(float**)__real_calloc(ch,sizeof(float*)); }
    if(l->n+n>l->cap){ l->cap=(l->n+n)*2+4096; for(c=0;c<ch;c++)l->pcm[c]=(float*)__real_realloc(l->pcm[c],sizeof(float)*l->cap); }
    for(c=0;c<ch;c++)memcpy(l->pcm[c]+l->n,pcm[c],sizeof(float)*n);
    l->n+=n; o->total+=n;
    return rf->nl-1;
  }
  if(o->res[0])return -1;
  while(o->cur<rf->nl&&o->idx>=(o->ints?L_IN(&rf->L[o->cur],o->ints):rf->L[o->cur].n)){ o->cur++; o->idx=0; }
  if(o->cur>=rf->nl){ snprintf(o->res,sizeof(o->res),"extra_audio:%ld",n); return -1; }
  {
    rlink *l=&rf->L[o->cur]; long ln=o->ints?L_IN(l,o->ints):l->n; short *lip=L_IP(l,o->ints);
    if(ch!=l->ch){ snprintf(o->res,sizeof(o->res),"channels:link%d:%d!=%d:idx%ld",o->cur,ch,l->ch,o->idx); return -1; }
    if(rate!=l->rate){ snprintf(o->res,sizeof(o->res),"rate:link%d:%ld!=%ld",o->cur,rate,l->rate); return -1; }
    if(o->idx+n>ln){ snprintf(o->res,sizeof(o->res),"overrun:link%d:%ld+%ld>%ld",o->cur,o->idx,n,ln); return -1; }
    if(o->ints){
      if(memcmp(ip,lip+o->idx*ch,sizeof(short)*n*ch)){
        long j; for(j=0;j<n*ch;j++)if(ip[j]!=lip[o->idx*ch+j])break;
        snprintf(o->res,sizeof(o->res),"%s:link%d:idx%ld:ch%ld",o->ints==2?"gain_ipcm":"ipcm",o->cur,o->idx+j/ch,j%ch); return -1; }
    }else{
      for(c=0;c<ch;c++)if(memcmp(pcm[c],l->pcm[c]+o->idx,sizeof(float)*n)){
        long j; for(j=0;j<n;j++)if(memcmp(&pcm[c][j],&l->pcm[c][o->idx+j],sizeof(float)))break;
        snprintf(o->res,sizeof(o->res),"pcm:link%d:idx%ld:ch%d",o->cur,o->idx+j,c); return -1; }
    }
    o->idx+=n; o->total+=n;
    return o->cur;
  }
}
static void o_finish(outst *o){
  rfile *rf=o->rf; long want=0; int k;
  if(o->build||o->res[0])return;
  for(k=0;k<rf->nl;k++)want+=o->ints?L_IN(&rf->L[k],o->ints):rf->L[k].n;
  if(o->total!=want)snprintf(o->res,sizeof(o->res),"count:%ld!=%ld:stopped_link%d:idx%ld",o->total,want,o->cur,o->idx);
}

/* ------------------------------------------------------------------ access path p: packet-level API */
enum { PK_SYNC_HOLE=-1000, PK_PAGEIN_FAIL=-1001, PK_PACKET_REJECTED=-1002, PK_STREAM_HOLE=-1003 };
static void pk_run(dsrc *d,rsched *rq,outst *o,long ask){
  ogg_sync_state oy; ogg_stream_state os; ogg_page og; ogg_packet op; vorbis_info vi; vorbis_comment vc; vorbis_dsp_state vd; vorbis_block vb;
  int sinit=0,hdr=0,init=0,hinit=0; long serial=-1; long guard=0;
  ogg_sync_init(&oy);
  if(d->initial>0){ char *b=ogg_sync_buffer(&oy,d->initial); memcpy(b,d->m.data,d->initial); ogg_sync_wrote(&oy,d->initial); d->m.pos=d->initial; }
  while(1){
    int r=ogg_sync_pageout(&oy,&og);
    if(++guard>50000000){ if(!o->res[0])strcpy(o->res,"packet_loop_runaway"); break; }
    if(r==0){
      char *b=ogg_sync_buffer(&oy,ask); long k=(long)d_read(b,1,ask,d);
      if(k<=0)break;
      ogg_sync_wrote(&oy,k); continue;
    }
    if(r<0){ o_neg(o,PK_SYNC_HOLE); if(o->nneg>64)break; continue; }
    if(ogg_page_bos(&og)&&(hdr==3||!sinit)){
      /* a new link begins: tear the old decoder down */
      if(init){ vorbis_block_clear(&vb); vorbis_dsp_clear(&vd); init=0; }
      if(hinit){ vorbis_comment_clear(&vc); vorbis_info_clear(&vi); hinit=0; }
      if(sinit){ ogg_stream_clear(&os); sinit=0; }
      serial=ogg_page_serialno(&og); ogg_stream_init(&os,serial); sinit=1; hdr=0;
      vorbis_info_init(&vi); vorbis_comment_init(&vc); hinit=1;
    }
    if(!sinit||ogg_page_serialno(&og)!=serial)continue;   /* foreign logical stream */
    if(ogg_stream_pagein(&os,&og)<0){ o_neg(o,PK_PAGEIN_FAIL); if(o->nneg>64)break; continue; }
    while(1){
      int pr=ogg_stream_packetout(&os,&op);
      if(pr==0)break;
      if(pr<0){ o_neg(o,PK_STREAM_HOLE); if(o->nneg>64)goto done; continue; }
      if(hdr<3){
        if(vorbis_synthesis_headerin(&vi,&vc,&op)<0){ if(!o->res[0])snprintf(o->res,sizeof(o->res),"headerin:hdr%d",hdr); goto done; }
        hdr++;
        if(hdr==3){
          if(vorbis_synthesis_init(&vd,&vi)){ if(!o->res[0])strcpy(o->res,"synthesis_init"); goto done; }
          vorbis_block_init(&vd,&vb); init=1; o_link(o,vi.channels,vi.rate);
        }
        continue;
      }
      if(vorbis_synthesis(&vb,&op)==0)vorbis_synthesis_blockin(&vd,&vb);
      else o_neg(o,PK_PACKET_REJECTED);
      {
        float **pcm; int n;
        while((n=vorbis_synthesis_pcmout(&vd,&pcm))>0){
          long take=rs_next(rq); if(take>n)take=n;
          o->calls++;
          o_pcm(o,pcm,NULL,take,vi.channels,vi.rate);
          vorbis_synthesis_read(&vd,(int)take);
        }
      }
    }
  }
 done:
  if(init){ vorbis_block_clear(&vb); vorbis_dsp_clear(&vd); }
  if(hinit){ vorbis_comment_clear(&vc); vorbis_info_clear(&vi); }
  if(sinit)ogg_stream_clear(&os);
  ogg_sync_clear(&oy);
}

/* ------------------------------------------------------------------ ov_read_filter callbacks */
typedef struct { rfile *rf; int gain; int cur; long idx; long seen; long calls; char err[120]; } fstate;
static void c10_filter(float **pcm,long channels,long samples,void *param){
  fstate *f=(fstate*)param; rfile *rf=f->rf; long c,j;
  f->calls++;
  if(!f->err[0]){
    while(f->cur<rf->nl&&f->idx>=rf->L[f->cur].n){ f->cur++; f->idx=0; }
    if(samples<=0)snprintf(f->err,sizeof(f->err),"filter_samples:%ld",samples);
    else if(f->cur>=rf->nl)snprintf(f->err,sizeof(f->err),"filter_extra:%ld",samples);
    else if(channels!=rf->L[f->cur].ch)snprintf(f->err,sizeof(f->err),"filter_channels:link%d:%ld",f->cur,channels);
    else if(f->idx+samples>rf->L[f->cur].n)snprintf(f->err,sizeof(f->err),"filter_overrun:link%d:%ld+%ld",f->cur,f->idx,samples);
    else{
      /* the filter must be shown unfiltered decoder output, each frame once */
      for(c=0;c<channels&&!f->err[0];c++)if(memcmp(pcm[c],rf->L[f->cur].pcm[c]+f->idx,sizeof(float)*samples)){
        for(j=0;j<samples;j++)if(memcmp(&pcm[c][j],&rf->L[f->cur].pcm[c][f->idx+j],sizeof(float)))break;
        snprintf(f->err,sizeof(f->err),"filter_input:link%d:idx%ld:ch%ld",f->cur,f->idx+j,c);
      }
      f->idx+=samples;
    }
  }
  f->seen+=samples;
  if(f->gain)for(c=0;c<channels;c++)for(j=0;j<samples;j++)pcm[c][j]*=0.5f;
}

/* ------------------------------------------------------------------ access paths s / n: vorbisfile */
static void vf_run(dsrc *d,int streaming,int ints,int filt,rsched *rq,outst *o){
  OggVorbis_File vf; ov_callbacks cb; int rc; long guard=0; int lastbs=-2,lastlk=-1; fstate fs;
  memset(&fs,0,sizeof(fs)); fs.rf=o->rf; fs.gain=(filt==2);
  static short ibuf[65536];
  cb.read_func=d_read; cb.seek_func=streaming?NULL:mio_seek; cb.close_func=mio_close; cb.tell_func=streaming?NULL:mio_tell;
  if(d->initial>0)d->m.pos=d->initial;   /* source sits just after the bytes already read */
  rc=ov_open_callbacks(d,&vf,d->initial>0?(const char*)d->m.data:NULL,d->initial,cb);
  if(rc<0){ if(!o->res[0])snprintf(o->res,sizeof(o->res),"open:%d",rc); return; }
  if(!o->build){
    if(!streaming&&!ov_seekable(&vf)){ snprintf(o->res,sizeof(o->res),"not_seekable"); }
    else if(streaming&&ov_seekable(&vf)){ snprintf(o->res,sizeof(o->res),"seekable_without_seek_func"); }
    else if(!streaming&&ov_streams(&vf)!=o->rf->nl){ snprintf(o->res,sizeof(o->res),"streams:%ld!=%d",ov_streams(&vf),o->rf->nl); }
    else if(!streaming){
      int k; for(k=0;k<o->rf->nl;k++)if((long)ov_pcm_total(&vf,k)!=o->rf->L[k].n){ snprintf(o->res,sizeof(o->res),"pcm_total:link%d:%ld!=%ld",k,(long)ov_pcm_total(&vf,k),o->rf->L[k].n); break; }
    }
  }
  while(1){
    long req=rs_next(rq),n; int bs=-1,lk; vorbis_info *vi;
    if(++guard>20000000){ if(!o->res[0])strcpy(o->res,"read_loop_runaway"); break; }
    o->calls++;
    if(ints){
      if(req>(long)sizeof(ibuf))req=sizeof(ibuf);
      if(filt)n=ov_read_filter(&vf,(char*)ibuf,(int)req,0,2,1,&bs,c10_filter,&fs);
      else n=ov_read(&vf,(char*)ibuf,(int)req,0,2,1,&bs);
    }else{
      float **pcm=NULL;
      n=ov_read_float(&vf,&pcm,(int)req,&bs);
      if(n>0){
        vi=ov_info(&vf,-1);
        if(n>req){ if(!o->res[0])snprintf(o->res,sizeof(o->res),"overlong:%ld>%ld",n,req); break; }
        lk=o_pcm(o,pcm,NULL,n,vi->channels,vi->rate);
        goto placed;
      }
    }
    if(n==0)break;
    if(n<0){ o_neg(o,n); if(o->nneg>64)break; continue; }
    /* integer data */
    vi=ov_info(&vf,-1);
    if(n>req||n%(2*vi->channels)){ if(!o->res[0])snprintf(o->res,sizeof(o->res),"int_length:%ld:req%ld:ch%d",n,req,vi->channels); break; }
    lk=o_pcm(o,NULL,ibuf,n/(2*vi->channels),vi->channels,vi->rate);
   placed:
    if(lk<0){ if(o->build)break; continue; }
    if(!o->build&&!o->res[0]){
      if(!streaming){ if(bs!=lk)snprintf(o->res,sizeof(o->res),"bitstream_index:%d!=%d",bs,lk); }
      else{
        /* streaming: only demand that the index is stable inside a link and changes at a link boundary */
        if(lastlk==lk&&bs!=lastbs)snprintf(o->res,sizeof(o->res),"bitstream_index_changed_inside_link%d:%d->%d",lk,lastbs,bs);
        if(lastlk>=0&&lastlk!=lk&&bs==lastbs)snprintf(o->res,sizeof(o->res),"bitstream_index_not_advanced:link%d:%d",lk,bs);
      }
    }
    lastbs=bs; lastlk=lk;
  }
  if(filt&&!o->res[0]){
    if(fs.err[0])snprintf(o->res,sizeof(o->res),"%s",fs.err);
    else if(fs.seen!=o->total)snprintf(o->res,sizeof(o->res),"filter_frames:seen%ld!=delivered%ld",fs.seen,o->total);
  }
  ov_clear(&vf);
}

/* ------------------------------------------------------------------ reference construction */
static void hash_ref(rfile *rf){
  h128 h,hi; int k,c; h_init(&h); h_init(&hi);
  for(k=0;k<rf->nl;k++){
    rlink *l=&rf->L[k];
    h_i64(&h,l->ch); h_i64(&h,l->rate); h_i64(&h,l->n);
    for(c=0;c<l->ch&&l->n>0;c++)h_bytes(&h,l->pcm[c],sizeof(float)*l->n);
    h_i64(&hi,l->ch); h_i64(&hi,l->in); if(l->in>0)h_bytes(&hi,l->ipcm,sizeof(short)*l->in*l->ch);
    h_i64(&hi,l->gn); if(l->gn>0)h_bytes(&hi,l->gpcm,sizeof(short)*l->gn*l->ch);
  }
  h_hex(&h,rf->rh); h_hex(&hi,rf->rih);
}
static void build_ref(rfile *rf){
  dsrc d; rsched rq; outst o; int k;
  if(rf->have_ref)return;
  rf->have_ref=1; rf->referr[0]=0; rf->interr[0]=0; strcpy(rf->rh,"-"); strcpy(rf->rih,"-");
  d_init(&d,rf->data,rf->len,0,NULL,0); rs_parse(&rq,"c1000000",1); o_init(&o,rf,1,0);
  pk_run(&d,&rq,&o,4096);
  if(o.res[0]){ snprintf(rf->referr,sizeof(rf->referr),"ref_failed:%s",o.res); return; }
  if(o.nneg){ snprintf(rf->referr,sizeof(rf->referr),"ref_hole:%ld@link%d",o.negcode[0],o.neglink[0]); return; }
  /* reference against construction ground truth */
  if(rf->nl!=rf->tn){ snprintf(rf->referr,sizeof(rf->referr),"ref_links:%d!=%d",rf->nl,rf->tn); return; }
  rf->maxch=1;
  for(k=0;k<rf->nl;k++){
    rlink *l=&rf->L[k];
    if(l->ch!=rf->tch[k]||l->rate!=rf->trate[k]||l->n!=rf->tcount[k]){ snprintf(rf->referr,sizeof(rf->referr),"ref_truth:link%d:%d/%ld/%ld",k,l->ch,l->rate,l->n); return; }
    if(l->ch>rf->maxch)rf->maxch=l->ch;
  }
  /* integer reference: default schedule through vorbisfile (seekable, full reads, 4096 bytes) */
  d_init(&d,rf->data,rf->len,0,NULL,0); rs_parse(&rq,"c4096",1); o_init(&o,rf,1,1);
  vf_run(&d,0,1,0,&rq,&o);
  if(o.res[0]||o.nneg){ snprintf(rf->interr,sizeof(rf->interr),"int_ref_failed:%s:neg%d",o.res,o.nneg); hash_ref(rf); return; }
  for(k=0;k<rf->nl;k++){
    rlink *l=&rf->L[k]; long j; int c;
    if(l->in!=l->n){ snprintf(rf->interr,sizeof(rf->interr),"int_ref_count:link%d:%ld!=%ld",k,l->in,l->n); hash_ref(rf); return; }
    /* loose sanity only (exact packing is C17's business): within one LSB of the float unless clipped */
    for(j=0;j<l->n;j++)for(c=0;c<l->ch;c++){
      double f=l->pcm[c][j]*32768.0,s=l->ipcm[j*l->ch+c]; if(f>32767)f=32767; if(f<-32768)f=-32768;
      if(s-f>1.0||f-s>1.0){ snprintf(rf->interr,sizeof(rf->interr),"int_ref_insane:link%d:idx%ld",k,j); hash_ref(rf); return; }
    }
  }
  /* gain anchor: ov_read_filter(gain 0.5) with a buffer that always takes the whole pending block */
  d_init(&d,rf->data,rf->len,0,NULL,0); rs_parse(&rq,"c131072",1); o_init(&o,rf,1,2);
  vf_run(&d,0,1,2,&rq,&o);
  if(o.res[0]||o.nneg){ snprintf(rf->interr,sizeof(rf->interr),"gain_ref_failed:%s:neg%d",o.res,o.nneg); hash_ref(rf); return; }
  for(k=0;k<rf->nl;k++){
    rlink *l=&rf->L[k]; long j; int c;
    if(l->gn!=l->n){ snprintf(rf->interr,sizeof(rf->interr),"gain_ref_count:link%d:%ld!=%ld",k,l->gn,l->n); hash_ref(rf); return; }
    /* the gain was applied exactly once: within one LSB of 0.5*reference (exact packing is C17's business) */
    for(j=0;j<l->n;j++)for(c=0;c<l->ch;c++){
      double f=0.5*l->pcm[c][j]*32768.0,s=l->gpcm[j*l->ch+c]; if(f>32767)f=32767; if(f<-32768)f=-32768;
      if(s-f>1.0||f-s>1.0){ snprintf(rf->interr,sizeof(rf->interr),"gain_ref_not_half:link%d:idx%ld",k,j); hash_ref(rf); return; }
    }
  }
  rf->have_int=1;
  hash_ref(rf);
}

/* ------------------------------------------------------------------ one execution */
typedef struct { char status[260]; char neg[200]; long E,R,hits,calls,backhop; uint64_t lg; int allcut; } result;
static void run_one(rfile *rf,char path,long initial,char api,const char *req,long cap,const long *cut,int ncut,result *r){
  dsrc d; rsched rq; outst o; int i; char *p;
  memset(r,0,sizeof(*r));
  if(rf->referr[0]){ snprintf(r->status,sizeof(r->status),"bad:%s",rf->referr); strcpy(r->neg,"neg=0"); return; }
  if(api!='f'&&rf->interr[0]){ snprintf(r->status,sizeof(r->status),"bad:%s",rf->interr); strcpy(r->neg,"neg=0"); return; }
  if(!rs_parse(&rq,req,rf->maxch)||(path=='p'&&api!='f')||(api!='f'&&api!='i'&&api!='g'&&api!='k')||(path!='s'&&path!='n'&&path!='p')){ strcpy(r->status,"BADCASE"); strcpy(r->neg,"neg=0"); return; }
  if(initial<0||initial>rf->len){ strcpy(r->status,"BADCASE"); strcpy(r->neg,"neg=0"); return; }
  d_init(&d,rf->data,rf->len,cap,cut,ncut); d.initial=initial;
  o_init(&o,rf,0,api=='f'?0:api=='g'?2:1);
  if(path=='p')pk_run(&d,&rq,&o,4096); else vf_run(&d,path=='n',api!='f',api=='g'?2:api=='k'?1:0,&rq,&o);
  o_finish(&o);
  if(o.res[0])snprintf(r->status,sizeof(r->status),"bad:%s",o.res);
  else if(o.nneg)strcpy(r->status,"bad:neg");
  else strcpy(r->status,"ok");
  p=r->neg; p+=sprintf(p,"neg=%d",o.nneg);
  for(i=0;i<o.nneg&&i<MAXNEG;i++)p+=sprintf(p,"%c%ld@%d:%ld",i?',':':',o.negcode[i],o.neglink[i],o.negidx[i]);
  r->E=d.m.npoints; r->R=d.m.nread; r->hits=d.m.dev_hits+d.caphit; r->calls=o.calls; r->backhop=d.m.max_backhop; r->lg=d.m.log.a^d.m.log.b;
  r->allcut=1; for(i=0;i<ncut;i++)if(!d.cuthit[i])r->allcut=0;
}

static volatile long g_cur=-1;
static void on_alarm(int s){ char b[64]; int n=snprintf(b,sizeof(b),"%ld TIMEOUT\n",g_cur); fflush(stdout); if(write(1,b,n)<0){} _exit(3); }
static int cmp_u64(const void *a,const void *b){ uint64_t x=*(const uint64_t*)a,y=*(const uint64_t*)b; return x<y?-1:x>y; }

int main(int argc,char **argv){
  const char *cases=NULL; int i,timeout=60; FILE *cf; char *line=NULL; size_t lcap=0;
  for(i=1;i<argc;i++){
    if(!strcmp(argv[i],"--cases"))cases=argv[++i];
    else if(!strcmp(argv[i],"--timeout"))timeout=atoi(argv[++i]);
    else if(!strcmp(argv[i],"--file")&&i+3<argc){
      rfile *rf; char *t,*sv,*tr;
      if(g_nf>=MAXF){ fprintf(stderr,"too many files\n"); return 2; }
      rf=&g_f[g_nf++]; memset(rf,0,sizeof(*rf));
      strncpy(rf->id,argv[i+1],sizeof(rf->id)-1); strncpy(rf->path,argv[i+2],sizeof(rf->path)-1);
      tr=strdup(argv[i+3]);
      for(t=strtok_r(tr,"/",&sv);t&&rf->tn<MAXL;t=strtok_r(NULL,"/",&sv)){
        if(sscanf(t,"%d:%ld:%ld",&rf->tch[rf->tn],&rf->trate[rf->tn],&rf->tcount[rf->tn])!=3){ fprintf(stderr,"bad truth %s\n",t); return 2; }
        rf->tn++;
      }
      rf->data=load_file(rf->path,&rf->len);
      i+=3;
    }
  }
  if(!cases)return 2;
  cf=fopen(cases,"r"); if(!cf)return 2;
  signal(SIGVTALRM,on_alarm);
  while(getline(&line,&lcap,cf)>0){
    char *sv,*tok; long idx,cap,cut[4]; int ncut=0,k; char path,api; char req[64]; rfile *rf=NULL; struct itimerval it; result r;
    long lo=-1,hi=-1,initial=0;
    tok=strtok_r(line," \n",&sv); if(!tok)continue; idx=atol(tok); g_cur=idx;
    tok=strtok_r(NULL," \n",&sv); if(!tok){ printf("%ld BADCASE\n",idx); continue; }
    for(k=0;k<g_nf;k++)if(!strcmp(g_f[k].id,tok))rf=&g_f[k];
    if(!rf){ printf("%ld BADCASE nofile\n",idx); fflush(stdout); continue; }
    tok=strtok_r(NULL," \n",&sv); path=tok?tok[0]:0; initial=(tok&&tok[1]=='@')?atol(tok+2):0;
    tok=strtok_r(NULL," \n",&sv); api=tok?tok[0]:0;
    tok=strtok_r(NULL," \n",&sv); strncpy(req,tok?tok:"",sizeof(req)-1); req[sizeof(req)-1]=0;
    tok=strtok_r(NULL," \n",&sv); cap=tok?atol(tok):0;
    tok=strtok_r(NULL," \n",&sv); ncut=tok?atoi(tok):0;
    if(ncut<0||ncut>4){ printf("%ld BADCASE ncut\n",idx); fflush(stdout); continue; }
    for(k=0;k<ncut;k++){
      char *dd; tok=strtok_r(NULL," \n",&sv); if(!tok){ ncut=-1; break; }
      if(k==ncut-1&&(dd=strstr(tok,".."))){ lo=atol(tok); hi=atol(dd+2); cut[k]=lo; }
      else cut[k]=atol(tok);
    }
    if(ncut<0){ printf("%ld BADCASE cuts\n",idx); fflush(stdout); continue; }
    memset(&it,0,sizeof(it)); it.it_value.tv_sec=timeout; setitimer(ITIMER_VIRTUAL,&it,NULL);
    build_ref(rf);
    if(lo<0){
      run_one(rf,path,initial,api,req,cap,cut,ncut,&r);
      printf("%ld %s %s E=%ld R=%ld hits=%ld all=%d LG=%016llx C=%ld B=%ld RH=%s RIH=%s\n",idx,r.status,r.neg,r.E,r.R,r.hits,r.allcut,(unsigned long long)r.lg,r.calls,r.backhop,rf->rh,rf->rih);
    }else{
      /* row: one execution per value of the last cut */
      long b,n=0,nbad=0,firstbad=-1,both=0,D=0,nl=0; result first; uint64_t *lg=(uint64_t*)__real_malloc(sizeof(uint64_t)*(hi>lo?hi-lo:1));
      memset(&first,0,sizeof(first)); strcpy(first.status,"ok"); strcpy(first.neg,"neg=0");
      for(b=lo;b<hi;b++){
        cut[ncut-1]=b; run_one(rf,path,initial,api,req,cap,cut,ncut,&r); n++;
        if(strcmp(r.status,"ok")){ if(!nbad){ first=r; firstbad=b; } nbad++; }
        if(r.allcut){ both++; lg[nl++]=r.lg; }
      }
      qsort(lg,nl,sizeof(uint64_t),cmp_u64); for(b=0;b<nl;b++)if(b==0||lg[b]!=lg[b-1])D++;
      __real_free(lg);
      printf("%ld %s %s rown=%ld rowbad=%ld firstbad=%ld both=%ld D=%ld RH=%s RIH=%s\n",idx,first.status,first.neg,n,nbad,firstbad,both,D,rf->rh,rf->rih);
    }
    memset(&it,0,sizeof(it)); setitimer(ITIMER_VIRTUAL,&it,NULL);
    fflush(stdout);
  }
  return 0;
}
