/* c20_sweep: directed-sweep executor for C20 (rate axis, fresh-machine x final-page axis).
 * Replays one operation history per case on a FRESH real OggVorbis_File (seekable, in-memory) and reports, for the
 * LAST operation, facts vfx does not: whether a decode machine existed before it, ov_time_tell after it, and a
 * read-through from there to the end (count, final position, hash of the delivered PCM, comparison with the
 * linear (half-rate) reference).
 *
 * usage: c20_sweep --files list.txt --cases cases.txt [--timeout s]
 *        c20_sweep --files list.txt --layout          (packet/page layout per link, read with libogg only; used to
 *                                                      choose targets and to count coverage, never as an oracle)
 * case line:  <idx> <file#> <cap> <skip> op op ...
 *   cap: -1 = read through to the end of the file; n>=0 = compare only the first n samples after the history
 *   skip: number of leading delivered samples exempt from the PCM comparison (lapped seeks)
 *   ops: rf<n> ps<p> pp<p> ts<sec> tp<sec> PS PP TS TP (lapped) h0 h1
 * output: <idx> R=rc:tell,... M=<decode machine before the last op: 0 none (fresh), 1 live> TT=<ov_time_tell>
 *         HS=<half-rate flag at the end> P=<ok|bad:...> N=<samples delivered> L=<samples delivered up to the end of the first link read> E=<final tell> X=<pcm hash> F=<flags>
 */
#include "vfcommon.h"
#include <math.h>

static volatile long g_cur_idx=-1;
static void on_alarm(int s){
  char b[64]; int n=snprintf(b,sizeof(b),"%ld TIMEOUT\n",g_cur_idx);
  fflush(stdout); if(write(1,b,n)<0){} _exit(3);
}

typedef struct { long n; long nfirst; long endtell; h128 h; } rt_t;

/* read-through: everything read from here must equal the linear reference at tell (same rules as vfx's plin probe) */
static void read_through(OggVorbis_File *vf,vfile *F,long cap,long skip,rt_t *o,char *out,size_t outn){
  int hs=(vf->vi&&vf->vi->codec_setup)?((codec_setup_info*)vf->vi->codec_setup)->halfrate_flag:0;
  refdec *r; long nread=0; long T0; long expect=0,pos; int l; int firstlink=-1;
  h_init(&o->h); o->n=0; o->nfirst=0; o->endtell=-1;
  if(hs){ need_href(F); r=&F->href; } else { need_ref(F); r=&F->ref; }
  T0=(long)ov_pcm_tell(vf); pos=T0;
  if(!r->ok){ snprintf(out,outn,"noref"); return; }
  if(T0<0){ snprintf(out,outn,"bad:negtell:%ld",T0); return; }
  while(cap<0||nread<cap){
    float **pcm; int bs=-1; long t=(long)ov_pcm_tell(vf);
    long want=4096; long n,idx; int c;
    if(cap>=0&&cap-nread<want)want=cap-nread;
    n=ov_read_float(vf,&pcm,(int)want,&bs);
    if(n==0)break;
    if(n<0){ snprintf(out,outn,"bad:readerr%ld:%ld",n,t); return; }
    if(bs<0||bs>=r->nlinks){ snprintf(out,outn,"bad:link%d:%ld",bs,t); return; }
    if(firstlink<0)firstlink=bs;
    if(t<r->start[bs]){ snprintf(out,outn,"bad:tellbeforelink%d:%ld",bs,t); return; }
    if(hs&&((t-r->start[bs])&1)){ snprintf(out,outn,"bad:oddtell:%ld",t); return; }
    idx=(t-r->start[bs])>>hs;
    for(c=0;c<ov_info(vf,-1)->channels;c++)h_bytes(&o->h,pcm[c],sizeof(float)*n);
    o->n+=n; if(bs==firstlink)o->nfirst+=n;
    if(idx+n>r->len[bs]){ snprintf(out,outn,"bad:overrun:%ld:link%d:idx%ld+%ld>%ld",t,bs,idx,n,r->len[bs]); return; }
    if(ov_info(vf,-1)->channels!=r->ch[bs]){ snprintf(out,outn,"bad:channels:%ld",t); return; }
    for(c=0;c<r->ch[bs];c++){
      long c0=skip>nread?skip-nread:0;      /* leading samples exempt from the comparison (lapped seeks blend them by design) */
      if(c0<n&&memcmp(pcm[c]+c0,r->pcm[bs][c]+idx+c0,sizeof(float)*(n-c0))){
        long k; for(k=c0;k<n;k++)if(memcmp(&pcm[c][k],&r->pcm[bs][c][idx+k],4))break;
        snprintf(out,outn,"bad:pcm:%ld:link%d:ch%d:off%ld",t,bs,c,k); return;
      }
    }
    if((long)ov_pcm_tell(vf)!=t+(n<<hs)){ snprintf(out,outn,"bad:advance:%ld:%ld->%ld",t,n,(long)ov_pcm_tell(vf)); return; }
    if(t!=pos){
      /* allowed only at a link boundary in half-rate mode with an odd link length */
      int okb=0; for(l=1;l<r->nlinks;l++)if(t==r->start[l]&&hs&&pos==t+1)okb=1;
      if(!okb){ snprintf(out,outn,"bad:discont:%ld:expected%ld",t,pos); return; }
    }
    pos=t+(n<<hs); nread+=n;
  }
  o->endtell=(long)ov_pcm_tell(vf);
  if(cap<0){
    /* must have reached the end of the reference: all reference samples at positions >= T0 */
    for(l=0;l<r->nlinks;l++){
      long s=r->start[l],e; long li0;
      if(T0<=s)li0=0; else li0=(T0-s+hs)>>hs;
      e=r->len[l]; if(li0<e)expect+=e-li0;
    }
    if(nread!=expect){ snprintf(out,outn,"bad:count:%ld:read%ld:expected%ld",T0,nread,expect); return; }
  }
  snprintf(out,outn,"ok:%ld",nread);
}

/* packet/page layout of every link, from libogg alone plus vorbis_packet_blocksize (the block size is a header-defined
 * function of the packet's mode bits) */
static void layout(void){
  int f; printf("[");
  for(f=0;f<g_nfiles;f++){
    vfile *F=&g_files[f]; ogg_sync_state oy; ogg_stream_state os; ogg_page og; ogg_packet op;
    vorbis_info vi; vorbis_comment vc; int have_os=0,nh=0,nlink=0,npk=0; long pageno=-1; long off=0;
    printf("%s[",f?",":"");
    ogg_sync_init(&oy);
    { char *b=ogg_sync_buffer(&oy,F->len); memcpy(b,F->data,F->len); ogg_sync_wrote(&oy,F->len); }
    while(ogg_sync_pageout(&oy,&og)==1){
      pageno++;
      if(ogg_page_bos(&og)){
        if(have_os){ printf("]}"); ogg_stream_clear(&os); vorbis_comment_clear(&vc); vorbis_info_clear(&vi); }
        ogg_stream_init(&os,ogg_page_serialno(&og)); have_os=1; nh=0; npk=0;
        vorbis_info_init(&vi); vorbis_comment_init(&vc);
        printf("%s{\"serial\":%ld,\"packets\":[",nlink?",":"",(long)ogg_page_serialno(&og)); nlink++;
      }
      if(!have_os||ogg_page_serialno(&og)!=os.serialno){ off+=og.header_len+og.body_len; continue; }
      ogg_stream_pagein(&os,&og);
      while(ogg_stream_packetout(&os,&op)==1){
        if(nh<3){ vorbis_synthesis_headerin(&vi,&vc,&op); nh++; continue; }
        printf("%s[%ld,%ld,%ld,%d]",npk?",":"",vorbis_packet_blocksize(&vi,&op),(long)op.granulepos,pageno,(int)op.e_o_s); npk++;
      }
      off+=og.header_len+og.body_len;
    }
    if(have_os){ printf("]}"); ogg_stream_clear(&os); vorbis_comment_clear(&vc); vorbis_info_clear(&vi); }
    ogg_sync_clear(&oy);
    printf("]");
  }
  printf("]\n");
}

int main(int argc,char **argv){
  const char *files=NULL,*cases=NULL; int timeout=20; int do_layout=0; int i; FILE *cf; char *line=NULL; size_t cap=0;
  for(i=1;i<argc;i++){
    if(!strcmp(argv[i],"--files"))files=argv[++i];
    else if(!strcmp(argv[i],"--cases"))cases=argv[++i];
    else if(!strcmp(argv[i],"--timeout"))timeout=atoi(argv[++i]);
    else if(!strcmp(argv[i],"--layout"))do_layout=1;
  }
  if(!files||(!cases&&!do_layout)){ fprintf(stderr,"usage\n"); return 2; }
  load_files(files);
  if(do_layout){ layout(); return 0; }
  cf=fopen(cases,"r"); if(!cf)return 2;
  signal(SIGVTALRM,on_alarm);
  while(getline(&line,&cap,cf)>0){
    char *sv,*tok; long idx; int fno; long rcap,rskip; OggVorbis_File vf; memio m; vfile *F; int orc;
    char rbuf[4096]; size_t rl=0; char pres[256]; char flags[128]; struct itimerval it; int machine=-1; double tt=-1; rt_t rt; char hx[40];
    rbuf[0]=0; flags[0]=0; strcpy(pres,"-");
    tok=strtok_r(line," \n",&sv); if(!tok)continue; idx=atol(tok); g_cur_idx=idx;
    tok=strtok_r(NULL," \n",&sv); if(!tok){ printf("%ld BADCASE\n",idx); continue; } fno=atoi(tok);
    tok=strtok_r(NULL," \n",&sv); if(!tok){ printf("%ld BADCASE\n",idx); continue; } rcap=atol(tok);
    tok=strtok_r(NULL," \n",&sv); if(!tok){ printf("%ld BADCASE\n",idx); continue; } rskip=atol(tok);
    if(fno<0||fno>=g_nfiles){ printf("%ld BADCASE\n",idx); continue; }
    F=&g_files[fno];
    need_href(F);     /* references are computed outside the watchdog and the script */
    memset(&it,0,sizeof(it)); it.it_value.tv_sec=timeout; setitimer(ITIMER_VIRTUAL,&it,NULL);
    mio_init(&m,F->data,F->len);
    memset(&vf,0x5a,sizeof(vf));
    orc=ov_open_callbacks(&m,&vf,NULL,0,mio_cb_seekable);
    if(orc<0){ memset(&it,0,sizeof(it)); setitimer(ITIMER_VIRTUAL,&it,NULL); printf("%ld BAD open=%d\n",idx,orc); fflush(stdout); continue; }
    while((tok=strtok_r(NULL," \n",&sv))){
      long rc=0; long tb,ta; int hs=0; int isread=0;
      if(vf.vi&&vf.vi->codec_setup)hs=((codec_setup_info*)vf.vi->codec_setup)->halfrate_flag;
      tb=(long)ov_pcm_tell(&vf);
      machine=(vf.ready_state>=INITSET)?1:0;
      if(!strncmp(tok,"rf",2)){ float **pcm; int bs=-1; rc=ov_read_float(&vf,&pcm,atoi(tok+2),&bs); isread=1; }
      else if(!strncmp(tok,"ps",2))rc=ov_pcm_seek(&vf,atoll(tok+2));
      else if(!strncmp(tok,"pp",2))rc=ov_pcm_seek_page(&vf,atoll(tok+2));
      else if(!strncmp(tok,"ts",2))rc=ov_time_seek(&vf,atof(tok+2));
      else if(!strncmp(tok,"tp",2))rc=ov_time_seek_page(&vf,atof(tok+2));
      else if(!strncmp(tok,"PS",2))rc=ov_pcm_seek_lap(&vf,atoll(tok+2));
      else if(!strncmp(tok,"PP",2))rc=ov_pcm_seek_page_lap(&vf,atoll(tok+2));
      else if(!strncmp(tok,"TS",2))rc=ov_time_seek_lap(&vf,atof(tok+2));
      else if(!strncmp(tok,"TP",2))rc=ov_time_seek_page_lap(&vf,atof(tok+2));
      else if(!strcmp(tok,"h1"))rc=ov_halfrate(&vf,1);
      else if(!strcmp(tok,"h0"))rc=ov_halfrate(&vf,0);
      else { printf("%ld BADOP %s\n",idx,tok); goto next; }
      ta=(long)ov_pcm_tell(&vf);
      if(isread&&rc>0&&tb>=0&&ta!=tb+(rc<<hs)){ strcpy(flags,"read_advance"); }
      if(rl+48<sizeof(rbuf))rl+=snprintf(rbuf+rl,sizeof(rbuf)-rl,"%s%ld:%ld",rl?",":"",rc,ta);
    }
    tt=ov_time_tell(&vf);
    {
      int hs=(vf.vi&&vf.vi->codec_setup)?((codec_setup_info*)vf.vi->codec_setup)->halfrate_flag:0;
      long total=(long)ov_pcm_total(&vf,-1);
      read_through(&vf,F,rcap,rskip,&rt,pres,sizeof(pres));
      h_hex(&rt.h,hx);
      ov_clear(&vf);
      memset(&it,0,sizeof(it)); setitimer(ITIMER_VIRTUAL,&it,NULL);
      printf("%ld R=%s M=%d TT=%.17g HS=%d P=%s N=%ld L=%ld E=%ld X=%s T=%ld F=%s\n",idx,rbuf[0]?rbuf:"-",machine,tt,hs,pres,rt.n,rt.nfirst,rt.endtell,hx,total,flags[0]?flags:"-");
      fflush(stdout);
    }
    continue;
    next:
    ov_clear(&vf); memset(&it,0,sizeof(it)); setitimer(ITIMER_VIRTUAL,&it,NULL); fflush(stdout);
  }
  return 0;
}
