/* c18_reent: callback-granularity interleaving of two independent vorbisfile "threads" (C18).
 *
 * libvorbisfile has no internal synchronisation, and the only places where the library hands control
 * back to the application in the middle of an API call are the application callbacks: the read / seek /
 * tell callbacks of ov_callbacks and the filter callback of ov_read_filter.  These are the yield points
 * of this executor.  Thread A executes one operation opA on its handle(s); the executor first counts the
 * K yield points opA passes when A runs alone, then re-executes the whole scenario once for every i < K
 * with thread B executing its complete operation opB (on B's own handles over B's own file) *inside*
 * yield point i of A: exactly the thread schedule "A runs to yield point i, switch to B, B runs opB,
 * switch back" (one preemption).  Realisations:
 *   mode I  on one OS thread: opB is called from inside A's callback (legal use: B's handles share no
 *           object with A's; A's handles are never entered re-entrantly),
 *   mode T  on two OS threads handing over with semaphores (one runnable at a time), so that stacks and
 *           every per-thread piece of state (FPU control) are separate,
 *   mode N  two preemptions, threads: A runs to yield point i, B runs to ITS yield point j, A completes
 *           opA, B completes opB; all pairs (i,j).
 *   mode F  like I, but every single execution (the two solo references too) runs in a freshly forked child of a
 *           parent that never calls the library: process-wide library state (a grow-only static buffer, a lazily
 *           built table) is pristine at the start of every execution, so with the AddressSanitizer build a shared
 *           buffer that one thread frees or outgrows under the other is reported, not only its wrong contents.
 * Oracle (property C18): the complete observation of A (return codes, every byte / float opA delivers,
 * what its filter callback was shown, pcm/raw/time position, bitstream index, ~2 blocks of audio read
 * afterwards from every handle of A) is bit-identical to A's observation when run alone, and the same for B.
 * Only values delivered through the API are compared (no internal fields, not the pattern of I/O requests).
 *
 * usage: c18_reent --files list.txt --cases cases.txt
 * case line: <idx> <mode> <fA> <posA> <opA> <fA2> <capA> <fB> <posB> <opB> <fB2> <capB> [<only_i> [<only_j>]]
 *   f*: index into the file list; f*2: file of the second handle of that thread (used by ops xl and oo only)
 *   pos: P0 fresh handle | P1 mid-block (5 decoded samples pending) | P5 block boundary in mid-stream (nothing pending) | P2 exactly at the end of link 0 of a chain |
 *        P3 three samples before the end of link 0 | Q1 like P1 with ov_halfrate(vf,1) set right after open
 *   op : r2 r1 (ov_read 16 bit / 8 bit)  rf (ov_read_float)  rq (ov_read_filter with a filter)
 *        ps pp rs ts tp + PS PP RS TS TP (plain / lapped seeks) followed by the target in 16ths of the total
 *        xl (ov_crosslap(h1,h2))  h1 (ov_halfrate(vf,1))  oo (ov_open_callbacks of the thread's second handle on file f*2)
 *   cap: every read callback of that thread delivers at most cap bytes (0: no cap)
 * output: <idx> ok K=.. kinds=.. KB=.. runs=.. unreached=.. rs0=.. pend=.. n1=.. rcA=.. rcB=.. nzA=.. nzB=.. bad=.. [ viol key=..|i=..|j=..|text]
 */
#include "vfcommon.h"
#include <pthread.h>
#include <semaphore.h>
#include <time.h>
#include <sys/mman.h>
#include <fcntl.h>

#define MAXK 4096
#define MAXIT 512

/* ------------------------------------------------------------------ observation log */
typedef struct { unsigned char *b; size_t n,cap; int ni; size_t off[MAXIT]; char tag[MAXIT][8]; long nz; } obs_t;
static void obs_reset(obs_t *o){ o->n=0; o->ni=0; o->nz=0; }
static void obs_put(obs_t *o,const char *tag,const void *p,size_t n){
  if(o->n+n+16>o->cap){ o->cap=(o->n+n+16)*2+4096; o->b=(unsigned char*)__real_realloc(o->b,o->cap); if(!o->b){ fprintf(stderr,"oom\n"); _exit(2); } }
  if(o->ni<MAXIT){ o->off[o->ni]=o->n; strncpy(o->tag[o->ni],tag,7); o->tag[o->ni][7]=0; }
  o->ni++;
  if(n)memcpy(o->b+o->n,p,n);
  o->n+=n;
}
static void obs_i(obs_t *o,const char *tag,long long v){ obs_put(o,tag,&v,8); }
static void obs_pcm(obs_t *o,const char *tag,float **pcm,int ch,long n){
  int c; long k;
  for(c=0;c<ch;c++){ obs_put(o,tag,pcm[c],sizeof(float)*(size_t)n); for(k=0;k<n;k++)if(pcm[c][k]!=0.f)o->nz++; }
}
static void obs_swap(obs_t *a,obs_t *b){ obs_t t=*a; *a=*b; *b=t; }
/* 0: identical; else describes the first differing item */
static int obs_diff(const obs_t *ref,const obs_t *got,char *txt,size_t cap){
  size_t m=ref->n<got->n?ref->n:got->n,d; int k,it=-1;
  if(ref->n==got->n&&!memcmp(ref->b,got->b,m))return 0;
  for(d=0;d<m;d++)if(ref->b[d]!=got->b[d])break;
  for(k=0;k<ref->ni&&k<MAXIT;k++)if(ref->off[k]<=d)it=k;
  if(it<0){ snprintf(txt,cap,"observation differs at byte %zu",d); return 1; }
  {
    size_t end=(it+1<ref->ni&&it+1<MAXIT)?ref->off[it+1]:ref->n,len=end-ref->off[it];
    if(len==8&&ref->off[it]+8<=got->n){ long long a,b; memcpy(&a,ref->b+ref->off[it],8); memcpy(&b,got->b+ref->off[it],8);
      snprintf(txt,cap,"item #%d '%s': alone %lld, interleaved %lld (logs %zu / %zu bytes)",it,ref->tag[it],a,b,ref->n,got->n); }
    else if(d+4<=m&&len>=4&&(strstr(ref->tag[it],".d")||strstr(ref->tag[it],"flt"))){ float a,b; size_t s=ref->off[it]+((d-ref->off[it])&~(size_t)3); memcpy(&a,ref->b+s,4); memcpy(&b,got->b+s,4);
      snprintf(txt,cap,"item #%d '%s' (%zu bytes of float PCM) differs from sample %zu of the item on: alone %.9g, interleaved %.9g (logs %zu / %zu bytes)",it,ref->tag[it],len,(d-ref->off[it])/4,(double)a,(double)b,ref->n,got->n); }
    else if(d<m){ snprintf(txt,cap,"item #%d '%s' (%zu bytes) differs from byte %zu of the item on: alone 0x%02x, interleaved 0x%02x (logs %zu / %zu bytes)",it,ref->tag[it],len,d-ref->off[it],ref->b[d],got->b[d],ref->n,got->n); }
    else snprintf(txt,cap,"item #%d '%s' differs (logs %zu / %zu bytes)",it,ref->tag[it],ref->n,got->n);
  }
  return 1;
}

/* ------------------------------------------------------------------ the two sides */
typedef struct { memio m; int owner; int second; } dsrc;
typedef struct {
  int owner; int f1,f2; char pos[8]; char op[16]; long cap;
  OggVorbis_File v1,v2; dsrc d1,d2; int open1,open2;
  obs_t o;
  int rs0; long pend0; int n1;      /* facts at the start of the op: ready_state, decoded samples pending, half short block */
  long oprc;
  char buf[8192];
} side_t;
static side_t SA,SB;

static struct {
  volatile int armedA,armedB;
  volatile long cntA,cntB,atA,atB;
  char kindsA[MAXK+1];
  int mode;                     /* 0: inline, 1: threads */
  volatile int b_started,b_done;
  sem_t sa,sb;
} E;

static volatile long g_cur=-1;
static char g_where[256]="C18R-AT none\n";
static void die_line(const char *what){ char b[96]; int n=snprintf(b,sizeof(b),"%ld TIMEOUT %s\n",(long)g_cur,what); fflush(stdout); if(write(1,b,n)<0){} _exit(3); }
static void on_alarm(int s){ (void)s; die_line("watchdog"); }
#if defined(__has_feature)
# if __has_feature(address_sanitizer)
#  define C18R_ASAN 1
# endif
#endif
#ifdef __SANITIZE_ADDRESS__
# define C18R_ASAN 1
#endif
#ifdef C18R_ASAN
void __asan_on_error(void){ if(write(2,g_where,strlen(g_where))<0){} }
#else
static void on_crash(int s){ char b[320]; int n=snprintf(b,sizeof(b),"%sC18R-SIGNAL %d\n",g_where,s); if(write(2,b,n)<0){} _exit(70); }
#endif

static void sem_wait_guarded(sem_t *s){
  struct timespec ts; clock_gettime(CLOCK_REALTIME,&ts); ts.tv_sec+=120;
  while(sem_timedwait(s,&ts)){ if(errno==EINTR)continue; die_line("handover-deadlock"); }
}
static void do_op(side_t *s);
static void run_b_op(void){ E.armedB=1; E.cntB=0; do_op(&SB); E.armedB=0; }
static void *b_main(void *arg){ (void)arg; sem_wait_guarded(&E.sb); run_b_op(); E.b_done=1; sem_post(&E.sa); return 0; }

static void yield_point(int owner,char kind){
  if(owner==0){
    long c;
    if(!E.armedA)return;
    c=E.cntA++;
    if(c<MAXK)E.kindsA[c]=kind;
    if(c==E.atA){
      E.b_started=1;
      if(E.mode==0){ run_b_op(); E.b_done=1; }
      else{ sem_post(&E.sb); sem_wait_guarded(&E.sa); }
    }
  }else{
    long c;
    if(!E.armedB)return;
    c=E.cntB++;
    if(c==E.atB&&E.mode==1){ sem_post(&E.sa); sem_wait_guarded(&E.sb); }
  }
}
static size_t cb_read(void *p,size_t sz,size_t n,void *ds){ dsrc *d=(dsrc*)ds; yield_point(d->owner,d->second?'r':'R'); return mio_read(p,sz,n,&d->m); }
static int cb_seek(void *ds,ogg_int64_t off,int wh){ dsrc *d=(dsrc*)ds; yield_point(d->owner,d->second?'s':'S'); return mio_seek(&d->m,off,wh); }
static long cb_tell(void *ds){ dsrc *d=(dsrc*)ds; yield_point(d->owner,d->second?'t':'T'); return mio_tell(&d->m); }
static int cb_close(void *ds){ (void)ds; return 0; }
static ov_callbacks g_cb={ cb_read, cb_seek, cb_close, cb_tell };

/* the filter of ov_read_filter: a yield point; what it is shown is part of the observation; it attenuates the block */
static void flt(float **pcm,long ch,long n,void *param){
  side_t *s=(side_t*)param; int c; long k;
  yield_point(s->owner,'F');
  obs_i(&s->o,"flt.ch",ch); obs_i(&s->o,"flt.n",n);
  obs_pcm(&s->o,"flt.in",pcm,(int)ch,n);
  for(c=0;c<ch;c++)for(k=0;k<n;k++)pcm[c][k]*=0.75f;
}

static int open_h(side_t *s,OggVorbis_File *v,dsrc *d,int f,int second){
  memset(d,0,sizeof(*d)); mio_init(&d->m,g_files[f].data,g_files[f].len); d->m.cap=s->cap; d->owner=s->owner; d->second=second;
  return ov_open_callbacks(d,v,NULL,0,g_cb);
}
static long pending(OggVorbis_File *v){ return v->ready_state==INITSET?vorbis_synthesis_pcmout(&v->vd,NULL):-1; }

/* open the handles of a side and bring handle 1 to the prepared position; 0 on success */
static int prepare(side_t *s){
  OggVorbis_File *v=&s->v1; float **pcm; int bs=-1,r,half=0;
  s->open1=s->open2=0; obs_reset(&s->o);
  if((r=open_h(s,&s->v1,&s->d1,s->f1,0))<0)return r;
  s->open1=1;
  if(!strncmp(s->op,"xl",2)){ if((r=open_h(s,&s->v2,&s->d2,s->f2,1))<0)return r; s->open2=1; }
  if(s->pos[0]=='Q'){ half=1; if(ov_halfrate(v,1))return -7001; }
  if(!strcmp(s->pos+1,"0")){
  }else if(!strcmp(s->pos+1,"1")||!strcmp(s->pos+1,"5")){
    long av; int guard=0;
    ov_read_float(v,&pcm,4096,&bs); ov_read_float(v,&pcm,4096,&bs);
    while((av=pending(v))<=5){ if(ov_read_float(v,&pcm,1,&bs)<=0||++guard>64)return -7002; }
    if(ov_read_float(v,&pcm,(int)(av-5),&bs)!=av-5)return -7003;
    if(s->pos[1]=='5'&&ov_read_float(v,&pcm,5,&bs)!=5)return -7008;      /* block boundary: nothing pending, the next read must decode a packet */
  }else if(!strcmp(s->pos+1,"2")||!strcmp(s->pos+1,"3")){
    ogg_int64_t t; int guard=0;
    if(ov_streams(v)<2)return -7004;
    t=ov_pcm_total(v,0);
    if(ov_pcm_seek(v,t-(3<<half)))return -7005;
    if(s->pos[1]=='2')while(ov_pcm_tell(v)<t){ if(ov_read_float(v,&pcm,1,&bs)<=0||++guard>16)return -7006; }
  }else return -7007;
  return 0;
}
static void facts(side_t *s){
  OggVorbis_File *v=&s->v1; vorbis_info *vi=ov_info(v,-1);
  s->rs0=v->ready_state; s->pend0=pending(v);
  s->n1=vi?(int)(vorbis_info_blocksize(vi,0)>>(1+(ov_halfrate_p(v)>0?1:0))):0;
}

static void obs_readf(side_t *s,OggVorbis_File *v,const char *tag,int want){
  float **pcm=0; int bs=-1; long rc=ov_read_float(v,&pcm,want,&bs); char t[8];
  snprintf(t,sizeof(t),"%s.rc",tag); obs_i(&s->o,t,rc);
  snprintf(t,sizeof(t),"%s.bs",tag); obs_i(&s->o,t,bs);
  if(rc>0&&bs>=0&&bs<v->links){ snprintf(t,sizeof(t),"%s.d",tag); obs_pcm(&s->o,t,pcm,v->vi[v->seekable?bs:0].channels,rc); }
}
static void do_op(side_t *s){
  OggVorbis_File *v=&s->v1; const char *op=s->op; int bs=-1; long rc=0; obs_t *o=&s->o;
  int frac=op[0]&&op[1]?atoi(op+2):0;
  if(!strcmp(op,"r2")||!strcmp(op,"r1")||!strcmp(op,"rq")){
    memset(s->buf,0x5c,sizeof(s->buf));
    if(!strcmp(op,"r2"))rc=ov_read(v,s->buf,4096,0,2,1,&bs);
    else if(!strcmp(op,"r1"))rc=ov_read(v,s->buf,1500,0,1,0,&bs);
    else rc=ov_read_filter(v,s->buf,4096,0,2,1,&bs,flt,s);
    obs_i(o,"op.rc",rc); obs_i(o,"op.bs",bs);
    if(rc>0&&rc<=(long)sizeof(s->buf)){ long k; obs_put(o,"op.pcm",s->buf,(size_t)rc); for(k=0;k<rc;k++)if(s->buf[k])o->nz++; }
  }else if(!strcmp(op,"rf")){
    obs_readf(s,v,"op",1024); rc=1;
  }else if(!strncmp(op,"ps",2))rc=ov_pcm_seek(v,ov_pcm_total(v,-1)*frac/16);
  else if(!strncmp(op,"pp",2))rc=ov_pcm_seek_page(v,ov_pcm_total(v,-1)*frac/16);
  else if(!strncmp(op,"rs",2))rc=ov_raw_seek(v,ov_raw_total(v,-1)*frac/16);
  else if(!strncmp(op,"ts",2))rc=ov_time_seek(v,ov_time_total(v,-1)*frac/16.);
  else if(!strncmp(op,"tp",2))rc=ov_time_seek_page(v,ov_time_total(v,-1)*frac/16.);
  else if(!strncmp(op,"PS",2))rc=ov_pcm_seek_lap(v,ov_pcm_total(v,-1)*frac/16);
  else if(!strncmp(op,"PP",2))rc=ov_pcm_seek_page_lap(v,ov_pcm_total(v,-1)*frac/16);
  else if(!strncmp(op,"RS",2))rc=ov_raw_seek_lap(v,ov_raw_total(v,-1)*frac/16);
  else if(!strncmp(op,"TS",2))rc=ov_time_seek_lap(v,ov_time_total(v,-1)*frac/16.);
  else if(!strncmp(op,"TP",2))rc=ov_time_seek_page_lap(v,ov_time_total(v,-1)*frac/16.);
  else if(!strcmp(op,"xl"))rc=ov_crosslap(&s->v1,&s->v2);
  else if(!strcmp(op,"h1"))rc=ov_halfrate(v,1);
  else if(!strcmp(op,"oo")){      /* open a second handle (every callback of the open sequence is a yield point) and look at what it learned */
    rc=open_h(s,&s->v2,&s->d2,s->f2,1);
    if(rc==0){ int l; vorbis_comment *vc; s->open2=1;
      obs_i(o,"oo.lnk",ov_streams(&s->v2)); obs_i(o,"oo.tot",ov_pcm_total(&s->v2,-1)); obs_i(o,"oo.raw",ov_raw_total(&s->v2,-1)); obs_i(o,"oo.sk",ov_seekable(&s->v2));
      for(l=0;l<ov_streams(&s->v2);l++){ vorbis_info *vi=ov_info(&s->v2,l); obs_i(o,"oo.ch",vi->channels); obs_i(o,"oo.rt",vi->rate); obs_i(o,"oo.pt",ov_pcm_total(&s->v2,l)); obs_i(o,"oo.sn",ov_serialnumber(&s->v2,l));
        vc=ov_comment(&s->v2,l); if(vc&&vc->vendor)obs_put(o,"oo.vnd",vc->vendor,strlen(vc->vendor)); if(vc&&vc->comments>0)obs_put(o,"oo.c0",vc->user_comments[0],(size_t)vc->comment_lengths[0]); }
    }
  }
  else rc=-7100;
  if(!(op[0]=='r'&&strchr("21qf",op[1])))obs_i(o,"op.rc",rc);     /* the read ops have logged their return code with the data */
  s->oprc=rc;
}
static void follow_h(side_t *s,OggVorbis_File *v,dsrc *d,const char *p){
  char t[8]; int k;
  snprintf(t,sizeof(t),"%s.tel",p); obs_i(&s->o,t,ov_pcm_tell(v));
  snprintf(t,sizeof(t),"%s.raw",p); obs_i(&s->o,t,ov_raw_tell(v));
  snprintf(t,sizeof(t),"%s.hr",p); obs_i(&s->o,t,ov_halfrate_p(v));
  for(k=0;k<3;k++){ snprintf(t,sizeof(t),"%s%d",p,k); obs_readf(s,v,t,4096); }
  snprintf(t,sizeof(t),"%s.te2",p); obs_i(&s->o,t,ov_pcm_tell(v));
  snprintf(t,sizeof(t),"%s.tt",p); { double tt=ov_time_tell(v); obs_put(&s->o,t,&tt,sizeof(tt)); }
  (void)d;   /* only what the API delivers is compared: internal fields of the handle and the pattern of I/O requests are not part of the property */
}
static void followup(side_t *s){ if(s->open2)follow_h(s,&s->v2,&s->d2,"g"); follow_h(s,&s->v1,&s->d1,"f"); }
static void closeall(side_t *s){ if(s->open1)ov_clear(&s->v1); if(s->open2)ov_clear(&s->v2); s->open1=s->open2=0; }

static int run_solo(side_t *s){
  int r=prepare(s);
  if(r){ closeall(s); return r; }
  facts(s);
  E.atA=E.atB=-1; E.cntA=E.cntB=0; E.mode=0; E.b_started=E.b_done=0;
  if(s->owner==0){ memset(E.kindsA,0,sizeof(E.kindsA)); E.armedA=1; do_op(s); E.armedA=0; }
  else{ E.armedB=1; do_op(s); E.armedB=0; }
  followup(s); closeall(s);
  return 0;
}
/* one interleaved execution; returns 0 ok, <0 preparation failure; *unreached set when yield point i was never passed */
static int run_inter(int mode,long i,long j,int *unreached){
  pthread_t th; int r;
  if((r=prepare(&SA))){ closeall(&SA); return r; }
  if((r=prepare(&SB))){ closeall(&SA); closeall(&SB); return r-100; }
  E.atA=i; E.atB=j; E.cntA=E.cntB=0; E.mode=mode; E.b_started=E.b_done=0;
  if(mode==1){ sem_init(&E.sa,0,0); sem_init(&E.sb,0,0); if(pthread_create(&th,NULL,b_main,NULL)){ fprintf(stderr,"pthread_create failed\n"); _exit(2); } }
  E.armedA=1; do_op(&SA); E.armedA=0;
  *unreached=!E.b_started;
  if(mode==1){
    while(!E.b_done){ sem_post(&E.sb); sem_wait_guarded(&E.sa); }
    pthread_join(th,NULL); sem_destroy(&E.sa); sem_destroy(&E.sb);
  }else if(!E.b_started){ run_b_op(); E.b_done=1; }
  followup(&SA); followup(&SB);
  closeall(&SA); closeall(&SB);
  return 0;
}

static const char *opkind(const char *op,char *out){ out[0]=op[0]; out[1]=op[1]; out[2]=0; return out; }

/* ------------------------------------------------------------------ jobs: one execution each, in-process or in a forked child */
#define OBSMAX (768*1024)
typedef struct { size_t n; int ni; size_t off[MAXIT]; char tag[MAXIT][8]; long nz; int overflow; unsigned char b[OBSMAX]; } obs_sh;
typedef struct {
  int rc,unreached; long K,KB; char kinds[MAXK+1];
  int rs0,n1; long pend0,oprcA,oprcB;
  obs_sh oa,ob;
} shared_t;
static shared_t *SH=0;
static void obs_export(const obs_t *o,obs_sh *x){
  x->overflow=o->n>OBSMAX; x->n=x->overflow?0:o->n; x->ni=o->ni; x->nz=o->nz;
  memcpy(x->off,o->off,sizeof(x->off)); memcpy(x->tag,o->tag,sizeof(x->tag));
  if(x->n)memcpy(x->b,o->b,x->n);
}
static void obs_import(obs_t *o,const obs_sh *x){
  obs_reset(o);
  if(x->n+16>o->cap){ o->cap=x->n+4096; o->b=(unsigned char*)__real_realloc(o->b,o->cap); }
  if(x->n)memcpy(o->b,x->b,x->n);
  o->n=x->n; o->ni=x->ni; o->nz=x->nz; memcpy(o->off,x->off,sizeof(x->off)); memcpy(o->tag,x->tag,sizeof(x->tag));
}
typedef struct { int what; int md; long i,j; } job_t;     /* what 0: A alone, 1: B alone, 2: interleaved */
static int child_job(void *arg){
  job_t *jb=(job_t*)arg;
  SH->rc=0; SH->unreached=0;
  if(jb->what==0){
    SH->rc=run_solo(&SA); SH->K=E.cntA; memcpy(SH->kinds,E.kindsA,MAXK+1);
    SH->rs0=SA.rs0; SH->n1=SA.n1; SH->pend0=SA.pend0; SH->oprcA=SA.oprc; obs_export(&SA.o,&SH->oa);
  }else if(jb->what==1){
    SH->rc=run_solo(&SB); SH->KB=E.cntB; SH->oprcB=SB.oprc; obs_export(&SB.o,&SH->ob);
  }else{
    int unr=0; SH->rc=run_inter(jb->md,jb->i,jb->j,&unr); SH->unreached=unr;
    obs_export(&SA.o,&SH->oa); obs_export(&SB.o,&SH->ob);
  }
  return 0;
}
/* returns OC_*; err receives the head of the child's stderr */
static int exec_job(job_t *jb,int forked,int *detail,char *err,size_t errcap){
  err[0]=0; *detail=0;
  if(!forked){ child_job(jb); return OC_OK; }
  {
    char path[]="/dev/shm/c18r.XXXXXX"; int fd=mkstemp(path),oc; ssize_t n;
    if(fd<0){ strcpy(path,"/tmp/c18r.XXXXXX"); fd=mkstemp(path); }
    if(fd>=0)unlink(path);
    SH->rc=-7999;
    oc=run_isolated(child_job,jb,60,0,detail,fd);
    if(fd>=0){ lseek(fd,0,SEEK_SET); n=read(fd,err,errcap-1); err[n>0?n:0]=0; close(fd); }
    { char *q; for(q=err;*q;q++)if(*q=='\n'||*q=='|')*q=' '; }
    return oc;
  }
}

int main(int argc,char **argv){
  const char *files=NULL,*cases=NULL; int i; FILE *cf; char *line=NULL; size_t cap=0;
  static obs_t soloA,soloB,gotA,gotB;
  for(i=1;i<argc;i++){
    if(!strcmp(argv[i],"--files")&&i+1<argc)files=argv[++i];
    else if(!strcmp(argv[i],"--cases")&&i+1<argc)cases=argv[++i];
  }
  if(!files||!cases){ fprintf(stderr,"usage: c18_reent --files list --cases file\n"); return 2; }
  load_files(files);
  cf=fopen(cases,"r"); if(!cf){ perror(cases); return 2; }
  SH=(shared_t*)mmap(NULL,sizeof(shared_t),PROT_READ|PROT_WRITE,MAP_SHARED|MAP_ANONYMOUS,-1,0);
  if(SH==MAP_FAILED){ perror("mmap"); return 2; }
  signal(SIGVTALRM,on_alarm); signal(SIGALRM,on_alarm);
#ifndef C18R_ASAN
  signal(SIGSEGV,on_crash); signal(SIGBUS,on_crash); signal(SIGFPE,on_crash); signal(SIGABRT,on_crash); signal(SIGILL,on_crash);
#endif
  memset(&SA,0,sizeof(SA)); memset(&SB,0,sizeof(SB)); SA.owner=0; SB.owner=1;
  while(getline(&line,&cap,cf)>0){
    long idx,only_i=-1,only_j=-1,K,KB,runs=0,unreached=0,bad=0,a,b; char mode; int n,md,forked,oc,detail; struct itimerval it; job_t jb;
    char viol[1400]=""; char kinds[MAXK+1]; char ka[4],kb[4]; char err[700];
    int rs0,n1; long pend0,rcA,rcB,nzA,nzB;
    n=sscanf(line,"%ld %c %d %7s %15s %d %ld %d %7s %15s %d %ld %ld %ld",&idx,&mode,&SA.f1,SA.pos,SA.op,&SA.f2,&SA.cap,&SB.f1,SB.pos,SB.op,&SB.f2,&SB.cap,&only_i,&only_j);
    if(n<1)continue;
    g_cur=idx;
    if(n<12||!strchr("ITNF",mode)||SA.f1<0||SA.f1>=g_nfiles||SA.f2<0||SA.f2>=g_nfiles||SB.f1<0||SB.f1>=g_nfiles||SB.f2<0||SB.f2>=g_nfiles){ printf("%ld BADCASE\n",idx); fflush(stdout); continue; }
    forked=(mode=='F'); md=(mode=='T'||mode=='N')?1:0;
    memset(&it,0,sizeof(it)); it.it_value.tv_sec=240; setitimer(ITIMER_VIRTUAL,&it,NULL); alarm(1500);
    snprintf(g_where,sizeof(g_where),"C18R-AT case=%ld phase=soloA i=-1 j=-1\n",idx);
    jb.what=0; jb.md=0; jb.i=jb.j=-1;
    oc=exec_job(&jb,forked,&detail,err,sizeof(err));
    if(oc!=OC_OK||SH->rc){ printf("%ld PREPFAIL A oc=%d detail=%d rc=%d %s\n",idx,oc,detail,SH->rc,err); fflush(stdout); continue; }
    if(SH->oa.overflow){ printf("%ld OBSOVERFLOW A\n",idx); fflush(stdout); continue; }
    obs_import(&soloA,&SH->oa); K=SH->K; if(K>MAXK){ printf("%ld TOOMANY %ld\n",idx,K); fflush(stdout); continue; }
    memcpy(kinds,SH->kinds,MAXK+1); kinds[K]=0;
    rs0=SH->rs0; n1=SH->n1; pend0=SH->pend0; rcA=SH->oprcA; nzA=soloA.nz;
    snprintf(g_where,sizeof(g_where),"C18R-AT case=%ld phase=soloB i=-1 j=-1\n",idx);
    jb.what=1;
    oc=exec_job(&jb,forked,&detail,err,sizeof(err));
    if(oc!=OC_OK||SH->rc){ printf("%ld PREPFAIL B oc=%d detail=%d rc=%d %s\n",idx,oc,detail,SH->rc,err); fflush(stdout); continue; }
    if(SH->ob.overflow){ printf("%ld OBSOVERFLOW B\n",idx); fflush(stdout); continue; }
    obs_import(&soloB,&SH->ob); KB=SH->KB; rcB=SH->oprcB; nzB=soloB.nz;
    for(a=(only_i>=0?only_i:0);a<(only_i>=0?only_i+1:K);a++){
      for(b=(mode=='N'?(only_j>=0?only_j:0):-1);b<(mode=='N'?(only_j>=0?only_j+1:KB):0);b++){
        char txt[400]; char kd=(a<K?kinds[a]:'?');
        snprintf(g_where,sizeof(g_where),"C18R-AT case=%ld phase=inter i=%ld j=%ld kind=%c\n",idx,a,b,kd);
        jb.what=2; jb.md=md; jb.i=a; jb.j=b;
        oc=exec_job(&jb,forked,&detail,err,sizeof(err));
        runs++;
        if(oc!=OC_OK){
          bad++;
          if(!viol[0])snprintf(viol,sizeof(viol)," viol key=reent_crash:%s@%c:%s|i=%ld|j=%ld|side=-|thread A's %s (from %s) with thread B's %s inside A's callback #%ld (%c): the execution %s (outcome %d/%d) although both threads complete when run alone: %s",
            opkind(SA.op,ka),kd,opkind(SB.op,kb),a,b,SA.op,SA.pos,SB.op,a,kd,oc==OC_TIMEOUT?"did not terminate":oc==OC_SANITIZER?"was stopped by the sanitizer":"died",oc,detail,err);
          continue;
        }
        if(SH->rc){ bad++; if(!viol[0])snprintf(viol,sizeof(viol)," viol key=reent_prepare:%s:%s|i=%ld|j=%ld|side=%c|preparing the handles failed (%d) in the interleaved execution although it worked alone",opkind(SA.op,ka),opkind(SB.op,kb),a,b,SH->rc<=-100?'B':'A',SH->rc); continue; }
        if(SH->unreached)unreached++;
        if(SH->oa.overflow||SH->ob.overflow){ bad++; if(!viol[0])snprintf(viol,sizeof(viol)," viol key=reent:obs_overflow|i=%ld|j=%ld|side=-|observation log outgrew its buffer in the interleaved execution only",a,b); continue; }
        obs_import(&gotA,&SH->oa); obs_import(&gotB,&SH->ob);
        if(obs_diff(&soloA,&gotA,txt,sizeof(txt))){ bad++; if(!viol[0])snprintf(viol,sizeof(viol)," viol key=reent:A:%s@%c:%s|i=%ld|j=%ld|side=A|thread A (%s from %s) differs from its solo run when thread B's %s ran inside A's callback #%ld (%c): %s",opkind(SA.op,ka),kd,opkind(SB.op,kb),a,b,SA.op,SA.pos,SB.op,a,kd,txt); }
        else if(obs_diff(&soloB,&gotB,txt,sizeof(txt))){ bad++; if(!viol[0])snprintf(viol,sizeof(viol)," viol key=reent:B:%s@%c:%s|i=%ld|j=%ld|side=B|thread B (%s from %s) differs from its solo run when it ran inside callback #%ld (%c) of thread A's %s: %s",opkind(SA.op,ka),kd,opkind(SB.op,kb),a,b,SB.op,SB.pos,a,kd,SA.op,txt); }
      }
    }
    memset(&it,0,sizeof(it)); setitimer(ITIMER_VIRTUAL,&it,NULL); alarm(0);
    printf("%ld ok K=%ld kinds=%s KB=%ld runs=%ld unreached=%ld rs0=%d pend=%ld n1=%d rcA=%ld rcB=%ld nzA=%ld nzB=%ld bad=%ld%s\n",
           idx,K,K?kinds:"-",KB,runs,unreached,rs0,pend0,n1,rcA,rcB,nzA,nzB,bad,viol);
    fflush(stdout);
  }
  fclose(cf);
  return 0;
}
