/* c02_dec: packet-level decode API executor for arbitrary packets and call orders (ASan / plain).
 * usage: c02_dec --table packets.bin --cases cases.txt [--timeout s]
 * packets.bin: int32 nsets; per set: int32 npackets; per packet: int32 len, bytes.   A case names one set; packet operands index into it.
 * case line: <idx> <set#> op op ... [ALL<len>]
 *   packet operand <p>:  <k>            packet k of the set, verbatim
 *                        <k>p<len>      byte-prefix of length len
 *                        <k>b<bit>      single bit flipped   (<k>b<b1>,<b2> two bits)
 *                        <k>f<off>:<width>:<value>   bit field at bit offset off replaced by value (LSb-first packing)
 *                        <k>z<n>        n zero bytes appended
 *                        *              the enumerated byte string (ALL<len> mode: the whole op list is run once per byte string of length len on fresh objects)
 *   ops: I (info+comment init)  H<p> headerin   Hb<p> headerin with b_o_s set   S synthesis_init   B block_init
 *        Y<p> synthesis   Ye<p> synthesis with e_o_s   Yg<gran>:<p> synthesis with granulepos   T<p> trackonly   N blockin   O pcmout+touch   o pcmout(NULL)
 *        R0 R1 Ra RA read(0|1|all|all+1)   L lapout   X restart   h0 h1 halfrate   hp halfrate_p   K<p> packet_blocksize   D<p> idheader
 *        cb cd ci cc  clears (may repeat).   Ops whose object was never initialised / is already cleared are skipped and reported as '~'.
 * At the end every object still alive is cleared (twice).
 * --heapcap <bytes>: a request that would take the library's live heap above this ends the case at once (C=1, P=live+request); 0 = no cap.
 * output: <idx> R=<rc,rc,...> L=<live bytes before final clears> E=<live blocks after clears> P=<peak bytes> X=<exit called 0/1> [N=<strings enumerated>] */
#define WA_SLOTS 8192
/* heap-cap gate: common.h's allocator wrappers reach the real allocator through these three names; we route them through a gate that
 * refuses (and ends the case) when the library's live heap would pass --heapcap bytes.  The request itself is the verdict (P=live+request). */
#define __real_malloc c02_gate_malloc
#define __real_calloc c02_gate_calloc
#define __real_realloc c02_gate_realloc
#include "common.h"
#undef __real_malloc
#undef __real_calloc
#undef __real_realloc
void *__real_malloc(size_t); void *__real_calloc(size_t,size_t); void *__real_realloc(void*,size_t);
#include "codec_internal.h"
#include <setjmp.h>
#include <sys/mman.h>
#include <sys/stat.h>
#include <fcntl.h>

typedef struct { unsigned char *p; int len; } pkt;
typedef struct { pkt *pk; int n; } pset;
static pset *sets; static int nsets;
static volatile long g_idx=-1; static volatile long g_enum=-1;
static int g_exit_called=0;
static jmp_buf g_exit_jmp; static int g_exit_armed=0;

void __real_exit(int); void __real_abort(void);
void __wrap_exit(int c){ g_exit_called=1; if(g_exit_armed)longjmp(g_exit_jmp,1); __real_exit(c); }
void __wrap_abort(void){ g_exit_called=1; if(g_exit_armed)longjmp(g_exit_jmp,1); __real_abort(); }

static long g_heapcap=0; static int g_capped=0; static unsigned long long g_cap_peak=0;
static void cap_check(size_t a,size_t b){
  unsigned long long n;
  if(!wa_on||g_heapcap<=0||!g_exit_armed)return;
  n=(b&&a>(size_t)-1/b)?~0ULL>>1:(unsigned long long)a*b;
  if(n>(unsigned long long)g_heapcap||(unsigned long long)wa_live_bytes+n>(unsigned long long)g_heapcap){
    g_capped=1; g_cap_peak=(unsigned long long)wa_live_bytes+n; if(g_cap_peak>(~0ULL>>1))g_cap_peak=~0ULL>>1;
    longjmp(g_exit_jmp,2);
  }
}
void *c02_gate_malloc(size_t n){ cap_check(n,1); return __real_malloc(n); }
void *c02_gate_calloc(size_t a,size_t b){ cap_check(a,b); return __real_calloc(a,b); }
void *c02_gate_realloc(void *p,size_t n){ cap_check(n,1); return __real_realloc(p,n); }

static void on_alarm(int s){ char b[96]; int n=snprintf(b,sizeof(b),"%ld TIMEOUT enum=%ld\n",g_idx,g_enum); fflush(stdout); if(write(1,b,n)<0){} _exit(3); }
void __asan_on_error(void){ char b[96]; int n=snprintf(b,sizeof(b),"\nCASE %ld enum=%ld\n",g_idx,g_enum); if(write(2,b,n)<0){} }

/* the table is mapped, not read: a worker that runs a handful of cases out of a 60 MB table touches only the packets it uses */
static void load_table(const char *path){
  int fd=open(path,O_RDONLY); struct stat st; const unsigned char *m; size_t o=0; int s,i;
  if(fd<0||fstat(fd,&st)<0||st.st_size<4){ fprintf(stderr,"no table\n"); exit(2); }
  m=(const unsigned char*)mmap(NULL,st.st_size,PROT_READ,MAP_PRIVATE,fd,0);
  if(m==MAP_FAILED){ fprintf(stderr,"no table\n"); exit(2); }
  memcpy(&nsets,m,4); o=4;
  sets=(pset*)__real_calloc(nsets,sizeof(pset));
  for(s=0;s<nsets;s++){
    if(o+4>(size_t)st.st_size)exit(2);
    memcpy(&sets[s].n,m+o,4); o+=4;
    sets[s].pk=(pkt*)__real_calloc(sets[s].n,sizeof(pkt));
    for(i=0;i<sets[s].n;i++){ int l; if(o+4>(size_t)st.st_size)exit(2); memcpy(&l,m+o,4); o+=4; if(l<0||o+l>(size_t)st.st_size)exit(2); sets[s].pk[i].len=l; sets[s].pk[i].p=(unsigned char*)(m+o); o+=l; }
  }
  close(fd);
}

/* builds the packet operand into buf (exact-size heap block so that ASan sees overreads); returns length or -1 */
static unsigned char *g_opbuf=NULL;
static int operand(pset *S,const char *t,const unsigned char *enumstr,int enumlen,unsigned char **out){
  int k,len; const char *q; unsigned char *b;
  if(g_opbuf){ __real_free(g_opbuf); g_opbuf=NULL; }
  if(t[0]=='*'){ b=(unsigned char*)__real_malloc(enumlen?enumlen:1); memcpy(b,enumstr,enumlen); *out=g_opbuf=b; return enumlen; }
  k=(int)strtol(t,(char**)&q,10);
  if(k<0||k>=S->n)return -1;
  len=S->pk[k].len;
  if(*q=='p'){ int l=atoi(q+1); if(l<len)len=l; b=(unsigned char*)__real_malloc(len?len:1); memcpy(b,S->pk[k].p,len); }
  else if(*q=='t'){ int l=0,v=0,z=0; sscanf(q+1,"%d:%d:%d",&l,&v,&z); if(l<len)len=l; if(z<0)z=0; b=(unsigned char*)__real_malloc(len+z+1); memcpy(b,S->pk[k].p,len); memset(b+len,v,z); len+=z; }
  else if(*q=='z'){ int z=atoi(q+1); b=(unsigned char*)__real_malloc(len+z+1); memcpy(b,S->pk[k].p,len); memset(b+len,0,z); len+=z; }
  else{
    b=(unsigned char*)__real_malloc(len?len:1); memcpy(b,S->pk[k].p,len);
    if(*q=='b'){ const char *r=q+1; while(*r){ long bit=strtol(r,(char**)&r,10); if(bit>=0&&bit<8L*len)b[bit>>3]^=1<<(bit&7); if(*r==',')r++; else break; } }
    else if(*q=='f'){ long off,w; unsigned long long v; int i; if(sscanf(q+1,"%ld:%ld:%llu",&off,&w,&v)==3){ for(i=0;i<w;i++){ long bit=off+i; if(bit<8L*len){ if((v>>i)&1)b[bit>>3]|=1<<(bit&7); else b[bit>>3]&=~(1<<(bit&7)); } } } }
  }
  *out=g_opbuf=b; return len;
}

typedef struct { vorbis_info vi; vorbis_comment vc; vorbis_dsp_state vd; vorbis_block vb; int vi_ok,vc_ok,vd_ok,vb_ok; } objs;

static void run_ops(pset *S,char **ops,int nops,const unsigned char *es,int el,char *rbuf,size_t rcap,long *live_before){
  objs o; int i; size_t rl=0; long pno=0;
  memset(&o,0,sizeof(o));
  rbuf[0]=0;
  for(i=0;i<nops;i++){
    const char *t=ops[i]; long rc=0; int skipped=0; unsigned char *pb; int pl; ogg_packet op;
    memset(&op,0,sizeof(op));
#define PK(str) do{ pl=operand(S,(str),es,el,&pb); if(pl<0){ skipped=1; } op.packet=pb; op.bytes=pl; op.packetno=pno++; op.granulepos=-1; }while(0)
    /* object states: 0 never initialised, 1 live, 2 cleared */
    if(!strcmp(t,"I")){ if(o.vi_ok==1||o.vc_ok==1)skipped=1; else{ vorbis_info_init(&o.vi); vorbis_comment_init(&o.vc); o.vi_ok=o.vc_ok=1; } }
    else if(t[0]=='H'){ int bos=(t[1]=='b'); PK(t+1+bos); if(o.vi_ok!=1||o.vc_ok!=1)skipped=1; if(!skipped){ op.b_o_s=bos; rc=vorbis_synthesis_headerin(&o.vi,&o.vc,&op); } }
    else if(!strcmp(t,"S")){ if(o.vi_ok!=1||o.vd_ok==1)skipped=1; else{ rc=vorbis_synthesis_init(&o.vd,&o.vi); if(rc==0)o.vd_ok=1; } }
    else if(!strcmp(t,"B")){ if(o.vd_ok!=1||o.vb_ok==1)skipped=1; else{ rc=vorbis_block_init(&o.vd,&o.vb); o.vb_ok=1; } }
    else if(t[0]=='Y'||t[0]=='T'){
      const char *a=t+1; int eos=0; ogg_int64_t gp=-1;
      if(*a=='e'){ eos=1; a++; }
      if(*a=='g'){ gp=strtoll(a+1,(char**)&a,10); if(*a==':')a++; }
      PK(a); if(o.vb_ok!=1||o.vd_ok!=1)skipped=1;
      if(!skipped){ op.e_o_s=eos; op.granulepos=gp; rc=(t[0]=='Y')?vorbis_synthesis(&o.vb,&op):vorbis_synthesis_trackonly(&o.vb,&op); }
    }
    else if(!strcmp(t,"N")){ if(o.vb_ok!=1||o.vd_ok!=1)skipped=1; else rc=vorbis_synthesis_blockin(&o.vd,&o.vb); }
    else if(!strcmp(t,"O")){ if(o.vd_ok!=1)skipped=1; else{ float **pcm; int c,j; volatile float acc=0; rc=vorbis_synthesis_pcmout(&o.vd,&pcm); for(c=0;c<o.vi.channels&&rc>0;c++)for(j=0;j<rc;j++)acc+=pcm[c][j]; (void)acc; } }
    else if(!strcmp(t,"o")){ if(o.vd_ok!=1)skipped=1; else rc=vorbis_synthesis_pcmout(&o.vd,NULL); }
    else if(t[0]=='R'){ if(o.vd_ok!=1)skipped=1; else{ int av=vorbis_synthesis_pcmout(&o.vd,NULL); int n=t[1]=='0'?0:t[1]=='1'?1:t[1]=='a'?av:av+1; rc=vorbis_synthesis_read(&o.vd,n); } }
    else if(!strcmp(t,"L")){ if(o.vd_ok!=1)skipped=1; else{ float **pcm; int c,j; volatile float acc=0; rc=vorbis_synthesis_lapout(&o.vd,&pcm); for(c=0;c<o.vi.channels&&rc>0;c++)for(j=0;j<rc;j++)acc+=pcm[c][j]; (void)acc; } }
    else if(!strcmp(t,"X")){ if(o.vd_ok!=1)skipped=1; else rc=vorbis_synthesis_restart(&o.vd); }
    else if(!strcmp(t,"h0")||!strcmp(t,"h1")){ if(o.vi_ok!=1)skipped=1; else rc=vorbis_synthesis_halfrate(&o.vi,t[1]=='1'); }
    else if(!strcmp(t,"hp")){ if(o.vi_ok!=1)skipped=1; else rc=vorbis_synthesis_halfrate_p(&o.vi); }
    else if(t[0]=='K'){ PK(t+1); if(o.vi_ok!=1)skipped=1; if(!skipped)rc=vorbis_packet_blocksize(&o.vi,&op); }
    else if(t[0]=='D'){ PK(t+1); if(!skipped)rc=vorbis_synthesis_idheader(&op); }
    else if(!strcmp(t,"cb")){ if(!o.vb_ok)skipped=1; else{ rc=vorbis_block_clear(&o.vb); o.vb_ok=2; } }
    else if(!strcmp(t,"cd")){ if(!o.vd_ok||o.vb_ok==1)skipped=1; /* the block goes first (documented order) */ else{ vorbis_dsp_clear(&o.vd); o.vd_ok=2; } }
    else if(!strcmp(t,"ci")){ if(!o.vi_ok||o.vd_ok==1)skipped=1; else{ vorbis_info_clear(&o.vi); o.vi_ok=2; } }
    else if(!strcmp(t,"cc")){ if(!o.vc_ok)skipped=1; else{ vorbis_comment_clear(&o.vc); o.vc_ok=2; } }
    else skipped=1;
    if(rl+24<rcap)rl+=skipped?snprintf(rbuf+rl,rcap-rl,"%s~",rl?",":""):snprintf(rbuf+rl,rcap-rl,"%s%ld",rl?",":"",rc);
  }
  *live_before=wa_live_bytes;
  /* final clears, twice, documented order */
  { int r; for(r=0;r<2;r++){ if(o.vb_ok){ vorbis_block_clear(&o.vb); o.vb_ok=2; } if(o.vd_ok){ vorbis_dsp_clear(&o.vd); o.vd_ok=2; } if(o.vc_ok){ vorbis_comment_clear(&o.vc); o.vc_ok=2; } if(o.vi_ok){ vorbis_info_clear(&o.vi); o.vi_ok=2; } } }
  if(g_opbuf){ __real_free(g_opbuf); g_opbuf=NULL; }
}

int main(int argc,char **argv){
  const char *table=NULL,*cases=NULL; int timeout=10,i; FILE *cf; char *line=NULL; size_t cap=0;
  for(i=1;i<argc;i++){ if(!strcmp(argv[i],"--table"))table=argv[++i]; else if(!strcmp(argv[i],"--cases"))cases=argv[++i]; else if(!strcmp(argv[i],"--timeout"))timeout=atoi(argv[++i]); else if(!strcmp(argv[i],"--heapcap"))g_heapcap=atol(argv[++i]); }
  if(!table||!cases)return 2;
  load_table(table);
  cf=fopen(cases,"r"); if(!cf)return 2;
  signal(SIGVTALRM,on_alarm);
  while(getline(&line,&cap,cf)>0){
    char *sv,*tok; char *ops[256]; int nops=0,set,all=-1; long idx; struct itimerval it; static char rbuf[4096]; long live=0,nenum=0; long peak=0; long endblocks=0;
    tok=strtok_r(line," \n",&sv); if(!tok)continue; idx=atol(tok); g_idx=idx; g_enum=-1;
    tok=strtok_r(NULL," \n",&sv); if(!tok)continue; set=atoi(tok);
    int fixed0=-1;
    while((tok=strtok_r(NULL," \n",&sv))&&nops<255){ if(!strncmp(tok,"ALL",3)){ char *c; all=(int)strtol(tok+3,&c,10); if(*c==':')fixed0=atoi(c+1); } else ops[nops++]=tok; }
    if(set<0||set>=nsets){ printf("%ld BADCASE\n",idx); continue; }
    memset(&it,0,sizeof(it)); it.it_value.tv_sec=timeout; setitimer(ITIMER_VIRTUAL,&it,NULL);
    g_exit_called=0; g_capped=0; g_cap_peak=0;
    if(all<0){
      wa_reset(); wa_on=1;
      g_exit_armed=1;
      if(!setjmp(g_exit_jmp))run_ops(&sets[set],ops,nops,NULL,0,rbuf,sizeof(rbuf),&live);
      g_exit_armed=0; wa_on=0; peak=wa_peak_bytes; endblocks=wa_live_blocks;
      if(g_capped&&(long)g_cap_peak>peak)peak=(long)g_cap_peak;
      printf("%ld R=%s L=%ld E=%ld P=%ld X=%d C=%d\n",idx,rbuf[0]?rbuf:"-",live,endblocks,peak,g_exit_called,g_capped);
    }else{
      /* enumerate every byte string of length `all`; report an aggregate: distinct rc-signatures are hashed, failures counted */
      /* ALL<len>:<b0> fixes the first byte (shards the enumeration); the remaining bytes are enumerated */
      unsigned long long total=1ULL<<(8*(fixed0>=0?all-1:all)),v; h128 sig; char hx[40]; long bad_end=0; long maxpeak=0; int nsig=0; static char sigs[64][128];
      h_init(&sig);
      for(v=0;v<total;v++){
        unsigned char es[8]; int b; if(fixed0>=0){ es[0]=(unsigned char)fixed0; for(b=1;b<all;b++)es[b]=(v>>(8*(b-1)))&0xff; } else for(b=0;b<all;b++)es[b]=(v>>(8*b))&0xff;
        g_enum=(long)v;
        wa_reset(); wa_on=1; g_exit_armed=1;
        if(!setjmp(g_exit_jmp))run_ops(&sets[set],ops,nops,es,all,rbuf,sizeof(rbuf),&live);
        g_exit_armed=0; wa_on=0;
        if(wa_live_blocks)bad_end++;
        if(wa_peak_bytes>maxpeak)maxpeak=wa_peak_bytes;
        if(g_capped&&(long)g_cap_peak>maxpeak)maxpeak=(long)g_cap_peak;
        h_bytes(&sig,rbuf,strlen(rbuf));
        { int k; for(k=0;k<nsig;k++)if(!strcmp(sigs[k],rbuf))break; if(k==nsig&&nsig<64){ strncpy(sigs[nsig],rbuf,127); nsig++; } }
        nenum++;
        /* re-arm the watchdog per string */
        memset(&it,0,sizeof(it)); it.it_value.tv_sec=timeout; setitimer(ITIMER_VIRTUAL,&it,NULL);
      }
      h_hex(&sig,hx);
      printf("%ld N=%ld E=%ld P=%ld X=%d S=%d H=%s R=",idx,nenum,bad_end,maxpeak,g_exit_called,nsig,hx);
      { int k; for(k=0;k<nsig;k++)printf("%s%s",k?"|":"",sigs[k]); } printf("\n");
    }
    fflush(stdout);
    memset(&it,0,sizeof(it)); setitimer(ITIMER_VIRTUAL,&it,NULL);
  }
  return 0;
}
