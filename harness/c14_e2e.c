/* c14_e2e: real bitrate-managed encodes, judged over EVERY contiguous packet run (C14, part E2).
 *
 * case line: <idx> e2e <rate> <ch> <template_kbps> <max_kbps> <min_kbps> <avg_kbps> <reservoir: d | seconds> <bias: d | 0..1> <signal> <nsamples>
 *            <idx> e2req ... same fields ... [<damping: d | value>]   REQUEST mode: reservoir may be b<raw bits>, bias / damping any strtod
 *              string (nan, inf, -1, ...).  The values are offered to the real OV_ECTL_RATEMANAGE2_SET; if it refuses (rc != 0) the
 *              case answers "refused rc=.." (counted, cannot violate anything); if it ACCEPTS, the encode runs and is judged against
 *              the configured reservoir exactly like an in-range case ("any reservoir size and bias accepted by the control interface").
 *            <idx> e2init|e2setup <rate> <ch> <nominal: -1|0> <max_kbps> <min_kbps> 0 d d <signal> <nsamples>   PLAIN set-ups without any ctl:
 *              vorbis_encode_init(vi,ch,rate,max,nominal,min) resp. vorbis_encode_setup_managed + vorbis_encode_setup_init; limits =
 *              the call arguments, reservoir = what OV_ECTL_RATEMANAGE2_GET reports; manager off although limits are reported =>
 *              limit_not_installed, and the run oracle still judges the packets against the reported limits/reservoir.
 *   0 kbps = limit unused.  Set-up: vorbis_encode_setup_managed(nominal=template_kbps, no limits) picks the encoder template, then
 *   OV_ECTL_RATEMANAGE2_GET / _SET install max/min/avg, reservoir bits (= seconds * (max or, if unused, min rate); d = the
 *   default 2 s of the template rate) and bias, OV_ECTL_RATEMANAGE2_GET again (the configured values the oracle uses),
 *   vorbis_encode_setup_init.  signals: sil | noise | alt (0.2 s loud noise / 0.2 s silence) | imp (impulses) | mix
 *
 * Per packet k: bits b_k = 8*op.bytes, block flag W_k (vb.W), granule g_k.  The encoder advances the granule by
 * (bs[W_{k-1}]+bs[W_k])/4 per packet (g_0 = 0); this is asserted for every non-final packet, the final (eos) packet, whose
 * granule is clipped to the input length, is credited its nominal advance.  Duration of a run i..j = g_j - g_{i-1}; for i = 0
 * the run is treated as if preceded by a block of the same size as block 0 (g_{-1} = -bs[W_0]/2), because the first packet
 * carries bits but no granule advance by convention.
 *
 * Oracle, for every 0 <= i <= j < n (all arithmetic in exact integers, scaled by rate):
 *   max side:  b(i..j) - max_rate*dur/rate <= R + s + max_rate*(bs1-bs0)/(4*rate) + units(i..j)*max(0, rint(q) - q)
 *   min side:  min_rate*dur/rate - b(i..j) <= R + s + min_rate*(bs1-bs0)/(4*rate) + units(i..j)*max(0, q' - rint(q'))
 *     R  = bitrate_limit_reservoir_bits read back through OV_ECTL_RATEMANAGE2_GET
 *     s  = 14 bits (whole-byte packets: truncation floors, padding ceils, one of each per run; see c14_bitrate.c)
 *     (bs1-bs0)/4 samples: the manager budgets a block by its own size bs[W]/2 while a packet's granule advance depends on its
 *        neighbour; over a run the two differ by (bs[W_{i-1}]-bs[W_j])/4 samples, i.e. one unmatched short/long transition
 *     units = number of short-block units in the run (1 per short block, bs1/bs0 per long block); q = max_rate*(bs0/2)/rate is
 *        the exact per-short-block budget, which vorbis_bitrate_init rounds to an integer number of bits (rint): the hard limit
 *        the manager enforces is quantised by at most half a bit per short block.  Stated as an assumption of the check.
 *   internal: min(0,R-7) <= bms.minmax_reservoir <= max(R,7) after every packet (== [0,R] for R >= 7)
 *   installed == configured: ci->bi.{max,min}_rate, reservoir_bits and bms.{max,min}_bitsper must carry the limits configured
 *   through the control interface; otherwise VIOL kind=limit_not_installed_{min|max|reservoir}, and the run oracle is still
 *   evaluated against the CONFIGURED limits (run_oracle=...) to show the shortfall/excess in the emitted packets themselves.
 *   truncation (packet shorter than the chosen blob as analysis produced it) only if the choice is blob 0 and blob 0 overflows
 *   the allowance; padding bytes (beyond the analysis output) are all zero.
 */
#include "common.h"
#include <math.h>
#include "codec_internal.h"

#define NB PACKETBLOBS
#define SLACK 14
#define MAXP 20000

static unsigned lcg=12345;
static float noise(void){ lcg=lcg*1103515245u+12345u; return ((lcg>>8)&0xffff)/32768.f-1.f; }

typedef struct { long bits; int W; long g; long res; } pkt;
static pkt P[MAXP];

static volatile long g_cur=-1;
static void on_alarm(int s){ char b[64]; int n=snprintf(b,sizeof(b),"%ld TIMEOUT\n",g_cur); (void)s; fflush(stdout); if(write(1,b,n)<0){} _exit(3); }

static void run_case(long idx,int req,int plain,long rate,int ch,long tmplk,long maxk,long mink,long avgk,const char *resmode,const char *biasmode,const char *dampmode,const char *sig,long nsamp){
  vorbis_info vi; vorbis_comment vc; vorbis_dsp_state vd; vorbis_block vb; ogg_packet op; struct ovectl_ratemanage2_arg ai;
  int ret,eos=0,n=0,i,j; long done=0,chunk=1024; long R,maxr,minr,bs[2],hs,spl; double bias;
  long ntrunc=0,npad=0,nonmono=0,hit0=0,hitfull=0,minres,maxres,nshort=0,nlong=0,limited=0; const char *viol=NULL,*notinst=NULL,*ivio=NULL; char det[400],ndet[400],idet[400]; det[0]=0; ndet[0]=0; idet[0]=0;
  codec_setup_info *ci; bitrate_manager_state *bm; private_state *ps;
  vorbis_info_init(&vi);
  if(plain){
    /* PLAIN one-call set-ups, no ctl at all: vorbis_encode_init(max,nominal,min) (plain==1) or vorbis_encode_setup_managed +
       vorbis_encode_setup_init (plain==2); nominal (tmplk field) is <= 0, i.e. left to the library.  The configured limits are
       the call arguments; the configured reservoir is whatever OV_ECTL_RATEMANAGE2_GET reports afterwards. */
    long amax=maxk>0?maxk*1000:-1,amin=mink>0?mink*1000:-1;
    /* OV_ECTL_RATEMANAGE2_GET is refused once the set-up is "set in stone" (its request number has a non-zero low nibble), so it is
       issued between setup_managed and setup_init; after the one-call vorbis_encode_init the same numbers are read from the
       highlevel set-up the GET would copy them from (hi->bitrate_reservoir / _bias / _min / _max / managed). */
    memset(&ai,0,sizeof(ai));
    if(plain==1){
      highlevel_encode_setup *hi;
      ret=vorbis_encode_init(&vi,ch,rate,amax,tmplk,amin);
      if(ret){ printf("%ld cfgerr plain_init=%d\n",idx,ret); return; }
      hi=&((codec_setup_info*)vi.codec_setup)->hi;
      ai.management_active=hi->managed; ai.bitrate_limit_min_kbps=hi->bitrate_min/1000; ai.bitrate_limit_max_kbps=hi->bitrate_max/1000;
      ai.bitrate_limit_reservoir_bits=hi->bitrate_reservoir; ai.bitrate_limit_reservoir_bias=hi->bitrate_reservoir_bias;
    }else{
      ret=vorbis_encode_setup_managed(&vi,ch,rate,amax,tmplk,amin);
      if(ret){ printf("%ld cfgerr plain_setup=%d\n",idx,ret); vorbis_info_clear(&vi); return; }
      if(vorbis_encode_ctl(&vi,OV_ECTL_RATEMANAGE2_GET,&ai)){ printf("%ld cfgerr get\n",idx); vorbis_info_clear(&vi); return; }
      ret=vorbis_encode_setup_init(&vi);
      if(ret){ printf("%ld cfgerr plain_setup_init=%d\n",idx,ret); vorbis_info_clear(&vi); return; }
    }
    R=ai.bitrate_limit_reservoir_bits; bias=ai.bitrate_limit_reservoir_bias; maxr=maxk>0?maxk*1000:0; minr=mink>0?mink*1000:0;
    if(!ai.management_active||ai.bitrate_limit_max_kbps!=(maxk>0?maxk:0)||ai.bitrate_limit_min_kbps!=(mink>0?mink:0)){
      printf("%ld cfgerr plain_readback active=%d max=%ld min=%ld\n",idx,ai.management_active,ai.bitrate_limit_max_kbps,ai.bitrate_limit_min_kbps); vorbis_info_clear(&vi); return; }
  }else{
    ret=vorbis_encode_setup_managed(&vi,ch,rate,-1,tmplk*1000,-1);
    if(ret){ printf("%ld cfgerr setup_managed=%d\n",idx,ret); vorbis_info_clear(&vi); return; }
    memset(&ai,0,sizeof(ai));
    if(vorbis_encode_ctl(&vi,OV_ECTL_RATEMANAGE2_GET,&ai)){ printf("%ld cfgerr get\n",idx); vorbis_info_clear(&vi); return; }
    ai.bitrate_limit_max_kbps=maxk; ai.bitrate_limit_min_kbps=mink; ai.bitrate_average_kbps=avgk;
    if(resmode[0]=='b')ai.bitrate_limit_reservoir_bits=atol(resmode+1);            /* raw bit count (request mode) */
    else if(strcmp(resmode,"d"))ai.bitrate_limit_reservoir_bits=(long)(atof(resmode)*1000.*(maxk>0?maxk:mink));
    if(strcmp(biasmode,"d"))ai.bitrate_limit_reservoir_bias=strtod(biasmode,NULL);   /* strtod: also nan, inf, -inf */
    if(strcmp(dampmode,"d"))ai.bitrate_average_damping=strtod(dampmode,NULL);
    ret=vorbis_encode_ctl(&vi,OV_ECTL_RATEMANAGE2_SET,&ai);
    if(ret){
      /* e2req: the request may legitimately be refused - a refused setting cannot violate anything, it is only counted */
      if(req)printf("%ld refused rc=%d\n",idx,ret); else printf("%ld cfgerr set=%d\n",idx,ret);
      vorbis_info_clear(&vi); return;
    }
    memset(&ai,0,sizeof(ai));
    vorbis_encode_ctl(&vi,OV_ECTL_RATEMANAGE2_GET,&ai);
    R=ai.bitrate_limit_reservoir_bits; bias=ai.bitrate_limit_reservoir_bias; maxr=ai.bitrate_limit_max_kbps*1000; minr=ai.bitrate_limit_min_kbps*1000;
    if(!ai.management_active||maxr!=(maxk>0?maxk*1000:0)||minr!=(mink>0?mink*1000:0)){ printf("%ld cfgerr readback active=%d max=%ld min=%ld\n",idx,ai.management_active,maxr,minr); vorbis_info_clear(&vi); return; }
    ret=vorbis_encode_setup_init(&vi);
    if(ret){ printf("%ld cfgerr setup_init=%d\n",idx,ret); vorbis_info_clear(&vi); return; }
  }
  vorbis_comment_init(&vc);
  vorbis_analysis_init(&vd,&vi);
  vorbis_block_init(&vd,&vb);
  { ogg_packet h1,h2,h3; vorbis_analysis_headerout(&vd,&vc,&h1,&h2,&h3); }
  ci=(codec_setup_info*)vi.codec_setup; ps=(private_state*)vd.backend_state; bm=&ps->bms;
  bs[0]=ci->blocksizes[0]; bs[1]=ci->blocksizes[1]; hs=bs[0]>>1; spl=bs[1]/bs[0];
  /* A configured hard limit (or reservoir) that does not reach the rate manager is a violation of the property, not a harness
     error: the encode goes on without the internal oracles and every run is judged against the CONFIGURED limits. */
  {
    long Mc=(long)rint(1.*maxr*hs/rate),mc=(long)rint(1.*minr*hs/rate);
    if(minr>0&&(!bm->managed||ci->bi.min_rate!=minr||bm->min_bitsper!=mc))notinst="min";
    else if(maxr>0&&(!bm->managed||ci->bi.max_rate!=maxr||bm->max_bitsper!=Mc))notinst="max";
    else if(!bm->managed||ci->bi.reservoir_bits!=R)notinst="reservoir";
    if(notinst)sprintf(ndet,"configured max=%ld min=%ld R=%ld; installed managed=%d max_rate=%ld min_rate=%ld reservoir_bits=%ld max_bitsper=%ld min_bitsper=%ld",
                       maxr,minr,R,bm->managed,ci->bi.max_rate,ci->bi.min_rate,ci->bi.reservoir_bits,bm->max_bitsper,bm->min_bitsper);
  }
  minres=maxres=bm->minmax_reservoir;
  lcg=12345u+(unsigned)(rate*7+ch);
  while(!eos&&!viol){
    if(done>=nsamp){ vorbis_analysis_wrote(&vd,0); }
    else{
      long c=nsamp-done>chunk?chunk:nsamp-done,t0; int k;
      float **b=vorbis_analysis_buffer(&vd,c);
      for(t0=0;t0<c;t0++){
        long t=done+t0;
        for(k=0;k<ch;k++){
          float v=0;
          if(!strcmp(sig,"noise"))v=0.5f*noise();
          else if(!strcmp(sig,"sil"))v=0;
          else if(!strcmp(sig,"alt"))v=((t*5/rate)&1)?0.f:0.7f*noise();
          else if(!strcmp(sig,"imp"))v=(t%(rate/11+1)==(17+13*k))?0.95f:0.f;
          else if(!strcmp(sig,"clk")){ long ph=(t+13*k)%400; v=0.05f*noise(); if(ph<6)v+=(ph&1)?-0.95f:0.95f; }      /* click train over noise: sustained short blocks */
          else if(!strcmp(sig,"qts"))v=(t<nsamp/2)?0.01f*sinf(2*M_PI*440.0*t/rate):0.f;      /* quiet tone, then digital silence */
          else if(!strcmp(sig,"mix"))v=0.3f*sinf(2*M_PI*(300.0+170.0*k)*t/rate)+0.2f*noise()+((t%(rate/5))==700?0.8f:0.f);
          b[k][t0]=v;
        }
      }
      vorbis_analysis_wrote(&vd,c); done+=c;
    }
    while(!viol&&vorbis_analysis_blockout(&vd,&vb)==1){
      long sz[NB],res0,allowance; int choice; vorbis_block_internal *vbi=(vorbis_block_internal*)vb.internal; long k;
      vorbis_analysis(&vb,NULL);
      for(i=0;i<NB;i++)sz[i]=oggpack_bytes(vbi->packetblob[i]);
      for(i=1;i<NB;i++)if(sz[i]<sz[i-1]){ nonmono++; break; }
      res0=bm->minmax_reservoir;
      vorbis_bitrate_addblock(&vb);
      while(vorbis_bitrate_flushpacket(&vd,&op)){
        if(n>=MAXP){ viol="too_many_packets"; break; }
        choice=bm->managed?bm->choice:NB/2;
        P[n].bits=op.bytes*8; P[n].W=vb.W; P[n].g=op.granulepos; P[n].res=bm->minmax_reservoir;
        if(vb.W)nlong++; else nshort++;
        if(P[n].res<minres)minres=P[n].res; if(P[n].res>maxres)maxres=P[n].res;
        if(P[n].res==0)hit0++; if(P[n].res==R)hitfull++;
        if(notinst){ if(op.e_o_s)eos=1; n++; continue; }       /* internal oracles presuppose installed == configured */
        if(choice<0||choice>=NB){ viol="choice_out_of_range"; sprintf(det,"packet %d choice=%d",n,choice); break; }
        if(choice<NB/2)limited++;
        allowance=(vb.W?bm->max_bitsper*spl:bm->max_bitsper)+(R-res0);
        if(op.bytes<sz[choice]){
          ntrunc++;
          if(!(choice==0&&maxr>0&&8*sz[0]>allowance)){ viol="truncated_without_need"; sprintf(det,"packet %d choice=%d blob=%ldB packet=%ldB allowance=%ldbits",n,choice,sz[choice],(long)op.bytes,allowance); break; }
        }else if(op.bytes>sz[choice]){
          npad++;
          for(k=sz[choice];k<op.bytes;k++)if(op.packet[k]){ viol="padding_not_zero"; sprintf(det,"packet %d byte %ld=%d",n,k,op.packet[k]); break; }
        }
        /* same range as E1: [min(0,R-7), max(R,7)], i.e. exactly [0,R] for R>=7 (a whole-byte packet cannot hit a sub-byte window) */
        if(P[n].res<(R<7?R-7:0)||P[n].res>(R<7?7:R)){
          const char *k=P[n].res<0?"reservoir_underflow":"reservoir_overflow"; char d2[200];
          sprintf(d2,"packet %d reservoir %ld -> %ld outside [0,R=%ld]",n,res0,P[n].res,R);
          /* request mode: keep encoding so that the limit clauses themselves are judged on the emitted packets; the internal
             finding is reported only if the run oracle stays silent */
          if(req){ if(!ivio){ ivio=k; strcpy(idet,d2); } }
          else { viol=k; strcpy(det,d2); break; }
        }
        if(op.e_o_s)eos=1;
        n++;
      }
    }
  }
  if(!viol){
    /* granule model: g_k = sum_{t=1..k}(bs[W_{t-1}]+bs[W_t])/4 for every non-final packet */
    long G=0; long long qmax,qmin,tr_max,tr_min; __int128 base; double worstp=-1e18,worstm=-1e18; int wi=0,wj=0,wmi=0,wmj=0;
    long Mq=(long)rint(1.*maxr*hs/rate),mq=(long)rint(1.*minr*hs/rate);
    if(!notinst&&Mq!=(bm->max_bitsper>0?bm->max_bitsper:0)&&maxr>0){ printf("%ld cfgerr Mq=%ld bm=%ld\n",idx,Mq,bm->max_bitsper); goto done; }
    if(!notinst&&mq!=(bm->min_bitsper>0?bm->min_bitsper:0)&&minr>0){ printf("%ld cfgerr mq=%ld bm=%ld\n",idx,mq,bm->min_bitsper); goto done; }
    for(i=0;i<n;i++){
      if(i)G+=(bs[P[i-1].W]+bs[P[i].W])/4;
      if(i<n-1&&P[i].g!=G){ printf("%ld cfgerr granule_model packet=%d g=%ld model=%ld\n",idx,i,P[i].g,G); goto done; }
      if(i==n-1&&P[i].g>G){ printf("%ld cfgerr granule_model_last g=%ld model=%ld\n",idx,P[i].g,G); goto done; }
      P[i].g=G;
    }
    qmax=(long long)Mq*rate-(long long)maxr*hs; if(qmax<0)qmax=0;       /* per unit, scaled by rate */
    qmin=(long long)minr*hs-(long long)mq*rate; if(qmin<0)qmin=0;
    tr_max=(long long)maxr*(bs[1]-bs[0])/4; tr_min=(long long)minr*(bs[1]-bs[0])/4;
    base=(__int128)rate*((__int128)R+SLACK);      /* 128 bit: rate*R exceeds 64 bits for the huge reservoirs of the request cases */
    for(i=0;i<n&&!viol;i++){
      long long bits=0,units=0; long gprev=(i?P[i-1].g:-(bs[P[0].W]/2));
      for(j=i;j<n;j++){
        long long dur=P[j].g-gprev,ex;
        bits+=P[j].bits; units+=(P[j].W?spl:1);
        if(maxr>0){
          ex=bits*rate-(long long)maxr*dur;
          if((double)ex/rate-R>worstp){ worstp=(double)ex/rate-R; wi=i; wj=j; }
          if((__int128)ex>base+tr_max+(__int128)units*qmax){
            viol="excess_over_max_exceeds_reservoir";
            sprintf(det,"packets %d..%d: %lld bits in %lld samples, excess %.1f bits > R=%ld + %.1f",i,j,bits,dur,(double)ex/rate,R,(double)(base+tr_max+units*qmax)/rate-R);
            break;
          }
        }
        if(minr>0){
          ex=(long long)minr*dur-bits*rate;
          if((double)ex/rate-R>worstm){ worstm=(double)ex/rate-R; wmi=i; wmj=j; }
          if((__int128)ex>base+tr_min+(__int128)units*qmin){
            viol="deficit_below_min_exceeds_reservoir";
            sprintf(det,"packets %d..%d: %lld bits in %lld samples, deficit %.1f bits > R=%ld + %.1f",i,j,bits,dur,(double)ex/rate,R,(double)(base+tr_min+units*qmin)/rate-R);
            break;
          }
        }
      }
    }
    if(notinst){
      printf("%ld VIOL n=%d bs=%ld/%ld R=%ld bias=%g kind=limit_not_installed_%s detail=\"%s\" run_oracle=%s run_detail=\"%s\"\n",idx,n,bs[0],bs[1],R,bias,notinst,ndet,viol?viol:"none",det);
      goto done;
    }
    if(!viol&&ivio){ viol=ivio; strcpy(det,idet); }
    if(!viol){
      printf("%ld ok n=%d short=%ld long=%ld bs=%ld/%ld R=%ld bias=%g Mq=%ld mq=%ld worstp=%.1f@%d-%d worstm=%.1f@%d-%d minres=%ld maxres=%ld trunc=%ld pad=%ld nonmono=%ld hit0=%ld hitfull=%ld limited=%ld runs=%ld\n",
             idx,n,nshort,nlong,bs[0],bs[1],R,bias,Mq,mq,maxr>0?worstp:0.,wi,wj,minr>0?worstm:0.,wmi,wmj,minres,maxres,ntrunc,npad,nonmono,hit0,hitfull,limited,(long)n*(n+1)/2);
      goto done;
    }
  }
  printf("%ld VIOL n=%d bs=%ld/%ld R=%ld bias=%g kind=%s detail=\"%s\" internal=%s\n",idx,n,bs[0],bs[1],R,bias,viol,det,ivio?ivio:"none");
 done:
  vorbis_block_clear(&vb); vorbis_dsp_clear(&vd); vorbis_comment_clear(&vc); vorbis_info_clear(&vi);
}

int main(int argc,char **argv){
  const char *cases=NULL; int i; FILE *cf; char *line=NULL; size_t lcap=0; int timeout=120;
  for(i=1;i<argc;i++){ if(!strcmp(argv[i],"--cases"))cases=argv[++i]; else if(!strcmp(argv[i],"--timeout"))timeout=atoi(argv[++i]); }
  if(!cases)return 2;
  cf=fopen(cases,"r"); if(!cf)return 2;
  signal(SIGVTALRM,on_alarm);
  { struct rlimit rl; rl.rlim_cur=rl.rlim_max=(rlim_t)3<<30; setrlimit(RLIMIT_AS,&rl); }
  while(getline(&line,&lcap,cf)>0){
    long idx,rate,tmplk,maxk,mink,avgk,nsamp; int ch,nf; char mode[16],resmode[32],biasmode[32],sig[16],dampmode[32]; struct itimerval it;
    strcpy(dampmode,"d");
    nf=sscanf(line,"%ld %15s %ld %d %ld %ld %ld %ld %31s %31s %15s %ld %31s",&idx,mode,&rate,&ch,&tmplk,&maxk,&mink,&avgk,resmode,biasmode,sig,&nsamp,dampmode);
    if(nf<12)continue;
    g_cur=idx;
    memset(&it,0,sizeof(it)); it.it_value.tv_sec=timeout; setitimer(ITIMER_VIRTUAL,&it,NULL);
    run_case(idx,!strcmp(mode,"e2req"),!strcmp(mode,"e2init")?1:(!strcmp(mode,"e2setup")?2:0),rate,ch,tmplk,maxk,mink,avgk,resmode,biasmode,dampmode,sig,nsamp);
    fflush(stdout);
    memset(&it,0,sizeof(it)); setitimer(ITIMER_VIRTUAL,&it,NULL);
  }
  return 0;
}
