/* c12_open: open-API executor of C12.  One case = ONE open of a zoo file over the scripted data source (common.h memio)
 * through one of the public open flavours, under a fault script, followed by an observation of what the application
 * can see of the resulting handle (after the script has been switched off).
 *
 * usage: c12_open --files list.txt --cases cases.txt [--timeout s]
 * case line:  <idx> <file#> <api>[v] <env>
 *   api:  o  ov_open_callbacks, seekable callbacks          O  the same, read/close callbacks only (streaming)
 *         t  ov_test_callbacks then ov_test_open, seekable   T  the same, streaming
 *         c  ov_test_callbacks then ov_clear (seekable)      C  the same, streaming
 *         a trailing 'v' prints the per-page seek observations (SK=) and the callback trace (TR=) too
 *   env:  '-' or ';'-separated k:kind:arg:persist items (memio deviations; k counts callback invocations from the first
 *         callback of the first step on, across BOTH steps)
 * output: <idx> A=<rc step 1> B=<rc step 2|x> E1=<points after step 1> E=<points after open> D=<deviations applied>
 *         FH=<index of first applied deviation|-1> Z=<handle all-zero after a failed open 1|0|x> C=<closes right after open>
 *         C1=<closes after first ov_clear> C2=<after second ov_clear> H=<canonical state hash after open>
 *         SV=<static view> IV=<initial position view> DV=<hash of seeks to every page boundary> NP=<pages probed>
 */
#include "vfcommon.h"
#include <math.h>

static volatile long g_cur_idx=-1;
static void on_alarm(int s){
  char b[64]; int n=snprintf(b,sizeof(b),"%ld TIMEOUT\n",g_cur_idx);
  fflush(stdout); if(write(1,b,n)<0){} _exit(3);
}

/* ---- callback trace (what was asked, what was answered) and index of the first applied deviation */
typedef struct { char k; long a,b; } trent;
#define MAXTR 8192
static trent g_tr[MAXTR]; static int g_ntr=0; static long g_first_hit=-1;
static void tr_add(memio *m,char k,long a,long b,long hits0){
  if(g_ntr<MAXTR){ g_tr[g_ntr].k=k; g_tr[g_ntr].a=a; g_tr[g_ntr].b=b; g_ntr++; }
  if(m->dev_hits!=hits0&&g_first_hit<0)g_first_hit=m->npoints-1;
}
static size_t x_read(void *p,size_t s,size_t n,void *ds){
  memio *m=(memio*)ds; long pos=m->pos,h0=m->dev_hits; size_t r; int e;
  r=mio_read(p,s,n,ds); e=errno; tr_add(m,'R',pos,(long)r,h0); errno=e; return r;
}
static int x_seek(void *ds,ogg_int64_t off,int whence){
  memio *m=(memio*)ds; long h0=m->dev_hits; int r=mio_seek(ds,off,whence);
  tr_add(m,whence==SEEK_SET?'S':whence==SEEK_CUR?'U':'N',(long)off,r,h0); return r;
}
static long x_tell(void *ds){ memio *m=(memio*)ds; long h0=m->dev_hits; long r=mio_tell(ds); tr_add(m,'T',r,0,h0); return r; }
static ov_callbacks x_cb_seekable={ x_read, x_seek, mio_close, x_tell };
static ov_callbacks x_cb_stream={ x_read, NULL, mio_close, NULL };

static void parse_env(memio *m,char *env){
  char *t,*sv;
  if(!strcmp(env,"-"))return;
  for(t=strtok_r(env,";",&sv);t;t=strtok_r(NULL,";",&sv)){
    mio_dev *d=&m->dev[m->ndev]; long a=0,b=0,c=0,e=0;
    if(sscanf(t,"%ld:%ld:%ld:%ld",&a,&b,&c,&e)>=2&&m->ndev<8){ d->idx=a; d->kind=(int)b; d->arg=c; d->persist=(int)e; m->ndev++; }
  }
}

/* ---- our own page table of the (well-formed, generated) file: offsets of all page boundaries */
#define MAXPG 4096
typedef struct { long off[MAXPG]; int n; } pgtab;
static pgtab g_pg[MAXFILES];
static void scan_pages(vfile *F,pgtab *t){
  long p=0; t->n=0;
  while(p+27<=F->len&&t->n<MAXPG){
    int nseg,i; long body=0;
    if(memcmp(F->data+p,"OggS",4))break;
    nseg=F->data[p+26]; if(p+27+nseg>F->len)break;
    for(i=0;i<nseg;i++)body+=F->data[p+27+i];
    t->off[t->n++]=p; p+=27+nseg+body;
  }
}

static void hash_pcm(h128 *h,float **pcm,int ch,long n){ int c; for(c=0;c<ch;c++)h_bytes(h,pcm[c],sizeof(float)*n); }

static void dbl(char *o,size_t n,double d){ snprintf(o,n,"%a",d); }

/* what the application can see of the stream's structure */
static void static_view(OggVorbis_File *vf,char *out,size_t outn){
  int links=(int)ov_streams(vf),i; size_t l=0; char tb[64];
  l+=snprintf(out+l,outn-l,"L%d,s%ld",links,ov_seekable(vf));
  for(i=-1;i<links&&l+200<outn;i++){
    vorbis_info *vi=ov_info(vf,i); vorbis_comment *vc=ov_comment(vf,i); h128 hc; char hx[40]; int k;
    h_init(&hc);
    if(vc){ h_i64(&hc,vc->comments); for(k=0;k<vc->comments;k++)h_bytes(&hc,vc->user_comments[k],vc->comment_lengths[k]); if(vc->vendor)h_tag(&hc,vc->vendor); }
    h_hex(&hc,hx); hx[8]=0;
    dbl(tb,sizeof(tb),ov_time_total(vf,i));
    l+=snprintf(out+l,outn-l,"|%d:ser%ld:raw%ld:pcm%ld:t%s:br%ld:r%ld:c%d:%s",i,i<0?0:ov_serialnumber(vf,i),(long)ov_raw_total(vf,i),(long)ov_pcm_total(vf,i),tb,
                ov_bitrate(vf,i),vi?vi->rate:-1,vi?vi->channels:-1,hx);
  }
}

/* where the handle stands right after open, and what the first read from there delivers */
static void initial_view(OggVorbis_File *vf,char *out,size_t outn){
  long p=(long)ov_pcm_tell(vf),r=(long)ov_raw_tell(vf); char tb[64]; float **pcm; int bs=-1; long n; h128 h; char hx[40];
  dbl(tb,sizeof(tb),ov_time_tell(vf));
  n=ov_read_float(vf,&pcm,4096,&bs);
  h_init(&h); if(n>0)hash_pcm(&h,pcm,ov_info(vf,-1)->channels,n); h_hex(&h,hx); hx[12]=0;
  snprintf(out,outn,"p%ld:r%ld:t%s:n%ld:l%d:%s",p,r,tb,n,bs,n>0?hx:"-");
}

/* a raw seek to every page boundary of the file (+ the end of the file), and a pcm seek to the position found there */
static int dynamic_view(OggVorbis_File *vf,pgtab *pt,long flen,h128 *h,char *txt,size_t txtn){
  int i; size_t l=0; if(txt)txt[0]=0;
  for(i=0;i<=pt->n;i++){
    long off=i<pt->n?pt->off[i]:flen; float **pcm; int bs=-1; long rc,p,r,n,rc2=-9,p2=-9;
    rc=ov_raw_seek(vf,off); p=(long)ov_pcm_tell(vf); r=(long)ov_raw_tell(vf);
    n=ov_read_float(vf,&pcm,4096,&bs);
    h_i64(h,off); h_i64(h,rc); h_i64(h,p); h_i64(h,r); h_i64(h,n); h_i64(h,bs);
    if(n>0)hash_pcm(h,pcm,ov_info(vf,-1)->channels,n);
    if(p>=0){ rc2=ov_pcm_seek(vf,p); p2=(long)ov_pcm_tell(vf); h_i64(h,rc2); h_i64(h,p2); }
    if(txt&&l+80<txtn)l+=snprintf(txt+l,txtn-l,"%s%ld:%ld:%ld:%ld:%ld:%d:%ld:%ld",i?",":"",off,rc,p,r,n,bs,rc2,p2);
  }
  return pt->n+1;
}

/* streaming handles cannot seek: everything that can be read from here to the end */
static long read_through(OggVorbis_File *vf,h128 *h){
  long total=0; int guard=0;
  while(guard++<100000){
    float **pcm; int bs=-1; long n=ov_read_float(vf,&pcm,4096,&bs);
    if(n==0)break;
    h_i64(h,n); h_i64(h,bs);
    if(n<0){ if(n==OV_HOLE)continue; break; }
    hash_pcm(h,pcm,ov_info(vf,-1)->channels,n); total+=n;
  }
  return total;
}

static int all_zero(const void *p,size_t n){ size_t k; for(k=0;k<n;k++)if(((const unsigned char*)p)[k])return 0; return 1; }

int main(int argc,char **argv){
  const char *files=NULL,*cases=NULL; int timeout=20; int i; FILE *cf; char *line=NULL; size_t cap=0;
  for(i=1;i<argc;i++){
    if(!strcmp(argv[i],"--files"))files=argv[++i];
    else if(!strcmp(argv[i],"--cases"))cases=argv[++i];
    else if(!strcmp(argv[i],"--timeout"))timeout=atoi(argv[++i]);
  }
  if(!files||!cases){ fprintf(stderr,"usage\n"); return 2; }
  load_files(files);
  for(i=0;i<g_nfiles;i++)scan_pages(&g_files[i],&g_pg[i]);
  cf=fopen(cases,"r"); if(!cf)return 2;
  signal(SIGVTALRM,on_alarm);
  while(getline(&line,&cap,cf)>0){
    char *sv,*tok; long idx; int fno; char api; int verbose; char envs[256];
    OggVorbis_File vf; memio m; vfile *F; int rc1,rc2=0,have2=0,ok; struct itimerval it;
    long e1,e,closes0,closes1,closes2; int zeroed=-1; h128 sh,dh; char hx[40],dhx[40];
    static char sview[8192],iview[256],sk[1<<16]; int np=0; int streaming;
    tok=strtok_r(line," \n",&sv); if(!tok)continue; idx=atol(tok); g_cur_idx=idx;
    tok=strtok_r(NULL," \n",&sv); if(!tok){ printf("%ld BADCASE\n",idx); continue; } fno=atoi(tok);
    tok=strtok_r(NULL," \n",&sv); if(!tok){ printf("%ld BADCASE\n",idx); continue; } api=tok[0]; verbose=tok[1]=='v';
    tok=strtok_r(NULL," \n",&sv); if(!tok){ printf("%ld BADCASE\n",idx); continue; } strncpy(envs,tok,sizeof(envs)-1); envs[sizeof(envs)-1]=0;
    if(fno<0||fno>=g_nfiles||!strchr("otcOTC",api)){ printf("%ld BADCASE\n",idx); continue; }
    F=&g_files[fno]; streaming=(api=='O'||api=='T'||api=='C');
    memset(&it,0,sizeof(it)); it.it_value.tv_sec=timeout; setitimer(ITIMER_VIRTUAL,&it,NULL);
    mio_init(&m,F->data,F->len); parse_env(&m,envs); g_ntr=0; g_first_hit=-1;
    memset(&vf,0x5a,sizeof(vf));
    strcpy(sview,"-"); strcpy(iview,"-"); strcpy(dhx,"-"); sk[0]=0;
    if(api=='o'||api=='O'){
      rc1=ov_open_callbacks(&m,&vf,NULL,0,streaming?x_cb_stream:x_cb_seekable); e1=-1; ok=(rc1==0);
    }else{
      rc1=ov_test_callbacks(&m,&vf,NULL,0,streaming?x_cb_stream:x_cb_seekable); e1=m.npoints; ok=(rc1==0);
      if(rc1==0&&(api=='t'||api=='T')){ rc2=ov_test_open(&vf); have2=1; ok=(rc2==0); }
    }
    e=m.npoints; closes0=m.nclose;
    if(!ok)zeroed=all_zero(&vf,sizeof(vf));
    h_init(&sh);
    if(ok)vf_state_hash(&vf,&m,&sh); else h_tag(&sh,"failed");
    h_hex(&sh,hx);
    m.quiet=1;                      /* from here on the callbacks give their default answers */
    if(ok&&api!='c'&&api!='C'){
      static_view(&vf,sview,sizeof(sview));
      h_init(&dh);
      if(!streaming){
        initial_view(&vf,iview,sizeof(iview));
        np=dynamic_view(&vf,&g_pg[fno],F->len,&dh,verbose?sk:NULL,sizeof(sk));
      }else{
        long p=(long)ov_pcm_tell(&vf); long tot=read_through(&vf,&dh);
        snprintf(iview,sizeof(iview),"p%ld:read%ld",p,tot);
      }
      h_hex(&dh,dhx);
    }
    ov_clear(&vf); closes1=m.nclose;
    ov_clear(&vf); closes2=m.nclose;
    memset(&it,0,sizeof(it)); setitimer(ITIMER_VIRTUAL,&it,NULL);
    printf("%ld A=%d B=",idx,rc1);
    if(have2)printf("%d",rc2); else printf("x");
    printf(" E1=%ld E=%ld D=%ld FH=%ld Z=",e1,e,m.dev_hits,g_first_hit);
    if(zeroed<0)printf("x"); else printf("%d",zeroed);
    printf(" C=%ld C1=%ld C2=%ld H=%s SV=%s IV=%s DV=%s NP=%d",closes0,closes1,closes2,hx,sview,iview,dhx,np);
    if(verbose){
      int k; printf(" SK=%s TR=",sk[0]?sk:"-");
      for(k=0;k<g_ntr;k++)printf("%s%c%ld:%ld",k?",":"",g_tr[k].k,g_tr[k].a,g_tr[k].b);
      if(!g_ntr)printf("-");
    }
    printf("\n"); fflush(stdout);
  }
  return 0;
}
