/* c01_dec: packet-level decode of synthesised streams with the REAL library.
 * usage: c01_dec <in.bin> <out.bin>
 * in :  int32 nstreams; per stream: int32 npackets; per packet: int32 len, int64 granulepos, int32 flags (1=bos 2=eos), bytes
 * out:  per stream: int32 hrc[3] (headerin results; packets after a failure are not fed), int32 initrc (-999 if not reached), int32 channels,
 *       then per audio packet: int32 src (vorbis_synthesis rc), int32 brc (blockin rc, -999 if skipped), int32 bits (oggpack_bits after synthesis),
 *       int32 n (samples returned), float pcm[channels][n]
 * A per-stream CPU watchdog aborts the whole process with exit code 3 after writing what it has. */
#include "common.h"
#include "codec_internal.h"

static FILE *fo;
static void on_alarm(int s){ if(fo)fflush(fo); _exit(3); }
static int rd32(FILE *f,int *v){ return fread(v,4,1,f)==1; }
static void w32(int v){ fwrite(&v,4,1,fo); }

int main(int argc,char **argv){
  FILE *fi; int ns,s; struct itimerval it;
  if(argc<3)return 2;
  fi=fopen(argv[1],"rb"); fo=fopen(argv[2],"wb"); if(!fi||!fo)return 2;
  signal(SIGVTALRM,on_alarm);
  if(!rd32(fi,&ns))return 2;
  for(s=0;s<ns;s++){
    int np,p,hdr=0,ok=1,init=0,initrc=-999,hrc[3]={-999,-999,-999};
    vorbis_info vi; vorbis_comment vc; vorbis_dsp_state vd; vorbis_block vb;
    long pos0=0; int wrote_head=0;
    if(!rd32(fi,&np))return 2;
    memset(&it,0,sizeof(it)); it.it_value.tv_sec=20; setitimer(ITIMER_VIRTUAL,&it,NULL);
    vorbis_info_init(&vi); vorbis_comment_init(&vc);
    for(p=0;p<np;p++){
      int len,flags; ogg_int64_t gp; unsigned char *buf; ogg_packet op;
      if(!rd32(fi,&len)||fread(&gp,8,1,fi)!=1||!rd32(fi,&flags))return 2;
      buf=(unsigned char*)__real_malloc(len+1); if(len&&fread(buf,1,len,fi)!=(size_t)len)return 2;
      memset(&op,0,sizeof(op)); op.packet=buf; op.bytes=len; op.granulepos=gp; op.b_o_s=(flags&1)?1:0; op.e_o_s=(flags&2)?1:0; op.packetno=p;
      if(hdr<3){
        if(ok){ hrc[hdr]=vorbis_synthesis_headerin(&vi,&vc,&op); if(hrc[hdr]<0)ok=0; }
        hdr++;
        if(hdr==3){
          if(ok){ initrc=vorbis_synthesis_init(&vd,&vi); if(initrc==0){ vorbis_block_init(&vd,&vb); init=1; } }
          w32(hrc[0]); w32(hrc[1]); w32(hrc[2]); w32(initrc); w32(init?vi.channels:0); wrote_head=1;
        }
      }else if(init){
        int src=vorbis_synthesis(&vb,&op),brc=-999,bits,n,c; float **pcm;
        bits=(int)oggpack_bits(&vb.opb);
        if(src==0)brc=vorbis_synthesis_blockin(&vd,&vb);
        n=vorbis_synthesis_pcmout(&vd,&pcm);
        w32(src); w32(brc); w32(bits); w32(n);
        for(c=0;c<vi.channels;c++)if(n>0)fwrite(pcm[c],sizeof(float),n,fo);
        vorbis_synthesis_read(&vd,n);
      }else{ w32(-998); w32(-999); w32(0); w32(0); }
      __real_free(buf);
    }
    if(!wrote_head){ w32(hrc[0]); w32(hrc[1]); w32(hrc[2]); w32(initrc); w32(0); }
    if(init){ vorbis_block_clear(&vb); vorbis_dsp_clear(&vd); }
    vorbis_comment_clear(&vc); vorbis_info_clear(&vi);
    (void)pos0;
  }
  memset(&it,0,sizeof(it)); setitimer(ITIMER_VIRTUAL,&it,NULL);
  fclose(fo); fclose(fi);
  return 0;
}
