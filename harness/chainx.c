/* chainx: chained-open executor (C09, also used by C10).
 * case line: <idx> <mode> <cap> link link ...     link = path:ch:rate:n:serial:tag
 *   mode: s (seekable) | n (streaming)  cap: read-callback cap in bytes (0 = none)
 * The chain is the byte concatenation of the link files.  Ground truth comes from the case line
 * (construction) and from decoding each link ALONE through the packet-level API (libogg + vorbis_synthesis),
 * which does not involve vorbisfile at all.
 * output: <idx> ok:<samples> | <idx> bad:<what>  */
#include "common.h"
#include <math.h>

#define MAXL 16
typedef struct { char path[400]; unsigned char *data; long len; int ch; long n; float **pcm; int ok; char vendor[128]; } solo;
static solo g_solo[256]; static int g_nsolo=0;

/* packet-API decode of one link on its own */
static void solo_decode(solo *s){
  ogg_sync_state oy; ogg_stream_state os; ogg_page og; ogg_packet op; vorbis_info vi; vorbis_comment vc; vorbis_dsp_state vd; vorbis_block vb;
  long pos=0; int hdr=0,init=0,sinit=0,c; long cap=0;
  s->ok=0; s->n=0;
  ogg_sync_init(&oy); vorbis_info_init(&vi); vorbis_comment_init(&vc);
  while(1){
    int r=ogg_sync_pageout(&oy,&og);
    if(r==0){
      long k=s->len-pos; char *b; if(k<=0)break; if(k>4096)k=4096;
      b=ogg_sync_buffer(&oy,k); memcpy(b,s->data+pos,k); pos+=k; ogg_sync_wrote(&oy,k); continue;
    }
    if(r<0)continue;
    if(!sinit){ ogg_stream_init(&os,ogg_page_serialno(&og)); sinit=1; }
    if(ogg_stream_pagein(&os,&og)<0)continue;
    while(ogg_stream_packetout(&os,&op)>0){
      if(hdr<3){ if(vorbis_synthesis_headerin(&vi,&vc,&op)<0)goto done; hdr++;
        if(hdr==3){ if(vorbis_synthesis_init(&vd,&vi))goto done; vorbis_block_init(&vd,&vb); init=1; s->ch=vi.channels;
          cap=s->len*64+65536; s->pcm=(float**)__real_malloc(sizeof(float*)*vi.channels); for(c=0;c<vi.channels;c++)s->pcm[c]=(float*)__real_malloc(sizeof(float)*cap);
          strncpy(s->vendor,vc.vendor?vc.vendor:"",sizeof(s->vendor)-1); }
        continue; }
      if(vorbis_synthesis(&vb,&op)==0)vorbis_synthesis_blockin(&vd,&vb);
      { float **pcm; int n; while((n=vorbis_synthesis_pcmout(&vd,&pcm))>0){ if(s->n+n>cap)goto done; for(c=0;c<vi.channels;c++)memcpy(s->pcm[c]+s->n,pcm[c],sizeof(float)*n); s->n+=n; vorbis_synthesis_read(&vd,n); } }
    }
  }
  s->ok=(hdr==3);
 done:
  if(init){ vorbis_block_clear(&vb); vorbis_dsp_clear(&vd); }
  if(sinit)ogg_stream_clear(&os);
  vorbis_comment_clear(&vc); vorbis_info_clear(&vi); ogg_sync_clear(&oy);
}
static solo *get_solo(const char *path){
  int i; for(i=0;i<g_nsolo;i++)if(!strcmp(g_solo[i].path,path))return &g_solo[i];
  if(g_nsolo>=256){ fprintf(stderr,"too many links\n"); exit(2); }
  strcpy(g_solo[g_nsolo].path,path); g_solo[g_nsolo].data=load_file(path,&g_solo[g_nsolo].len); solo_decode(&g_solo[g_nsolo]);
  return &g_solo[g_nsolo++];
}

static volatile long g_cur=-1;
static void on_alarm(int s){ char b[64]; int n=snprintf(b,sizeof(b),"%ld TIMEOUT\n",g_cur); fflush(stdout); if(write(1,b,n)<0){} _exit(3); }

int main(int argc,char **argv){
  const char *cases=NULL; int i; FILE *cf; char *line=NULL; size_t lcap=0; int timeout=30;
  for(i=1;i<argc;i++){ if(!strcmp(argv[i],"--cases"))cases=argv[++i]; else if(!strcmp(argv[i],"--timeout"))timeout=atoi(argv[++i]); }
  if(!cases)return 2;
  cf=fopen(cases,"r"); if(!cf)return 2;
  signal(SIGVTALRM,on_alarm);
  while(getline(&line,&lcap,cf)>0){
    char *sv,*tok; long idx; char mode; long cap; int nl=0,k; solo *L[MAXL]; int gch[MAXL]; long grate[MAXL],gn[MAXL],gserial[MAXL]; char gtag[MAXL][64];
    unsigned char *buf; long blen=0; memio m; OggVorbis_File vf; int orc; char res[300]; struct itimerval it; long boff[MAXL+1];
    tok=strtok_r(line," \n",&sv); if(!tok)continue; idx=atol(tok); g_cur=idx;
    tok=strtok_r(NULL," \n",&sv); mode=tok[0];
    tok=strtok_r(NULL," \n",&sv); cap=atol(tok);
    while((tok=strtok_r(NULL," \n",&sv))&&nl<MAXL){
      char path[400]; char tag[64]; int ch; long rate,n,serial;
      if(sscanf(tok,"%399[^:]:%d:%ld:%ld:%ld:%63s",path,&ch,&rate,&n,&serial,tag)!=6){ printf("%ld BADCASE\n",idx); nl=-1; break; }
      L[nl]=get_solo(path); gch[nl]=ch; grate[nl]=rate; gn[nl]=n; gserial[nl]=serial; strcpy(gtag[nl],tag); nl++;
    }
    if(nl<=0)continue;
    for(k=0;k<nl;k++){ boff[k]=blen; blen+=L[k]->len; } boff[nl]=blen;
    buf=(unsigned char*)__real_malloc(blen+1); for(k=0;k<nl;k++)memcpy(buf+boff[k],L[k]->data,L[k]->len);
    memset(&it,0,sizeof(it)); it.it_value.tv_sec=timeout; setitimer(ITIMER_VIRTUAL,&it,NULL);
    mio_init(&m,buf,blen); m.cap=cap;
    strcpy(res,"");
    /* the solo decodes themselves must agree with construction (C04 territory, but a precondition here) */
    for(k=0;k<nl&&!res[0];k++){ if(!L[k]->ok)snprintf(res,sizeof(res),"bad:solo_decode_failed:link%d",k); else if(L[k]->n!=gn[k]||L[k]->ch!=gch[k])snprintf(res,sizeof(res),"bad:solo_mismatch:link%d:n%ld/%ld",k,L[k]->n,gn[k]); }
    orc=ov_open_callbacks(&m,&vf,NULL,0,mode=='n'?mio_cb_stream:mio_cb_seekable);
    if(orc<0){ if(!res[0])snprintf(res,sizeof(res),"bad:open%d",orc); }
    else{
      if(mode=='s'&&!res[0]){
        long tot=0; double ttot=0;
        if(ov_streams(&vf)!=nl)snprintf(res,sizeof(res),"bad:streams:%ld!=%d",ov_streams(&vf),nl);
        for(k=0;k<nl&&!res[0];k++){
          vorbis_info *vi=ov_info(&vf,k); vorbis_comment *vc=ov_comment(&vf,k); char want[100];
          if(!vi||vi->channels!=gch[k])snprintf(res,sizeof(res),"bad:channels:link%d",k);
          else if(vi->rate!=grate[k])snprintf(res,sizeof(res),"bad:rate:link%d",k);
          else if(ov_serialnumber(&vf,k)!=gserial[k])snprintf(res,sizeof(res),"bad:serial:link%d:%ld",k,ov_serialnumber(&vf,k));
          else if((long)ov_pcm_total(&vf,k)!=gn[k])snprintf(res,sizeof(res),"bad:pcm_total:link%d:%ld!=%ld",k,(long)ov_pcm_total(&vf,k),gn[k]);
          else if(ov_time_total(&vf,k)!=(double)gn[k]/grate[k])snprintf(res,sizeof(res),"bad:time_total:link%d",k);
          else if((long)ov_raw_total(&vf,k)<=0||(long)ov_raw_total(&vf,k)>L[k]->len)snprintf(res,sizeof(res),"bad:raw_total:link%d:%ld",k,(long)ov_raw_total(&vf,k));
          else{
            /* tag "name" : one comment TITLE=name;  tag "name+N" : a second entry COVERART=<N pattern bytes> (zoo.big_comment) */
            char tg[100]; long extra=-1; char *plus; int cbad=0;
            snprintf(tg,sizeof(tg),"%s",gtag[k]); plus=strchr(tg,'+'); if(plus){ *plus=0; extra=atol(plus+1); }
            snprintf(want,sizeof(want),"TITLE=%s",tg);
            if(!vc||vc->comments!=(extra>=0?2:1)||strcmp(vc->user_comments[0],want))cbad=1;
            else if(extra>=0){
              long i2; const unsigned char *c=(const unsigned char*)vc->user_comments[1];
              if(vc->comment_lengths[1]!=extra+9||memcmp(c,"COVERART=",9))cbad=1;
              else for(i2=0;i2<extra;i2++)if(c[9+i2]!=(unsigned char)((i2*7+1)%251+1)){ cbad=1; break; }
            }
            if(cbad)snprintf(res,sizeof(res),"bad:comment:link%d",k);
            else if(!vc->vendor||strcmp(vc->vendor,L[k]->vendor))snprintf(res,sizeof(res),"bad:vendor:link%d",k);
          }
          tot+=gn[k]; ttot+=(double)gn[k]/grate[k];
        }
        if(!res[0]&&(long)ov_pcm_total(&vf,-1)!=tot)snprintf(res,sizeof(res),"bad:pcm_total_sum:%ld!=%ld",(long)ov_pcm_total(&vf,-1),tot);
        if(!res[0]&&ov_time_total(&vf,-1)!=ttot)snprintf(res,sizeof(res),"bad:time_total_sum");
      }
      if(!res[0]){
        /* read-through: link 0, link 1, ... each identical to its solo decode; no negative returns */
        int cur=0; long idx_in=0,total=0; int lastbs=-1; int started=0;
        while(cur<nl&&gn[cur]==0)cur++;
        while(!res[0]){
          float **pcm; int bs=-1; long n=ov_read_float(&vf,&pcm,4096,&bs); int c;
          if(n==0)break;
          if(n<0){ snprintf(res,sizeof(res),"bad:read%ld:at_link%d:%ld",n,cur,idx_in); break; }
          if(started&&bs!=lastbs){ if(idx_in!=gn[cur]){ snprintf(res,sizeof(res),"bad:short_link%d:%ld!=%ld",cur,idx_in,gn[cur]); break; } cur++; idx_in=0; while(cur<nl&&gn[cur]==0)cur++; }
          started=1; lastbs=bs;
          if(cur>=nl){ snprintf(res,sizeof(res),"bad:extra_audio"); break; }
          if(mode=='s'&&bs!=cur){ snprintf(res,sizeof(res),"bad:bitstream_index:%d!=%d",bs,cur); break; }
          if(ov_info(&vf,-1)->channels!=gch[cur]){ snprintf(res,sizeof(res),"bad:cur_channels:link%d",cur); break; }
          if(idx_in+n>gn[cur]){ snprintf(res,sizeof(res),"bad:overrun:link%d:%ld+%ld>%ld",cur,idx_in,n,gn[cur]); break; }
          for(c=0;c<gch[cur];c++)if(memcmp(pcm[c],L[cur]->pcm[c]+idx_in,sizeof(float)*n)){ snprintf(res,sizeof(res),"bad:pcm:link%d:idx%ld:ch%d",cur,idx_in,c); break; }
          idx_in+=n; total+=n;
        }
        if(!res[0]){
          long want=0; for(k=0;k<nl;k++)want+=gn[k];
          if(total!=want)snprintf(res,sizeof(res),"bad:count:%ld!=%ld:stopped_in_link%d",total,want,cur);
          else snprintf(res,sizeof(res),"ok:%ld",total);
        }
      }
      ov_clear(&vf);
      /* the same read-through with the integer API (16 bit signed little endian): frames of every link in order, values = rounded/clipped solo PCM */
      if(!strncmp(res,"ok:",3)){
        memio m2; OggVorbis_File v2; mio_init(&m2,buf,blen); m2.cap=cap;
        if(ov_open_callbacks(&m2,&v2,NULL,0,mode=='n'?mio_cb_stream:mio_cb_seekable)<0)snprintf(res,sizeof(res),"bad:reopen");
        else{
          static short ib[8192]; int cur=0,lastbs=-1,started=0; long idx_in=0,total=0;
          while(cur<nl&&gn[cur]==0)cur++;
          while(1){
            int bs=-1; long nb=ov_read(&v2,(char*)ib,sizeof(ib),0,2,1,&bs); long fr,f; int c,chn;
            if(nb==0)break;
            if(nb<0){ snprintf(res,sizeof(res),"bad:iread%ld:at_link%d:%ld",nb,cur,idx_in); break; }
            if(started&&bs!=lastbs){ if(idx_in!=gn[cur]){ snprintf(res,sizeof(res),"bad:ishort_link%d:%ld!=%ld",cur,idx_in,gn[cur]); break; } cur++; idx_in=0; while(cur<nl&&gn[cur]==0)cur++; }
            started=1; lastbs=bs;
            if(cur>=nl){ snprintf(res,sizeof(res),"bad:iextra_audio"); break; }
            chn=gch[cur];
            if(nb%(2*chn)){ snprintf(res,sizeof(res),"bad:ipartial_frame:link%d:%ld",cur,nb); break; }
            fr=nb/(2*chn);
            if(idx_in+fr>gn[cur]){ snprintf(res,sizeof(res),"bad:ioverrun:link%d:%ld+%ld>%ld",cur,idx_in,fr,gn[cur]); break; }
            for(f=0;f<fr&&!strncmp(res,"ok:",3);f++)for(c=0;c<chn;c++){
              double x=(double)L[cur]->pcm[c][idx_in+f]*32768.0; long lo=(long)ceil(x-0.5),hi=(long)floor(x+0.5); int got=ib[f*chn+c];
              if(lo<-32768)lo=-32768; if(hi<-32768)hi=-32768; if(lo>32767)lo=32767; if(hi>32767)hi=32767;
              if(got<lo||got>hi){ snprintf(res,sizeof(res),"bad:ipcm:link%d:idx%ld:ch%d:%d!=[%ld,%ld]",cur,idx_in+f,c,got,lo,hi); break; }
            }
            if(strncmp(res,"ok:",3))break;
            idx_in+=fr; total+=fr;
          }
          if(!strncmp(res,"ok:",3)){ long want=0; for(k=0;k<nl;k++)want+=gn[k]; if(total!=want)snprintf(res,sizeof(res),"bad:icount:%ld!=%ld",total,want); }
          ov_clear(&v2);
        }
      }
    }
    memset(&it,0,sizeof(it)); setitimer(ITIMER_VIRTUAL,&it,NULL);
    printf("%ld %s E=%ld B=%ld\n",idx,res,m.npoints,m.max_backhop); fflush(stdout);
    __real_free(buf);
  }
  return 0;
}
