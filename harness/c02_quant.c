/* c02_quant: _book_maptype1_quantvals called directly for every (dim, entries) inside the 24-bit budget the header parser
 * admits (ov_ilog(dim)+ov_ilog(entries)<=24), against the integer definition: greatest r with r^dim <= entries.
 * usage: c02_quant quick|thorough   -> "pairs=<n> bad=<n> first=<dim>,<entries>"   (a watchdog aborts with rc 3 if one call never returns) */
#include "common.h"
#include "codec_internal.h"
extern long _book_maptype1_quantvals(const static_codebook *b);
static volatile long g_d,g_e;
static void on_alarm(int s){ printf("pairs=0 bad=1 hang=%ld,%ld\n",g_d,g_e); fflush(stdout); _exit(3); }
static int ilg(unsigned long v){ int r=0; while(v){ r++; v>>=1; } return r; }
static long ref(long entries,long dim){
  /* greatest r >= 0 with r^dim <= entries, by exact integer arithmetic */
  long lo=0,hi=entries+1;
  while(hi-lo>1){ long mid=lo+(hi-lo)/2; unsigned __int128 acc=1; int i,over=0; for(i=0;i<dim;i++){ acc*=mid; if(acc>(unsigned __int128)entries){ over=1; break; } } if(over)hi=mid; else lo=mid; }
  return lo;
}
int main(int argc,char **argv){
  int thorough=argc>1&&!strcmp(argv[1],"thorough"); long pairs=0,bad=0,fd=0,fe=0; long dim;
  struct itimerval it; signal(SIGVTALRM,on_alarm);
  for(dim=1;dim<=65535;dim++){
    long maxe; int budget=24-ilg(dim); long e; int dense=(dim<=(thorough?24:8));
    long cand[256]; int nc=0,ci;
    if(budget<1)break;
    /* dims above 64: powers of two and their neighbours only (each call is O(dim)) */
    if(dim>64&&!(((dim&(dim-1))==0)||(((dim+1)&dim)==0)||(((dim-1)&(dim-2))==0)||dim==1000||dim==10000))continue;
    maxe=(1L<<budget)-1;
    if(!dense||!thorough){
      /* boundary set: 1,2,3, maxe-1, maxe, powers of two +-1, r^dim +-1 for r=2..6 */
      int k; long r;
      cand[nc++]=1; cand[nc++]=2; cand[nc++]=3; cand[nc++]=maxe; if(maxe>1)cand[nc++]=maxe-1;
      for(k=1;k<budget;k++){ long p=1L<<k; cand[nc++]=p; if(p>1)cand[nc++]=p-1; if(p+1<=maxe)cand[nc++]=p+1; }
      for(r=2;r<=6;r++){ unsigned __int128 acc=1; int i,over=0; for(i=0;i<dim;i++){ acc*=r; if(acc>(unsigned __int128)maxe+1){ over=1; break; } } if(!over){ long v=(long)acc; if(v<=maxe)cand[nc++]=v; if(v-1>=1&&v-1<=maxe)cand[nc++]=v-1; if(v+1<=maxe)cand[nc++]=v+1; } }
    }
    for(ci=0;;ci++){
      static_codebook b; long got,want;
      if(dense&&(thorough||1)){
        /* dense: every entries value (quick: up to 65536, plus the boundary set above it) */
        long lim=thorough?maxe:(maxe<65536?maxe:65536);
        if(ci<lim)e=ci+1; else if(!thorough&&ci-lim<nc){ e=cand[ci-lim]; if(e<=lim)continue; } else break;
      }else{ if(ci>=nc)break; e=cand[ci]; }
      if(e<1||e>maxe)continue;
      memset(&b,0,sizeof(b)); b.dim=dim; b.entries=e; g_d=dim; g_e=e;
      if((pairs&0xffff)==0){ memset(&it,0,sizeof(it)); it.it_value.tv_sec=30; setitimer(ITIMER_VIRTUAL,&it,NULL); }
      got=_book_maptype1_quantvals(&b); want=ref(e,dim);
      pairs++;
      if(got!=want){ if(!bad){ fd=dim; fe=e; } bad++; }
    }
  }
  printf("pairs=%ld bad=%ld first=%ld,%ld\n",pairs,bad,fd,fe);
  return bad?1:0;
}
