/* c02_quant: _book_maptype1_quantvals called directly for every (dim, entries) inside the 24-bit budget the header parser
 * admits (ov_ilog(dim)+ov_ilog(entries)<=24), against the integer definition: greatest r with r^dim <= entries.
 * usage: c02_quant quick|thorough   -> "pairs=<n> bad=<n> first=<dim>,<entries>"   (a watchdog aborts with rc 3 if one call never returns) */
#include "common.h"
#include "codec_internal.h"
extern long _book_maptype1_quantvals(const static_codebook *b);
static volatile long g_d,g_e;
static void on_alarm(int s){ printf("pairs=0 bad=1 hang=%ld,%ld\n",g_d,g_e); fflush(stdout); _exit(3); }
static int ilg(unsigned long v){ int r=0; while(v){ r++; v>>=1; } return r; }
static long ref(long entries,long dim){
  /* greatest r >= 0 with r^dim <= entries, by exact integer arithmetic */
  long lo=0,hi=entries+1;
  while(hi-lo>1){ long mid=lo+(hi-lo)/2; unsigned __int128 acc=1; int i,over=0; for(i=0;i<dim;i++){ acc*=mid; if(acc>(unsigned __int128)entries){ over=1; break; } } if(over)hi=mid; else lo=mid; }
  return lo;
}
int main(int argc,char **argv){
  int thorough=argc>1&&!strcmp(argv[1],"thorough"); long pairs=0,bad=0,fd=0,fe=0; long dim;
  struct itimerval it; signal(SIGVTALRM,on_alarm);
  for(dim=1;dim<=65535;dim++){
    long maxe; int budget=24-ilg(dim); long e,step;
    if(budget<1)break;
    maxe=(1L<<budget)-1;
    /* dims <= 24 (quick: <= 8 dense up to 2^16) densely; larger dims: boundary entries only */
    for(e=1;e<=maxe;e++){
      static_codebook b; long got,want;
      if(!(dim<=(thorough?24:8)&&(thorough||e<=65536))){
        /* boundary set: powers of two +-1, r^dim +-1 for small r, maxe */
        int keep=(e==maxe)||(e&(e-1))==0||((e+1)&e)==0||(((e-1)&(e-2))==0&&e>2);
        if(!keep){ long r; for(r=2;r<6&&!keep;r++){ unsigned __int128 acc=1; int i; for(i=0;i<dim&&acc<=(unsigned __int128)maxe+2;i++)acc*=r; if(acc==(unsigned __int128)e||acc==(unsigned __int128)e+1||acc+1==(unsigned __int128)e)keep=1; } }
        if(!keep)continue;
      }
      memset(&b,0,sizeof(b)); b.dim=dim; b.entries=e; g_d=dim; g_e=e;
      if((pairs&0xfffff)==0){ memset(&it,0,sizeof(it)); it.it_value.tv_sec=20; setitimer(ITIMER_VIRTUAL,&it,NULL); }
      got=_book_maptype1_quantvals(&b); want=ref(e,dim);
      pairs++;
      if(got!=want){ if(!bad){ fd=dim; fe=e; } bad++; }
    }
  }
  printf("pairs=%ld bad=%ld first=%ld,%ld\n",pairs,bad,fd,fe);
  return bad?1:0;
}
