/* c15_setup: encoder set-up executor (C15).  Every set-up runs the REAL libvorbisenc in-process (ASan flavour: a report
 * ends the process with exit code 77 and vlib.run_cases attributes it to the case line that was running).
 *
 * case lines (after the index):
 *   G <path> <ch> <ri> <qi> <pl> <ns>      VBR grid: channel count ch x rates (ri = index into RATES, -1 = all 45) x qualities
 *                                          (qi = index into QUALS, -1 = all 16).  path 0 = vorbis_encode_init_vbr (one step),
 *                                          1 = vorbis_encode_setup_vbr + vorbis_encode_setup_init (three step).
 *                                          pl = pipeline after a successful set-up: 0 none, 1 analysis_init + headerout + headerin,
 *                                          2 = 1 + encode of ns noise samples per channel.
 *   M <path> <ch> <mi> <ti> <pl> <ns>      managed grid: channels ch x rate MRATES[mi] (-1 = all 8) x bitrate triples
 *                                          (ti = index 0..342 into BITR^3 as max*49+nominal*7+min, -1 = all 343).
 *                                          path 0 = vorbis_encode_init, 1 = vorbis_encode_setup_managed + vorbis_encode_setup_init.
 *   C <base> <a> <b> <c> <enc> <nfix> <op>...   ctl histories on base configuration BASES[base]:
 *                                          a requests before setup_*, b between setup_* and setup_init, c after setup_init;
 *                                          the first nfix requests (indices into OPS) are given, all completions to length a+b+c
 *                                          are enumerated in lexicographic order.  enc=1: after the history run pipeline 2 with
 *                                          1100 samples (0.75 s of audio for managed set-ups) when setup_init succeeded (used with nfix == a+b+c).
 *   S 0 <path> <ch> <rate> <qi> <pl> <ns>  one explicit VBR tuple;  S 1 <path> <ch> <rate> <max> <nominal> <min> <pl> <ns>  one explicit managed tuple.
 *                                          pl = 10+s (in G, M and S): pipeline 2 with signal SIGNAMES[s] instead of noise (over-full-scale sines,
 *                                          square wave, level sweep, FLT_MAX / inf / NaN bursts)
 *   L <managed> <path> <ch> <rate> <q|nominal> <cpl> <lowpass_kHz|-> <ns>   geometry family (rate / quality / lowpass -> residue and psychoacoustic
 *                                          geometry): one explicit tuple.  managed 0: quality q (decimal text, read as float); 1: nominal bitrate
 *                                          (max = min = -1).  path 0 = one-step call (only without requests), 1 = setup_* [+ OV_ECTL_COUPLING_SET cpl
 *                                          when cpl >= 0] [+ OV_ECTL_LOWPASS_SET lowpass_kHz unless '-'] + setup_init.  After success pipeline 2 with
 *                                          the signal 'broadband noise, quiet then loud (one transient)'; ns <= 0: 3*blocksizes[1] samples.
 *                                          Reports geo=<template>/<blocksizes>/<floor n>/<residue type.grouping.begin-end>, blk=<long/short blocks>, lpr=<lowpass/Nyquist>
 *   B <path> <ch> <rate> <pl> <ns> <stride>   bitrate scaling family (managed set-ups): every triple built by ROLES from v = p*ch, p in the per-channel
 *                                          alphabet PERCH (every boundary of every template's per-channel bitrate table, the values just outside the table ends, -1, 0, 1, ...)
 *                                          (+ the neighbours v-1, v+1 as nominal-only requests) and from the absolute values ABSV (2^31-1 .. LONG_MAX, LONG_MIN;
 *                                          64-bit saturating arithmetic), so that the
 *                                          template lookup (stage one) succeeds for channel counts only vorbis_encode_setup_init (stage two) refuses.
 *                                          path 0 = vorbis_encode_init, 1 = setup_managed + setup_init, 2+k = setup_managed + request SCTL[k] + setup_init.
 *                                          The pipeline pl runs on every <stride>-th successful set-up of the line (the others are set up and cleared).
 *                                          (S 1 accepts the same path numbers: one explicit tuple.)
 *   W <managed> <ch> <rate> <q|nominal> <total> <piece> <batch>   submission-size axis of the encode stage (see main)
 *   T                                      print the tables (rates, qualities, ops, bases) as one line of JSON-ish text
 * output: <idx> ok n=<set-ups> cls=<class>*<count>,...  succ=<ch>/<template>*<count>,.. st=<hash>:<ops>,.. leak=<desc>*<bytes>,.. bad=<kind>@<desc>;..
 * A non-empty bad= is a property violation on that tuple.  */
#include "common.h"
#include "codec_internal.h"
#include <math.h>
#include <limits.h>
#include <stdarg.h>

/* ------------------------------------------------------------------ tables */
static const long RATES[]={-1,0,1,2,100,4000,7999,8000,8001,8999,9000,9001,14999,15000,15001,18999,19000,19001,25999,26000,26001,
  39999,40000,40001,49999,50000,50001,96000,192000,199999,200000,200001,2147483647L,
  /* extras: the common rates and the 5.1 template's own upper bound (70000) */
  11025,16000,22050,32000,44100,48000,64000,69999,70000,70001,88200,176400};
#define NRATES ((int)(sizeof(RATES)/sizeof(RATES[0])))
static float QUALS[16];
#define NQUALS 16
static void init_quals(void){
  float q[16]={-1e30f,-1.f,-.2f,-.1000001f,-.1f,-.05f,0.f,.0499f,.5f,.999f,1.0f,1.0001f,2.f,0,0,0};
  memcpy(QUALS,q,sizeof(q)); QUALS[13]=INFINITY; QUALS[14]=-INFINITY; QUALS[15]=NAN;
}
static const long BITR[7]={-1,0,1,8000,64000,256000,2147483647L};
#define NTRI 343
static const long MRATES[8]={-1,1,8000,16000,32000,44100,96000,2147483647L};
/* bitrate scaling family: per-channel bitrate alphabet = every entry of every rate_mapping table of lib/modes/setup_*.h (a snapshot: a stale entry only
   thins the coverage, nothing is judged from it), the value just outside each end of each table, and -1, 0, 1, 2, 4000, 300000 */
static const long PERCH[]={-1,0,1,2,4000,5999,6000,7999,8000,9000,11999,12000,13000,13999,14000,14999,15000,15999,16000,17999,18000,20000,22499,22500,28000,
  29999,30000,31999,32000,32001,35000,38000,40000,42000,42001,44000,44001,45000,46000,48000,50000,50001,52000,54000,56000,60000,64000,70000,72000,75000,78000,
  80000,86000,86001,90000,90001,92000,96000,100000,100001,110000,112000,115000,120000,128000,140000,150000,160000,180000,190000,190001,240000,240001,240002,
  250000,250001,250002,300000};
#define NPERCH ((int)(sizeof(PERCH)/sizeof(PERCH[0])))
static const long ABSV[]={2147483647L,2147483648L,4294967296L,LONG_MAX/2,LONG_MAX/2+1,LONG_MAX,LONG_MIN};
#define NABSV ((int)(sizeof(ABSV)/sizeof(ABSV[0])))
static const long PSEL[]={16000,32000,64000,128000,200000};      /* per-channel nominal values combined with an absolute max / min (roles 8, 9) */
#define NPSEL ((int)(sizeof(PSEL)/sizeof(PSEL[0])))
#define NROLES 8
static const char *const ROLENAMES[]={"(-1,v,-1)","(v,v,v)","(2v,v,v/2)","(v,-1,-1)","(-1,-1,v)","(v+v/2,-1,v/2)","(0,v,0)","(v,-1,v)","(abs,v,-1)","(-1,v,abs)"};
static long smul(long a,long b){ long r; if(__builtin_mul_overflow(a,b,&r))return ((a<0)!=(b<0))?LONG_MIN:LONG_MAX; return r; }
static long sadd(long a,long b){ long r; if(__builtin_add_overflow(a,b,&r))return a<0?LONG_MIN:LONG_MAX; return r; }
static void role_triple(int role,long v,long *mx,long *nom,long *mn){
  switch(role){
  case 0: *mx=-1; *nom=v; *mn=-1; break;
  case 1: *mx=v; *nom=v; *mn=v; break;
  case 2: *mx=smul(v,2); *nom=v; *mn=v/2; break;
  case 3: *mx=v; *nom=-1; *mn=-1; break;
  case 4: *mx=-1; *nom=-1; *mn=v; break;
  case 5: *mx=sadd(v,v/2); *nom=-1; *mn=v/2; break;
  case 6: *mx=0; *nom=v; *mn=0; break;
  default: *mx=v; *nom=-1; *mn=v; break;
  }
}
/* requests issued between setup_managed and setup_init on paths 2.. (indices into OPS resolved by name at start-up) */
static const char *const SCTLNAMES[]={"RM2_SET(NULL)","RM2_SET(typ)","CP_SET(0)","LP_SET(20)"};
#define NSCTL 4
static int SCTL[NSCTL];

/* ctl request alphabet */
enum { AK_RM=1, AK_RM2, AK_DBL, AK_INT, AK_NULL, AK_BLOB, AK_VINULL };
typedef struct { int number; int ak; int ai; const char *name; } ctlop;
static struct ovectl_ratemanage_arg RMV[160]; static int nrm;
static struct ovectl_ratemanage2_arg RM2V[40]; static int nrm2;
static double DBLV[16]; static int ndbl;
static int INTV[4]={0,1,INT_MIN,0};
static ctlop OPS[256]; static int NOPS,NOPS_ENUM;   /* OPS[0..NOPS_ENUM) is the alphabet the histories are enumerated over; the rest are only issued by explicit index */
static char V1NAMES[140][56];
static void addop(int number,int ak,int ai,const char *name){ OPS[NOPS].number=number; OPS[NOPS].ak=ak; OPS[NOPS].ai=ai; OPS[NOPS].name=name; NOPS++; }
static int rm2(int act,long mn,long mx,long res,double bias,long avg,double damp){
  struct ovectl_ratemanage2_arg *a=&RM2V[nrm2]; memset(a,0,sizeof(*a));
  a->management_active=act; a->bitrate_limit_min_kbps=mn; a->bitrate_limit_max_kbps=mx; a->bitrate_limit_reservoir_bits=res;
  a->bitrate_limit_reservoir_bias=bias; a->bitrate_average_kbps=avg; a->bitrate_average_damping=damp; return nrm2++;
}
static int rm(int act,long hmin,long hmax,double hwin,long lo,long hi,double awin){
  struct ovectl_ratemanage_arg *a=&RMV[nrm]; memset(a,0,sizeof(*a));
  a->management_active=act; a->bitrate_hard_min=hmin; a->bitrate_hard_max=hmax; a->bitrate_hard_window=hwin; a->bitrate_av_lo=lo; a->bitrate_av_hi=hi;
  a->bitrate_av_window=awin; a->bitrate_av_window_center=.5; return nrm++;
}
static int dv(double d){ DBLV[ndbl]=d; return ndbl++; }
static void init_ops(void){
  int r_typ,r_off,r_neg,r_nan;
  /* queries */
  addop(OV_ECTL_RATEMANAGE_GET,AK_RM,-1,"RM_GET");
  addop(OV_ECTL_RATEMANAGE2_GET,AK_RM2,-1,"RM2_GET");
  addop(OV_ECTL_LOWPASS_GET,AK_DBL,-1,"LP_GET");
  addop(OV_ECTL_IBLOCK_GET,AK_DBL,-1,"IB_GET");
  addop(OV_ECTL_COUPLING_GET,AK_INT,-1,"CP_GET");
  /* RATEMANAGE2_SET: NULL is documented ("disable bitrate management"); structs at each validation boundary of vorbisenc.c:1120-1146 */
  addop(OV_ECTL_RATEMANAGE2_SET,AK_NULL,0,"RM2_SET(NULL)");
  addop(OV_ECTL_RATEMANAGE2_SET,AK_RM2,rm2(1,64,256,256000,.1,128,1.5),"RM2_SET(typ)");
  addop(OV_ECTL_RATEMANAGE2_SET,AK_RM2,rm2(0,64,256,256000,.1,128,1.5),"RM2_SET(inactive)");
  addop(OV_ECTL_RATEMANAGE2_SET,AK_RM2,rm2(1,129,256,256000,.1,128,1.5),"RM2_SET(min>avg)");
  addop(OV_ECTL_RATEMANAGE2_SET,AK_RM2,rm2(1,128,128,256000,.1,128,1.5),"RM2_SET(min=avg=max)");
  addop(OV_ECTL_RATEMANAGE2_SET,AK_RM2,rm2(1,64,127,256000,.1,128,1.5),"RM2_SET(max<avg)");
  addop(OV_ECTL_RATEMANAGE2_SET,AK_RM2,rm2(1,200,100,256000,.1,0,1.5),"RM2_SET(min>max_avg0)");
  addop(OV_ECTL_RATEMANAGE2_SET,AK_RM2,rm2(1,64,256,256000,.1,0,1.5),"RM2_SET(limits_only)");
  addop(OV_ECTL_RATEMANAGE2_SET,AK_RM2,rm2(1,0,0,256000,.1,128,0.),"RM2_SET(damp=0)");
  addop(OV_ECTL_RATEMANAGE2_SET,AK_RM2,rm2(1,0,0,256000,.1,128,1e-300),"RM2_SET(damp=tiny)");
  addop(OV_ECTL_RATEMANAGE2_SET,AK_RM2,rm2(1,0,0,256000,.1,128,NAN),"RM2_SET(damp=NaN)");
  addop(OV_ECTL_RATEMANAGE2_SET,AK_RM2,rm2(1,64,256,-1,.1,128,1.5),"RM2_SET(res=-1)");
  addop(OV_ECTL_RATEMANAGE2_SET,AK_RM2,rm2(1,64,256,0,.1,128,1.5),"RM2_SET(res=0)");
  addop(OV_ECTL_RATEMANAGE2_SET,AK_RM2,rm2(1,64,256,LONG_MAX,.1,128,1.5),"RM2_SET(res=LONG_MAX)");
  addop(OV_ECTL_RATEMANAGE2_SET,AK_RM2,rm2(1,64,256,256000,-1e-9,128,1.5),"RM2_SET(bias<0)");
  addop(OV_ECTL_RATEMANAGE2_SET,AK_RM2,rm2(1,64,256,256000,0.,128,1.5),"RM2_SET(bias=0)");
  addop(OV_ECTL_RATEMANAGE2_SET,AK_RM2,rm2(1,64,256,256000,1.,128,1.5),"RM2_SET(bias=1)");
  addop(OV_ECTL_RATEMANAGE2_SET,AK_RM2,rm2(1,64,256,256000,1.000001,128,1.5),"RM2_SET(bias>1)");
  addop(OV_ECTL_RATEMANAGE2_SET,AK_RM2,rm2(1,64,256,256000,NAN,128,1.5),"RM2_SET(bias=NaN)");
  /* management_active==0 combined with each field the active form refuses (the header does not say whether an inactive request is
     validated, so its return code is not judged; what a later request that re-enables management does with the stored values is) */
  addop(OV_ECTL_RATEMANAGE2_SET,AK_RM2,rm2(0,0,0,0,0.,0,0.),"RM2_SET(inactive_zeroed_struct)");
  addop(OV_ECTL_RATEMANAGE2_SET,AK_RM2,rm2(0,129,256,256000,.1,128,1.5),"RM2_SET(inactive_min>avg)");
  addop(OV_ECTL_RATEMANAGE2_SET,AK_RM2,rm2(0,64,127,256000,.1,128,1.5),"RM2_SET(inactive_max<avg)");
  addop(OV_ECTL_RATEMANAGE2_SET,AK_RM2,rm2(0,200,100,256000,.1,0,1.5),"RM2_SET(inactive_min>max)");
  addop(OV_ECTL_RATEMANAGE2_SET,AK_RM2,rm2(0,64,256,256000,.1,128,-1.),"RM2_SET(inactive_damp=-1)");
  addop(OV_ECTL_RATEMANAGE2_SET,AK_RM2,rm2(0,64,256,256000,.1,128,-1e-9),"RM2_SET(inactive_damp=-1e-9)");
  addop(OV_ECTL_RATEMANAGE2_SET,AK_RM2,rm2(0,64,256,-1,.1,128,1.5),"RM2_SET(inactive_res=-1)");
  addop(OV_ECTL_RATEMANAGE2_SET,AK_RM2,rm2(0,64,256,256000,-1e-9,128,1.5),"RM2_SET(inactive_bias<0)");
  addop(OV_ECTL_RATEMANAGE2_SET,AK_RM2,rm2(0,64,256,256000,1.000001,128,1.5),"RM2_SET(inactive_bias>1)");
  addop(OV_ECTL_RATEMANAGE2_SET,AK_RM2,rm2(7,-5,-5,1,.5,-5,1.5),"RM2_SET(negative_kbps)");
  addop(OV_ECTL_RATEMANAGE2_SET,AK_RM2,rm2(1,0,2147483,4000000000L,.5,2147483,1.5),"RM2_SET(2^31_bps)");
  /* lowpass: documented valid range 2..99 */
  addop(OV_ECTL_LOWPASS_SET,AK_DBL,dv(-1e300),"LP_SET(-1e300)");
  addop(OV_ECTL_LOWPASS_SET,AK_DBL,dv(1.999),"LP_SET(1.999)");
  addop(OV_ECTL_LOWPASS_SET,AK_DBL,dv(20.),"LP_SET(20)");
  addop(OV_ECTL_LOWPASS_SET,AK_DBL,dv(99.001),"LP_SET(99.001)");
  addop(OV_ECTL_LOWPASS_SET,AK_DBL,dv(INFINITY),"LP_SET(inf)");
  addop(OV_ECTL_LOWPASS_SET,AK_DBL,dv(NAN),"LP_SET(NaN)");
  /* impulse block bias: documented valid range -15..0 */
  addop(OV_ECTL_IBLOCK_SET,AK_DBL,dv(-1e300),"IB_SET(-1e300)");
  addop(OV_ECTL_IBLOCK_SET,AK_DBL,dv(-15.),"IB_SET(-15)");
  addop(OV_ECTL_IBLOCK_SET,AK_DBL,dv(-7.5),"IB_SET(-7.5)");
  addop(OV_ECTL_IBLOCK_SET,AK_DBL,dv(1.),"IB_SET(1)");
  addop(OV_ECTL_IBLOCK_SET,AK_DBL,dv(NAN),"IB_SET(NaN)");
  addop(OV_ECTL_COUPLING_SET,AK_INT,0,"CP_SET(0)");
  addop(OV_ECTL_COUPLING_SET,AK_INT,1,"CP_SET(1)");
  addop(OV_ECTL_COUPLING_SET,AK_INT,2,"CP_SET(INT_MIN)");
  /* deprecated interface (struct ovectl_ratemanage_arg; NULL is not documented for these, so it is not issued) */
  r_typ=rm(1,64000,256000,2.,128000,128000,2.);
  r_off=rm(0,0,0,0.,0,0,0.);
  r_neg=rm(1,-1,-1,-5.,-1,-1,-5.);
  r_nan=rm(3,2147483647L,2147483647L,NAN,LONG_MAX/2,LONG_MAX/2,NAN);
  addop(OV_ECTL_RATEMANAGE_SET,AK_RM,r_typ,"RM_SET(typ)");
  addop(OV_ECTL_RATEMANAGE_SET,AK_RM,r_off,"RM_SET(off_zeros)");
  addop(OV_ECTL_RATEMANAGE_SET,AK_RM,r_neg,"RM_SET(negative)");
  addop(OV_ECTL_RATEMANAGE_SET,AK_RM,r_nan,"RM_SET(huge_NaN_window)");
  addop(OV_ECTL_RATEMANAGE_AVG,AK_RM,r_typ,"RM_AVG(typ)");
  addop(OV_ECTL_RATEMANAGE_AVG,AK_RM,r_off,"RM_AVG(zeros)");
  addop(OV_ECTL_RATEMANAGE_AVG,AK_RM,r_nan,"RM_AVG(huge)");
  addop(OV_ECTL_RATEMANAGE_HARD,AK_RM,r_typ,"RM_HARD(typ)");
  addop(OV_ECTL_RATEMANAGE_HARD,AK_RM,r_off,"RM_HARD(zeros)");
  addop(OV_ECTL_RATEMANAGE_HARD,AK_RM,r_neg,"RM_HARD(negative)");
  addop(OV_ECTL_RATEMANAGE_HARD,AK_RM,r_nan,"RM_HARD(huge_NaN_window)");
  /* request numbers that are not defined */
  addop(0x00,AK_BLOB,0,"REQ(0x00)");
  addop(0x01,AK_BLOB,0,"REQ(0x01)");
  addop(0x16,AK_BLOB,0,"REQ(0x16)");
  addop(0x50,AK_BLOB,0,"REQ(0x50)");
  addop(-1,AK_BLOB,0,"REQ(-1)");
  addop(0x121,AK_BLOB,0,"REQ(0x121)");
  addop(OV_ECTL_LOWPASS_GET,AK_VINULL,0,"LP_GET(vi=NULL)");
  NOPS_ENUM=NOPS;
  /* deprecated (v1) requests OV_ECTL_RATEMANAGE_SET / _AVG / _HARD: the typical struct with ONE member at a time at a boundary value
     (doubles: -1e300, -2, -0.001, 0, 1e-300, 1e300, NaN, +-inf; longs: -1, 0, 1, LONG_MAX).  Issued by explicit index only (case C with nfix == length). */
  { static const int reqs[3]={OV_ECTL_RATEMANAGE_SET,OV_ECTL_RATEMANAGE_AVG,OV_ECTL_RATEMANAGE_HARD}; static const char *const rn[3]={"RM_SET","RM_AVG","RM_HARD"};
    static const char *const mn[7]={"hard_min","hard_max","av_lo","av_hi","hard_window","av_window","av_window_center"};
    const double dbv[9]={-1e300,-2.,-0.001,0.,1e-300,1e300,NAN,INFINITY,-INFINITY}; const long lgv[4]={-1,0,1,LONG_MAX};
    int q,m,k,nn=0;
    for(q=0;q<3;q++)for(m=0;m<7;m++)for(k=0;k<(m<4?4:9);k++){
      int idx=rm(1,64000,256000,2.,128000,128000,2.); struct ovectl_ratemanage_arg *a=&RMV[idx];
      switch(m){ case 0: a->bitrate_hard_min=lgv[k]; break; case 1: a->bitrate_hard_max=lgv[k]; break; case 2: a->bitrate_av_lo=lgv[k]; break; case 3: a->bitrate_av_hi=lgv[k]; break;
                 case 4: a->bitrate_hard_window=dbv[k]; break; case 5: a->bitrate_av_window=dbv[k]; break; default: a->bitrate_av_window_center=dbv[k]; break; }
      if(m<4)snprintf(V1NAMES[nn],sizeof(V1NAMES[nn]),"%s(%s=%ld)",rn[q],mn[m],lgv[k]); else snprintf(V1NAMES[nn],sizeof(V1NAMES[nn]),"%s(%s=%g)",rn[q],mn[m],dbv[k]);
      addop(reqs[q],AK_RM,idx,V1NAMES[nn]); nn++;
    }
  }
}
/* is this request a "modify" request in the sense of the header (a *_SET, or the deprecated AVG/HARD setters)? */
static int is_set_request(int number){
  return number==OV_ECTL_RATEMANAGE2_SET||number==OV_ECTL_LOWPASS_SET||number==OV_ECTL_IBLOCK_SET||number==OV_ECTL_COUPLING_SET||
         number==OV_ECTL_RATEMANAGE_SET||number==OV_ECTL_RATEMANAGE_AVG||number==OV_ECTL_RATEMANAGE_HARD;
}

typedef struct { int managed; long ch,rate; float q; long mx,nom,mn; const char *name; } basecfg;
static const basecfg BASES[]={
  {0,2,44100,.5f,0,0,0,"vbr 2ch 44100 q.5"},
  {1,2,44100,0,-1,128000,-1,"managed 2ch 44100 nominal 128k"},
  {0,1,8000,.1f,0,0,0,"vbr 1ch 8000 q.1"},
  {1,6,48000,0,-1,256000,-1,"managed 5.1 48000 nominal 256k"},
  {0,2,96000,.5f,0,0,0,"vbr 2ch 96000 q.5 (template X, no rate mapping)"},
  {0,6,44100,.3f,0,0,0,"vbr 5.1 44100 q.3"},
  {0,2,44100,-1.f,0,0,0,"vbr 2ch 44100 q-1 (setup_vbr fails with OV_EIMPL)"},
  {0,255,44100,.5f,0,0,0,"vbr 255ch 44100 q.5"},
  {1,1,8000,0,24000,16000,8000,"managed 1ch 8000 max24k nominal16k min8k"},
  {1,2,22050,0,64000,-1,64000,"managed 2ch 22050 CBR 64k (nominal unset)"},
  {0,3,300000,.5f,0,0,0,"vbr 3ch 300000 (no template)"},
  {0,300,44100,.5f,0,0,0,"vbr 300ch (setup_init fails)"},
};
#define NBASES ((int)(sizeof(BASES)/sizeof(BASES[0])))

/* ---------------------------------------------------------- string buffers */
typedef struct { char *s; size_t n,cap; } sbuf;
static void sb_add(sbuf *b,const char *fmt,...){
  va_list ap; int k; char tmp[1024];
  va_start(ap,fmt); k=vsnprintf(tmp,sizeof(tmp),fmt,ap); va_end(ap);
  if(k<0)return; if(k>=(int)sizeof(tmp))k=sizeof(tmp)-1;
  if(b->n+k+1>b->cap){ b->cap=(b->n+k+1)*2+256; b->s=(char*)__real_realloc(b->s,b->cap); }
  memcpy(b->s+b->n,tmp,k+1); b->n+=k;
}
static void sb_raw(sbuf *b,const char *str){
  size_t k=strlen(str);
  if(b->n+k+1>b->cap){ b->cap=(b->n+k+1)*2+256; b->s=(char*)__real_realloc(b->s,b->cap); }
  memcpy(b->s+b->n,str,k+1); b->n+=k;
}
/* counted string multiset (small; linear search is fine) */
typedef struct { char **k; long *v; int n,cap; } cset;
static void cs_add(cset *c,const char *key,long v){
  int i; for(i=0;i<c->n;i++)if(!strcmp(c->k[i],key)){ c->v[i]+=v; return; }
  if(c->n==c->cap){ c->cap=c->cap*2+64; c->k=(char**)__real_realloc(c->k,c->cap*sizeof(char*)); c->v=(long*)__real_realloc(c->v,c->cap*sizeof(long)); }
  c->k[c->n]=(char*)__real_malloc(strlen(key)+1); strcpy(c->k[c->n],key); c->v[c->n]=v; c->n++;
}
static void cs_emit(cset *c,sbuf *o,const char *tag,const char *sep){
  int i; sb_add(o," %s=",tag); for(i=0;i<c->n;i++){ sb_add(o,"%s%s*%ld",i?sep:"",c->k[i],c->v[i]); }
}
static void cs_free(cset *c){ int i; for(i=0;i<c->n;i++)__real_free(c->k[i]); __real_free(c->k); __real_free(c->v); memset(c,0,sizeof(*c)); }

static volatile long g_cur=-1;
static long g_ord=-1; static char g_desc[256]; static long g_skip[16]; static int g_nskip;
static void on_alarm(int s){ char b[400]; int n=snprintf(b,sizeof(b),"%ld TIMEOUT ord=%ld desc=%s\n",g_cur,g_ord,g_desc); if(write(1,b,n)<0){} _exit(3); }
/* called by the sanitizer runtime right before it ends the process: names the tuple that was running */
void __sanitizer_set_death_callback(void (*cb)(void));
static void on_death(void){ char b[400]; int n=snprintf(b,sizeof(b),"\nC15-DEATH idx=%ld ord=%ld desc=%s\n",g_cur,g_ord,g_desc); if(write(2,b,n)<0){} }
/* signals the sanitizer runtime does not turn into a report (SIGILL from a compiler-inserted trap, SIGABRT): name the tuple, exit like a report */
static void on_signal(int sig){ char b[400]; int n=snprintf(b,sizeof(b),"\nC15-SIGNAL %d\nC15-DEATH idx=%ld ord=%ld desc=%s\n",sig,g_cur,g_ord,g_desc); if(write(2,b,n)<0){} _exit(77); }
static int skipped(long ord){ int i; for(i=0;i<g_nskip;i++)if(g_skip[i]==ord)return 1; return 0; }

/* ------------------------------------------------------- template labelling */
/* leading members of vorbisenc.c's private ve_setup_data_template (mappings, rate_mapping, quality_mapping, coupling_restriction,
 * samplerate_min_restriction, samplerate_max_restriction): only read to NAME the template chosen, never to judge. */
typedef struct { int mappings; const double *rm; const double *qm; int coupling; long smin; long smax; } tmpl_prefix;
static void tmpl_label(const void *setup,char *out){
  const tmpl_prefix *t=(const tmpl_prefix*)setup;
  if(!t){ strcpy(out,"none"); return; }
  sprintf(out,"c%d_%ld-%ld",t->coupling,t->smin,t->smax);
}
static const char *qname(float q,char *b){ if(isnan(q))strcpy(b,"nan"); else if(isinf(q))strcpy(b,q>0?"inf":"-inf"); else sprintf(b,"%.9g",q); return b; }
static int documented(int r){ return r==0||r==OV_EINVAL||r==OV_EIMPL||r==OV_EFAULT; }
static int info_is_zero(const vorbis_info *vi){ vorbis_info z; memset(&z,0,sizeof(z)); return memcmp(vi,&z,sizeof(z))==0; }

/* ------------------------------------------------------------ the pipeline */
static unsigned long g_lcg;
static float noise(void){ g_lcg=g_lcg*6364136223846793005UL+1442695040888963407UL; return ((long)((g_lcg>>33)&0xffff)-32768)/65536.f; }
typedef struct { long packets,bytes,blocks; int bigpad; long longb,shortb; } encstat;
/* signal alphabet for the encode stage (pl = 10+index; pl 2 = the +-0.5 noise above).  The float API accepts any value:
   over-full-scale tones, a square wave, an exponential level sweep, and bursts of FLT_MAX / inf / NaN inside noise. */
#include <float.h>
#define SIG_GEOM 90     /* pl = 100: the geometry family's signal (not a member of the over-range alphabet) */
static const char *const SIGNAMES[]={"sine_x2","sine_x4","sine_x100","sine_x1e6","square_x4","sweep_1e-4..1e4","fltmax_bursts","inf_bursts","nan_bursts"};
#define NSIG ((int)(sizeof(SIGNAMES)/sizeof(SIGNAMES[0])))
static float sigsample(int sig,long k,int c,long rate,long ns){
  double f=(rate>4000?1000.:rate/8.+1e-3)/(double)(rate>0?rate:1), ph=2.*M_PI*f*k+c*.3, s=sin(ph);
  int burst=((k&511)>=200&&(k&511)<216);       /* 16 samples in every 512 */
  switch(sig){
  case SIG_GEOM: { float a=noise(); return (k*5<ns*3)?a*.004f:a*1.6f; }   /* broadband; 60% quiet, then 52 dB louder: one transient, both block sizes */
  case 0: return (float)(2.*s);
  case 1: return (float)(4.*s);
  case 2: return (float)(100.*s);
  case 3: return (float)(1e6*s);
  case 4: return ((k+c*7)&63)<32?4.f:-4.f;
  case 5: return (float)(s*pow(10.,-4.+8.*(double)k/(double)(ns>1?ns-1:1)));
  case 6: return burst?((k&1)?FLT_MAX:-FLT_MAX):noise();
  case 7: return burst?((k&1)?INFINITY:-INFINITY):noise();
  case 8: return burst?NAN:noise();
  }
  return noise();
}
/* after a successful set-up: analysis_init, headerout, (encode ns samples), headerin of the three headers; clears its own objects.
 * returns 0 and leaves bad[0]==0 when everything completed as documented */
static long g_piece=1024; static int g_batch=0;   /* submission axis (case W): samples per vorbis_analysis_buffer/_wrote call; batch = no blockout before the final wrote(0) */
static void pipeline(vorbis_info *vi,long ch,long rate,int level,long ns,char *bad,size_t badn,encstat *es){
  int sig=-1;
  vorbis_dsp_state vd; vorbis_block vb; vorbis_comment vc,vc2; vorbis_info vi2; ogg_packet h[3],op; int r,i,have_vb=0;
  memset(&vd,0,sizeof(vd)); memset(h,0,sizeof(h)); bad[0]=0;
  if(level>=10){ sig=level-10; level=2; }
  r=vorbis_analysis_init(&vd,vi);
  if(r){ snprintf(bad,badn,"analysis_init_rc%d",r); vorbis_dsp_clear(&vd); return; }
  vorbis_comment_init(&vc); vorbis_comment_add_tag(&vc,"TITLE","c15");
  r=vorbis_analysis_headerout(&vd,&vc,&h[0],&h[1],&h[2]);
  if(r){ snprintf(bad,badn,"headerout_rc%d",r); goto done; }
  { /* the header packets live in the encoder state only until the next vorbis_analysis_buffer call: parse them now */
    vorbis_info_init(&vi2); vorbis_comment_init(&vc2);
    for(i=0;i<3&&!bad[0];i++){
      r=vorbis_synthesis_headerin(&vi2,&vc2,&h[i]);
      if(r)snprintf(bad,badn,"headerin%d_rc%d",i,r);
    }
    if(!bad[0]&&(vi2.channels!=ch||vi2.rate!=rate))snprintf(bad,badn,"headers_say_ch%d_rate%ld",vi2.channels,vi2.rate);
    vorbis_comment_clear(&vc2); vorbis_info_clear(&vi2); vorbis_info_clear(&vi2);
  }
  if(bad[0])goto done;
  if(level>=2){
    /* coverage limit, not an oracle: a managed set-up whose hard minimum pads every packet to more than 64 KiB is not encoded
       (libogg's oggpack_write grows its buffer 256 bytes at a time: megabyte packets cost minutes under ASan) */
    codec_setup_info *ci=(codec_setup_info*)vi->codec_setup;
    private_state *ps=(private_state*)vd.backend_state;
    /* monitor: the bitrate manager's own invariant 0 <= fill <= reservoir_bits must hold right after initialisation.  A set-up that
       was accepted with a fill outside it (observed: LONG_MIN from a NaN bias) makes vorbis_bitrate_addblock pad or truncate by
       ~2^60 bytes: the encode does not complete.  Reported as a violation by name instead of waiting for the watchdog. */
    if(ps->bms.managed&&(ps->bms.minmax_reservoir<0||ps->bms.minmax_reservoir>ci->bi.reservoir_bits)){
      snprintf(bad,badn,"bitrate_reservoir_fill_%s_at_init",ps->bms.minmax_reservoir<0?"negative":"above_reservoir_bits"); goto done;
    }
    if(ci->bi.reservoir_bits>0&&ci->bi.min_rate>0&&(double)ci->bi.min_rate*(ci->blocksizes[1]>>1)/(double)rate/8.>65536.){ level=1; es->bigpad=1; }
  }
  if(level>=2){
    long pos=0; int eos=0;
    vorbis_block_init(&vd,&vb); have_vb=1;
    g_lcg=0x1234567u+ch*131+rate;
    while(!eos&&!bad[0]){
      long chunk=ns-pos; float **buf; long k; int c;
      if(chunk>g_piece)chunk=g_piece;
      if(chunk>0){
        buf=vorbis_analysis_buffer(&vd,chunk);
        for(k=0;k<chunk;k++)for(c=0;c<vi->channels;c++)buf[c][k]=sig<0?noise():sigsample(sig,pos+k,c,rate,ns);
        r=vorbis_analysis_wrote(&vd,chunk); pos+=chunk;
      }else{ r=vorbis_analysis_wrote(&vd,0); eos=1; }
      if(r){ snprintf(bad,badn,"analysis_wrote_rc%d",r); break; }
      if(g_batch&&!eos)continue;
      while((r=vorbis_analysis_blockout(&vd,&vb))==1){
        es->blocks++; if(vb.W)es->longb++; else es->shortb++;
        r=vorbis_analysis(&vb,NULL); if(r){ snprintf(bad,badn,"analysis_rc%d",r); break; }
        r=vorbis_bitrate_addblock(&vb); if(r){ snprintf(bad,badn,"addblock_rc%d",r); break; }
        while((r=vorbis_bitrate_flushpacket(&vd,&op))==1){
          es->packets++; es->bytes+=op.bytes;
          if(op.bytes<0||(op.bytes>0&&!op.packet)){ snprintf(bad,badn,"packet_bytes%ld",op.bytes); break; }
          if(op.bytes>0){ volatile unsigned char t=op.packet[0]^op.packet[op.bytes-1]; (void)t; } /* touch: ASan checks the range ends */
        }
        if(r<0&&!bad[0])snprintf(bad,badn,"flushpacket_rc%d",r);
        if(bad[0])break;
      }
      if(r<0&&!bad[0])snprintf(bad,badn,"blockout_rc%d",r);
    }
  }
done:
  if(have_vb)vorbis_block_clear(&vb);
  vorbis_dsp_clear(&vd);
  vorbis_comment_clear(&vc); vorbis_comment_clear(&vc);
}

/* ------------------------------------------------------ accumulators / case */
typedef struct { cset cls,succ,leak,enc; sbuf bad,st; long n; } acc;
static void acc_bad(acc *A,const char *kind,const char *desc){ sb_add(&A->bad,"%s%s@%s",A->bad.n?";":"",kind,desc); }

/* classification only (never judged): which stage of the equivalent two-step set-up refuses the tuple a one-step call refused.
   *r2 = 1 when setup_init was not called.  Runs on its own vorbis_info with the allocation accounting switched off. */
static void stage_probe(int managed,long ch,long rate,float q,long mx,long nom,long mn,int *r1,int *r2){
  vorbis_info p; int on=wa_on; wa_on=0;
  vorbis_info_init(&p);
  *r1=managed?vorbis_encode_setup_managed(&p,ch,rate,mx,nom,mn):vorbis_encode_setup_vbr(&p,ch,rate,q);
  *r2=(*r1==0)?vorbis_encode_setup_init(&p):1;
  vorbis_info_clear(&p);
  wa_on=on;
}
static int do_ctl(vorbis_info *vi,const ctlop *op);
static long g_stride=1,g_succ_in_line=0;     /* B lines: the pipeline runs on every g_stride-th successful set-up of the line */
/* one VBR / managed set-up tuple.  path 0 = one-step call, 1 = setup_* + setup_init, 2+k (managed) = setup_managed + request SCTL[k] + setup_init */
static void one_setup(acc *A,int managed,int path,long ch,long rate,float q,long mx,long nom,long mn,int pl,long ns){
  vorbis_info vi; int r1=0,r2=0,rc; char desc[240],cls[240],tl[64],qb[32],kind[120],pb[120]; long base; const char *fn1,*fn;
  if(managed)snprintf(desc,sizeof(desc),"managed:p%d:ch=%ld:rate=%ld:max=%ld:nom=%ld:min=%ld",path,ch,rate,mx,nom,mn);
  else snprintf(desc,sizeof(desc),"vbr:p%d:ch=%ld:rate=%ld:q=%s",path,ch,rate,qname(q,qb));
  if(path>=2){ size_t dl=strlen(desc); if(!managed||path-2>=NSCTL){ acc_bad(A,"BADCASE_path",desc); return; } snprintf(desc+dl,sizeof(desc)-dl,":req=%s",SCTLNAMES[path-2]); }
  if(pl>=10){ size_t dl=strlen(desc); snprintf(desc+dl,sizeof(desc)-dl,":pl=%d:sig=%s",pl,pl-10<NSIG?SIGNAMES[pl-10]:"?"); }
  if(g_piece!=1024||g_batch){ size_t dl=strlen(desc); snprintf(desc+dl,sizeof(desc)-dl,":ns=%ld:piece=%ld:batch=%d",ns,g_piece,g_batch); }
  fn1=managed?"setup_managed":"setup_vbr"; fn=managed?"init":"init_vbr";
  g_ord=A->n; snprintf(g_desc,sizeof(g_desc),"%s",desc);
  A->n++;
  if(skipped(g_ord)){ cs_add(&A->cls,"SKIPPED",1); return; }
  wa_on=1; base=wa_live_bytes;
  vorbis_info_init(&vi);
  strcpy(tl,"-");
  if(path==0){
    rc=managed?vorbis_encode_init(&vi,ch,rate,mx,nom,mn):vorbis_encode_init_vbr(&vi,ch,rate,q);
    if(!documented(rc)){ snprintf(kind,sizeof(kind),"undocumented_rc:%s:%d",fn,rc); acc_bad(A,kind,desc); }
    if(rc!=0&&!info_is_zero(&vi)){ snprintf(kind,sizeof(kind),"info_not_cleared_after_failure:%s:%d",fn,rc); acc_bad(A,kind,desc); }
    /* "cleared" is what vorbis_info_clear does: the set-up storage is released, not just forgotten (judged only when the struct is all-zero:
       otherwise the line above has already reported it and the storage is still reachable) */
    if(rc!=0&&info_is_zero(&vi)&&wa_live_bytes!=base){ snprintf(kind,sizeof(kind),"setup_storage_not_released_after_failure:%s:%d",fn,rc); acc_bad(A,kind,desc); }
    if(rc==0&&vi.codec_setup)tmpl_label(((codec_setup_info*)vi.codec_setup)->hi.setup,tl);
    if(rc!=0){
      int p1,p2; stage_probe(managed,ch,rate,q,mx,nom,mn,&p1,&p2);
      if(p1==0)snprintf(cls,sizeof(cls),"%s:%s:%d:probe_%s:0:probe_setup_init:%d:%s",managed?"M":"V",fn,rc,fn1,p2,tl);
      else snprintf(cls,sizeof(cls),"%s:%s:%d:probe_%s:%d:%s",managed?"M":"V",fn,rc,fn1,p1,tl);
    }else snprintf(cls,sizeof(cls),"%s:%s:%d:%s",managed?"M":"V",fn,rc,tl);
  }else{
    int rq=1; size_t k;
    r1=managed?vorbis_encode_setup_managed(&vi,ch,rate,mx,nom,mn):vorbis_encode_setup_vbr(&vi,ch,rate,q);
    if(!documented(r1)){ snprintf(kind,sizeof(kind),"undocumented_rc:%s:%d",fn1,r1); acc_bad(A,kind,desc); }
    k=snprintf(cls,sizeof(cls),"%s:%s:%d",managed?"M":"V",fn1,r1);
    if(path>=2&&r1==0){       /* a request only in the documented order: after a successful setup_managed, before setup_init */
      rq=do_ctl(&vi,&OPS[SCTL[path-2]]); k+=snprintf(cls+k,sizeof(cls)-k,":ctl_%s:%d",SCTLNAMES[path-2],rq);
      if(!(rq==0||rq==OV_EINVAL||rq==OV_EIMPL)){ snprintf(kind,sizeof(kind),"undocumented_rc:ctl_%s:%d",SCTLNAMES[path-2],rq); acc_bad(A,kind,desc); }
    }
    tmpl_label(((codec_setup_info*)vi.codec_setup)->hi.setup,tl);
    /* setup_init is documented for use after a successful setup_*; after a failed one the header promises OV_EINVAL, so it is called too */
    r2=vorbis_encode_setup_init(&vi);
    if(!documented(r2)){ snprintf(kind,sizeof(kind),"undocumented_rc:setup_init:%d",r2); acc_bad(A,kind,desc); }
    rc=r1?r1:r2;
    if(r1&&r2==0){ snprintf(kind,sizeof(kind),"setup_init_succeeds_after_failed_%s:%d",fn1,r1); acc_bad(A,kind,desc); rc=0; }
    snprintf(cls+k,sizeof(cls)-k,":setup_init:%d:%s",r2,tl);
  }
  cs_add(&A->cls,cls,1);
  if(rc==0){
    char sk[100];
    if(vi.channels!=ch||vi.rate!=rate){ snprintf(kind,sizeof(kind),"request_not_echoed:%s:ch%d_rate%ld",path?"setup_init":fn,vi.channels,vi.rate); acc_bad(A,kind,desc); }
    snprintf(sk,sizeof(sk),"%ld/%s/%s",ch,managed?"M":"V",tl); cs_add(&A->succ,sk,1);
    if(pl>0&&(g_succ_in_line++%g_stride)==0){
      encstat es={0,0,0,0,0,0};
      pipeline(&vi,ch,rate,pl,ns,pb,sizeof(pb),&es);
      if(pb[0]){ snprintf(kind,sizeof(kind),"after_success:%s",pb); acc_bad(A,kind,desc); }
      snprintf(sk,sizeof(sk),"pl%d/ns%ld/%s",pl,ns,es.bigpad?"bigpad_not_encoded":(es.packets?"packets":"nopackets")); cs_add(&A->enc,sk,1);
    }
  }
  vorbis_info_clear(&vi);
  if(!info_is_zero(&vi))acc_bad(A,"info_not_zero_after_clear",desc);
  vorbis_info_clear(&vi);
  if(wa_live_bytes!=base){ char lk[260]; snprintf(lk,sizeof(lk),"%s:%s",cls,desc); cs_add(&A->leak,lk,wa_live_bytes-base); }
  wa_on=0;
}

/* ---------------------------------------------------------- geometry family */
/* names the geometry the set-up arrived at (read-only, for the coverage counts): template, block sizes, floor n, every residue's type.grouping.begin-end */
static void geom_label(vorbis_info *vi,char *out,size_t n){
  codec_setup_info *ci=(codec_setup_info*)vi->codec_setup; char tl[64]; int i; size_t k;
  tmpl_label(ci->hi.setup,tl);
  k=snprintf(out,n,"%s/%ld.%ld/f",tl,ci->blocksizes[0],ci->blocksizes[1]);
  for(i=0;i<ci->floors&&i<8&&k<n;i++)k+=snprintf(out+k,n-k,"%s%d",i?".":"",ci->floor_type[i]==1?((vorbis_info_floor1*)ci->floor_param[i])->n:-1);
  if(k<n)k+=snprintf(out+k,n-k,"/r");
  for(i=0;i<ci->residues&&i<8&&k<n;i++){
    vorbis_info_residue0 *r=(vorbis_info_residue0*)ci->residue_param[i];
    if(r)k+=snprintf(out+k,n-k,"%s%d.%d.%ld-%ld",i?"_":"",ci->residue_type[i],r->grouping,r->begin,r->end);
  }
}
/* one tuple: setup_* [+ COUPLING_SET] [+ LOWPASS_SET] + setup_init (or the one-step call when no request is made), then the whole encode stage */
static void one_geom(acc *A,int managed,int path,long ch,long rate,float q,long nom,int cpl,int has_lp,double lp,long ns,cset *geo,cset *blk,double *lpr){
  vorbis_info vi; int r1=0,r2=0,rc,rcp=1,rlp=1; char desc[240],cls[240],tl[64],qb[32],lb[40],kind[120],pb[120]; long base; const char *fn1,*fn; size_t k;
  if(has_lp)snprintf(lb,sizeof(lb),"%.17g",lp); else strcpy(lb,"-");
  if(cpl>=0||has_lp)path=1;
  if(managed)snprintf(desc,sizeof(desc),"managed:p%d:ch=%ld:rate=%ld:max=-1:nom=%ld:min=-1:cpl=%d:lp=%s",path,ch,rate,nom,cpl,lb);
  else snprintf(desc,sizeof(desc),"vbr:p%d:ch=%ld:rate=%ld:q=%s:cpl=%d:lp=%s",path,ch,rate,qname(q,qb),cpl,lb);
  fn1=managed?"setup_managed":"setup_vbr"; fn=managed?"init":"init_vbr";
  g_ord=A->n; snprintf(g_desc,sizeof(g_desc),"%s",desc);
  A->n++;
  if(skipped(g_ord)){ cs_add(&A->cls,"SKIPPED",1); return; }
  wa_on=1; base=wa_live_bytes;
  vorbis_info_init(&vi);
  strcpy(tl,"-");
  if(path==0){
    rc=managed?vorbis_encode_init(&vi,ch,rate,-1,nom,-1):vorbis_encode_init_vbr(&vi,ch,rate,q);
    if(!documented(rc)){ snprintf(kind,sizeof(kind),"undocumented_rc:%s:%d",fn,rc); acc_bad(A,kind,desc); }
    if(rc!=0&&!info_is_zero(&vi)){ snprintf(kind,sizeof(kind),"info_not_cleared_after_failure:%s:%d",fn,rc); acc_bad(A,kind,desc); }
    if(rc==0&&vi.codec_setup)tmpl_label(((codec_setup_info*)vi.codec_setup)->hi.setup,tl);
    snprintf(cls,sizeof(cls),"%s:%s:%d:%s",managed?"M":"V",fn,rc,tl);
  }else{
    r1=managed?vorbis_encode_setup_managed(&vi,ch,rate,-1,nom,-1):vorbis_encode_setup_vbr(&vi,ch,rate,q);
    if(!documented(r1)){ snprintf(kind,sizeof(kind),"undocumented_rc:%s:%d",fn1,r1); acc_bad(A,kind,desc); }
    k=snprintf(cls,sizeof(cls),"%s:%s:%d",managed?"M":"V",fn1,r1);
    if(r1==0){      /* requests only in the documented order: after a successful setup_*, before setup_init */
      if(cpl>=0){ int iv=cpl; rcp=vorbis_encode_ctl(&vi,OV_ECTL_COUPLING_SET,&iv); k+=snprintf(cls+k,sizeof(cls)-k,":ctl_coupling:%d",rcp);
        if(!(rcp==0||rcp==OV_EINVAL||rcp==OV_EIMPL)){ snprintf(kind,sizeof(kind),"undocumented_rc:ctl_CP_SET:%d",rcp); acc_bad(A,kind,desc); } }
      if(has_lp){ double dv_=lp; rlp=vorbis_encode_ctl(&vi,OV_ECTL_LOWPASS_SET,&dv_); k+=snprintf(cls+k,sizeof(cls)-k,":ctl_lowpass:%d",rlp);
        if(!(rlp==0||rlp==OV_EINVAL||rlp==OV_EIMPL)){ snprintf(kind,sizeof(kind),"undocumented_rc:ctl_LP_SET:%d",rlp); acc_bad(A,kind,desc); } }
    }
    tmpl_label(((codec_setup_info*)vi.codec_setup)->hi.setup,tl);
    r2=vorbis_encode_setup_init(&vi);
    if(!documented(r2)){ snprintf(kind,sizeof(kind),"undocumented_rc:setup_init:%d",r2); acc_bad(A,kind,desc); }
    rc=r1?r1:r2;
    if(r1&&r2==0){ snprintf(kind,sizeof(kind),"setup_init_succeeds_after_failed_%s:%d",fn1,r1); acc_bad(A,kind,desc); rc=0; }
    snprintf(cls+k,sizeof(cls)-k,":setup_init:%d:%s",r2,tl);
  }
  cs_add(&A->cls,cls,1);
  if(rc==0){
    char sk[100],gl[400]; encstat es={0,0,0,0,0,0}; codec_setup_info *ci=(codec_setup_info*)vi.codec_setup;
    if(vi.channels!=ch||vi.rate!=rate){ snprintf(kind,sizeof(kind),"request_not_echoed:%s:ch%d_rate%ld",path?"setup_init":fn,vi.channels,vi.rate); acc_bad(A,kind,desc); }
    snprintf(sk,sizeof(sk),"%ld/%s/%s",ch,managed?"M":"V",tl); cs_add(&A->succ,sk,1);
    geom_label(&vi,gl,sizeof(gl)); cs_add(geo,gl,1);
    *lpr=(ci->hi.lowpass_kHz*1000.)/(vi.rate/2.);     /* the same expression vorbis_encode_residue_setup compares against 1 */
    if(ns<=0)ns=3*ci->blocksizes[1];
    pipeline(&vi,ch,rate,100,ns,pb,sizeof(pb),&es);
    if(pb[0]){ snprintf(kind,sizeof(kind),"after_success:%s",pb); acc_bad(A,kind,desc); }
    snprintf(sk,sizeof(sk),"geom/%s",es.bigpad?"bigpad_not_encoded":(es.packets?"packets":"nopackets")); cs_add(&A->enc,sk,1);
    snprintf(sk,sizeof(sk),"L%ld/S%ld",es.longb,es.shortb); cs_add(blk,sk,1);
  }
  vorbis_info_clear(&vi);
  if(!info_is_zero(&vi))acc_bad(A,"info_not_zero_after_clear",desc);
  vorbis_info_clear(&vi);
  if(wa_live_bytes!=base){ char lk[300]; snprintf(lk,sizeof(lk),"%s:%s",cls,desc); cs_add(&A->leak,lk,wa_live_bytes-base); }
  wa_on=0;
}

/* ------------------------------------------------------------ ctl histories */
typedef struct { int rc[5]; struct ovectl_ratemanage_arg rm; struct ovectl_ratemanage2_arg rm2; double lp,ib; int cp;
                 int version,channels; long rate,bu,bn,bl,bw; } observ;
static void observe(vorbis_info *vi,observ *o){
  memset(o,0xA5,sizeof(*o));
  o->rc[0]=vorbis_encode_ctl(vi,OV_ECTL_RATEMANAGE_GET,&o->rm);
  o->rc[1]=vorbis_encode_ctl(vi,OV_ECTL_RATEMANAGE2_GET,&o->rm2);
  o->rc[2]=vorbis_encode_ctl(vi,OV_ECTL_LOWPASS_GET,&o->lp);
  o->rc[3]=vorbis_encode_ctl(vi,OV_ECTL_IBLOCK_GET,&o->ib);
  o->rc[4]=vorbis_encode_ctl(vi,OV_ECTL_COUPLING_GET,&o->cp);
  o->version=vi->version; o->channels=vi->channels; o->rate=vi->rate; o->bu=vi->bitrate_upper; o->bn=vi->bitrate_nominal; o->bl=vi->bitrate_lower; o->bw=vi->bitrate_window;
}
static void h_dbl(h128 *h,double d){ h_bytes(h,&d,sizeof(d)); }
static void state_hash(vorbis_info *vi,int r1,int r2,char *hex){
  h128 h; codec_setup_info *ci=(codec_setup_info*)vi->codec_setup; highlevel_encode_setup *hi=&ci->hi; char tl[64]; int i; float f;
  h_init(&h); h_i64(&h,r1); h_i64(&h,r2);
  h_i64(&h,vi->version); h_i64(&h,vi->channels); h_i64(&h,vi->rate); h_i64(&h,vi->bitrate_upper); h_i64(&h,vi->bitrate_nominal); h_i64(&h,vi->bitrate_lower); h_i64(&h,vi->bitrate_window);
  tmpl_label(hi->setup,tl); h_tag(&h,tl);
  h_i64(&h,hi->set_in_stone); h_dbl(&h,hi->base_setting); h_dbl(&h,hi->impulse_noisetune); f=hi->req; h_bytes(&h,&f,sizeof(f));
  h_i64(&h,hi->managed); h_i64(&h,hi->bitrate_min); h_i64(&h,hi->bitrate_av); h_dbl(&h,hi->bitrate_av_damp); h_i64(&h,hi->bitrate_max);
  h_i64(&h,hi->bitrate_reservoir); h_dbl(&h,hi->bitrate_reservoir_bias); h_i64(&h,hi->impulse_block_p); h_i64(&h,hi->noise_normalize_p); h_i64(&h,hi->coupling_p);
  h_dbl(&h,hi->stereo_point_setting); h_dbl(&h,hi->lowpass_kHz); h_i64(&h,hi->lowpass_altered); h_dbl(&h,hi->ath_floating_dB); h_dbl(&h,hi->ath_absolute_dB);
  h_dbl(&h,hi->amplitude_track_dBpersec); h_dbl(&h,hi->trigger_setting);
  for(i=0;i<4;i++){ h_dbl(&h,hi->block[i].tone_mask_setting); h_dbl(&h,hi->block[i].tone_peaklimit_setting); h_dbl(&h,hi->block[i].noise_bias_setting); h_dbl(&h,hi->block[i].noise_compand_setting); }
  h_i64(&h,ci->bi.avg_rate); h_i64(&h,ci->bi.min_rate); h_i64(&h,ci->bi.max_rate); h_i64(&h,ci->bi.reservoir_bits); h_dbl(&h,ci->bi.reservoir_bias); h_dbl(&h,ci->bi.slew_damp);
  h_i64(&h,ci->blocksizes[0]); h_i64(&h,ci->blocksizes[1]); h_i64(&h,ci->books); h_i64(&h,ci->residues); h_i64(&h,ci->floors); h_i64(&h,ci->psys);
  h_hex(&h,hex);
}
static int do_ctl(vorbis_info *vi,const ctlop *op){
  union { struct ovectl_ratemanage_arg rm; struct ovectl_ratemanage2_arg rm2; double d; int i; unsigned char blob[512]; } u;
  memset(&u,0,sizeof(u));
  switch(op->ak){
  case AK_RM: if(op->ai>=0)u.rm=RMV[op->ai]; return vorbis_encode_ctl(vi,op->number,&u);
  case AK_RM2: if(op->ai>=0)u.rm2=RM2V[op->ai]; return vorbis_encode_ctl(vi,op->number,&u);
  case AK_DBL: if(op->ai>=0)u.d=DBLV[op->ai]; return vorbis_encode_ctl(vi,op->number,&u);
  case AK_INT: if(op->ai>=0)u.i=INTV[op->ai]; return vorbis_encode_ctl(vi,op->number,&u);
  case AK_NULL: return vorbis_encode_ctl(vi,op->number,NULL);
  case AK_BLOB: return vorbis_encode_ctl(vi,op->number,&u);
  case AK_VINULL: return vorbis_encode_ctl(NULL,op->number,&u);
  }
  return -9999;
}
/* history: a requests, setup_*, b requests, setup_init, c requests, (pipeline), clear, clear */
static void one_history(acc *A,int base,int a,int b,int c,const int *ops,int enc,cset *states){
  const basecfg *B=&BASES[base]; vorbis_info vi; int L=a+b+c,i,r1,r2,rc; long lbase; char desc[200],cls[300],kind[160],hex[40],pb[120]; observ o0,o1; int frozen=0;
  { int k=snprintf(desc,sizeof(desc),"ctl:base=%d:split=%d-%d-%d:ops=",base,a,b,c); for(i=0;i<L;i++)k+=snprintf(desc+k,sizeof(desc)-k,"%s%d",i?".":"",ops[i]); }
  g_ord=A->n; snprintf(g_desc,sizeof(g_desc),"%s",desc);
  A->n++;
  if(skipped(g_ord)){ cs_add(&A->cls,"SKIPPED",1); return; }
  wa_on=1; lbase=wa_live_bytes;
  vorbis_info_init(&vi);
  { int k=0; cls[0]=0;
    for(i=0;i<L+2;i++){
      int oi;
      if(i==a){
        r1=B->managed?vorbis_encode_setup_managed(&vi,B->ch,B->rate,B->mx,B->nom,B->mn):vorbis_encode_setup_vbr(&vi,B->ch,B->rate,B->q);
        if(!documented(r1)){ snprintf(kind,sizeof(kind),"undocumented_rc:%s:%d",B->managed?"setup_managed":"setup_vbr",r1); acc_bad(A,kind,desc); }
        k+=snprintf(cls+k,sizeof(cls)-k,"|S%d|",r1);
      }
      if(i==a+b+1){
        r2=vorbis_encode_setup_init(&vi);
        if(!documented(r2)){ snprintf(kind,sizeof(kind),"undocumented_rc:setup_init:%d",r2); acc_bad(A,kind,desc); }
        k+=snprintf(cls+k,sizeof(cls)-k,"|I%d|",r2);
        if(r2==0){
          frozen=1; observe(&vi,&o0);
          if(r1==0&&(vi.channels!=B->ch||vi.rate!=B->rate)){ snprintf(kind,sizeof(kind),"request_not_echoed:setup_init_after_ctl:ch%d_rate%ld",vi.channels,vi.rate); acc_bad(A,kind,desc); }
        }
      }
      if(i==a||i==a+b+1)continue;
      oi=ops[i<a?i:(i<a+b+1?i-1:i-2)];
      rc=do_ctl(&vi,&OPS[oi]);
      k+=snprintf(cls+k,sizeof(cls)-k,"%x:%d+",OPS[oi].number&0xfff,rc);
      if(!(rc==0||rc==OV_EINVAL||rc==OV_EIMPL)){ snprintf(kind,sizeof(kind),"undocumented_rc:ctl_%s:%d",OPS[oi].name,rc); acc_bad(A,kind,desc); }
      if(frozen){
        if(is_set_request(OPS[oi].number)&&OPS[oi].ak!=AK_VINULL&&rc!=OV_EINVAL){ snprintf(kind,sizeof(kind),"set_after_setup_init_not_EINVAL:%s:%d",OPS[oi].name,rc); acc_bad(A,kind,desc); }
        if(is_set_request(OPS[oi].number)||OPS[oi].ak==AK_BLOB){
          observe(&vi,&o1);
          if(memcmp(&o0,&o1,sizeof(o0))){ snprintf(kind,sizeof(kind),"set_after_setup_init_changed_state:%s",OPS[oi].name); acc_bad(A,kind,desc); }
        }
      }
    }
  }
  cs_add(&A->cls,cls,1);
  state_hash(&vi,r1,r2,hex);
  if(states){
    int j,found=0; for(j=0;j<states->n;j++)if(!strncmp(states->k[j],hex,32)){ found=1; states->v[j]++; break; }
    if(!found){ char sk[120]; int k=snprintf(sk,sizeof(sk),"%s:%d:",hex,r2); for(i=0;i<L;i++)k+=snprintf(sk+k,sizeof(sk)-k,"%s%d",i?".":"",ops[i]); cs_add(states,sk,1); }
  }
  if(enc&&r2==0){
    encstat es={0,0,0,0,0,0}; char sk[64]; long ns=1100; codec_setup_info *ci=(codec_setup_info*)vi.codec_setup;
    /* the average-bitrate floater moves at most 15/damping steps per second of audio: give a managed set-up 0.75 s (<= 40000 samples,
       <= 6 channels) so that a floater that drifts has the time to leave its range */
    if(ci->bi.reservoir_bits>0&&ci->bi.avg_rate>0&&vi.channels<=6){ ns=vi.rate*3/4; if(ns<1100)ns=1100; if(ns>40000)ns=40000; }
    pipeline(&vi,vi.channels,vi.rate,2,ns,pb,sizeof(pb),&es);
    if(pb[0]){ snprintf(kind,sizeof(kind),"after_success:%s",pb); acc_bad(A,kind,desc); }
    snprintf(sk,sizeof(sk),"ctl/ns%ld/%s",ns,es.bigpad?"bigpad_not_encoded":(es.packets?"packets":"nopackets")); cs_add(&A->enc,sk,1);
  }
  vorbis_info_clear(&vi);
  if(!info_is_zero(&vi))acc_bad(A,"info_not_zero_after_clear",desc);
  vorbis_info_clear(&vi);
  if(wa_live_bytes!=lbase){ char lk[300]; snprintf(lk,sizeof(lk),"ctl:S%d:I%d:%s",r1,r2,desc); cs_add(&A->leak,lk,wa_live_bytes-lbase); }
  wa_on=0;
}

static void print_tables(void){
  int i; char qb[32];
  printf("{\"rates\":["); for(i=0;i<NRATES;i++)printf("%s%ld",i?",":"",RATES[i]);
  printf("],\"quals\":["); for(i=0;i<NQUALS;i++)printf("%s\"%s\"",i?",":"",qname(QUALS[i],qb));
  printf("],\"bitr\":["); for(i=0;i<7;i++)printf("%s%ld",i?",":"",BITR[i]);
  printf("],\"mrates\":["); for(i=0;i<8;i++)printf("%s%ld",i?",":"",MRATES[i]);
  printf("],\"ops_v1\":["); for(i=NOPS_ENUM;i<NOPS;i++)printf("%s\"%s\"",i>NOPS_ENUM?",":"",OPS[i].name);
  printf("],\"ops\":["); for(i=0;i<NOPS_ENUM;i++)printf("%s[%d,\"%s\",%d]",i?",":"",OPS[i].number,OPS[i].name,is_set_request(OPS[i].number)&&OPS[i].ak!=AK_VINULL);
  printf("],\"signals\":["); for(i=0;i<NSIG;i++)printf("%s\"%s\"",i?",":"",SIGNAMES[i]);
  printf("],\"perch\":["); for(i=0;i<NPERCH;i++)printf("%s%ld",i?",":"",PERCH[i]);
  printf("],\"absv\":["); for(i=0;i<NABSV;i++)printf("%s%ld",i?",":"",ABSV[i]);
  printf("],\"psel\":["); for(i=0;i<NPSEL;i++)printf("%s%ld",i?",":"",PSEL[i]);
  printf("],\"roles\":["); for(i=0;i<NROLES+2;i++)printf("%s\"%s\"",i?",":"",ROLENAMES[i]);
  printf("],\"sctl\":["); for(i=0;i<NSCTL;i++)printf("%s\"%s\"",i?",":"",SCTLNAMES[i]);
  printf("],\"bases\":["); for(i=0;i<NBASES;i++)printf("%s\"%s\"",i?",":"",BASES[i].name);
  printf("]}\n");
}

int main(int argc,char **argv){
  const char *cases=NULL; int i; FILE *cf; char *line=NULL; size_t lcap=0; int timeout=300;
  init_quals(); init_ops();
  { int a,b; for(a=0;a<NSCTL;a++){ SCTL[a]=-1; for(b=0;b<NOPS;b++)if(!strcmp(OPS[b].name,SCTLNAMES[a]))SCTL[a]=b; if(SCTL[a]<0)return 2; } }
  for(i=1;i<argc;i++){ if(!strcmp(argv[i],"--cases"))cases=argv[++i]; else if(!strcmp(argv[i],"--timeout"))timeout=atoi(argv[++i]); else if(!strcmp(argv[i],"--tables")){ print_tables(); return 0; } }
  if(!cases)return 2;
  cf=fopen(cases,"r"); if(!cf)return 2;
  signal(SIGPROF,on_alarm);
  __sanitizer_set_death_callback(on_death);
  signal(SIGILL,on_signal); signal(SIGABRT,on_signal);
  while(getline(&line,&lcap,cf)>0){
    char *sv,*tok; long idx; char mode; acc A; sbuf out; struct itimerval it; long v[40]; char *ts[40]; int nv=0; cset states,geo,blk; double lpr=-1.;
    memset(&A,0,sizeof(A)); memset(&out,0,sizeof(out)); memset(&states,0,sizeof(states)); memset(&geo,0,sizeof(geo)); memset(&blk,0,sizeof(blk));
    tok=strtok_r(line," \n",&sv); if(!tok)continue; idx=atol(tok); g_cur=idx;
    tok=strtok_r(NULL," \n",&sv); if(!tok){ printf("%ld BADCASE\n",idx); fflush(stdout); continue; } mode=tok[0];
    while((tok=strtok_r(NULL," \n",&sv))&&nv<40){ ts[nv]=tok; v[nv++]=atol(tok); }
    memset(&it,0,sizeof(it)); it.it_value.tv_sec=timeout; setitimer(ITIMER_PROF,&it,NULL);
    g_nskip=0; g_ord=-1; g_desc[0]=0;
    { int fixed=(mode=='C'&&nv>=6)?6+(int)v[5]:(mode=='S'?(nv>0&&v[0]?9:7):(mode=='L'?8:(mode=='W'?7:6))); int k; g_stride=1; g_succ_in_line=0; for(k=fixed;k<nv&&g_nskip<16;k++)g_skip[g_nskip++]=v[k]; }
    if(mode=='G'&&nv>=6){
      int path=v[0],ri,qi; long ch=v[1];
      for(ri=0;ri<NRATES;ri++){ if(v[2]>=0&&v[2]!=ri)continue;
        for(qi=0;qi<NQUALS;qi++){ if(v[3]>=0&&v[3]!=qi)continue;
          one_setup(&A,0,path,ch,RATES[ri],QUALS[qi],0,0,0,v[4],v[5]); } }
    }else if(mode=='M'&&nv>=6){
      int path=v[0],mi,ti; long ch=v[1];
      for(mi=0;mi<8;mi++){ if(v[2]>=0&&v[2]!=mi)continue;
        for(ti=0;ti<NTRI;ti++){ if(v[3]>=0&&v[3]!=ti)continue;
          one_setup(&A,1,path,ch,MRATES[mi],0,BITR[ti/49],BITR[(ti/7)%7],BITR[ti%7],v[4],v[5]); } }
    }else if(mode=='S'&&nv>=7&&(v[0]==0||nv>=9)){
      /* explicit tuple: S 0 <path> <ch> <rate> <qi> <pl> <ns>   |   S 1 <path> <ch> <rate> <max> <nominal> <min> <pl> <ns> */
      if(v[0]==0){ if(v[4]<0||v[4]>=NQUALS){ printf("%ld BADCASE\n",idx); fflush(stdout); continue; } one_setup(&A,0,v[1],v[2],v[3],QUALS[v[4]],0,0,0,v[5],v[6]); }
      else one_setup(&A,1,v[1],v[2],v[3],0,v[4],v[5],v[6],v[7],v[8]);
    }else if(mode=='W'&&nv>=7){
      /* submission-size axis: W <managed> <ch> <rate> <quality text|nominal> <total samples> <piece> <batch>: one-step set-up, then the encode stage with the
         signal submitted in pieces of <piece> samples; batch 1 = everything is submitted (and the stream closed) before the first vorbis_analysis_blockout */
      g_piece=v[5]>0?v[5]:1024; g_batch=v[6]!=0;
      one_setup(&A,v[0]!=0,0,v[1],v[2],v[0]?0.f:strtof(ts[3],NULL),-1,v[0]?v[3]:0,-1,2,v[4]);
      g_piece=1024; g_batch=0;
    }else if(mode=='B'&&nv>=6){
      /* bitrate scaling family: v = p*ch (and the absolute values) through every role; roles 8/9: an absolute max / min beside a scaled nominal */
      int path=v[0],pi,ai,role; long ch=v[1],rate=v[2],mx,nom,mn;
      g_stride=v[5]>0?v[5]:1;
      for(pi=0;pi<NPERCH+NABSV;pi++){
        long val=pi<NPERCH?smul(PERCH[pi],ch):ABSV[pi-NPERCH];
        for(role=0;role<NROLES;role++){ role_triple(role,val,&mx,&nom,&mn); one_setup(&A,1,path,ch,rate,0,mx,nom,mn,v[3],v[4]); }
        /* the neighbours of the scaled value (total bitrate +-1: per-channel value a fraction 1/ch off the table entry), nominal only */
        if(pi<NPERCH&&ch!=0){ one_setup(&A,1,path,ch,rate,0,-1,sadd(val,-1),-1,v[3],v[4]); one_setup(&A,1,path,ch,rate,0,-1,sadd(val,1),-1,v[3],v[4]); }
      }
      for(ai=0;ai<NABSV;ai++)for(pi=0;pi<NPSEL;pi++){
        long val=smul(PSEL[pi],ch);
        one_setup(&A,1,path,ch,rate,0,ABSV[ai],val,-1,v[3],v[4]);
        one_setup(&A,1,path,ch,rate,0,-1,val,ABSV[ai],v[3],v[4]);
      }
    }else if(mode=='L'&&nv>=8){
      int has_lp=strcmp(ts[6],"-")!=0;
      one_geom(&A,v[0]!=0,v[1]!=0,v[2],v[3],v[0]?0.f:strtof(ts[4],NULL),v[0]?v[4]:0,(int)v[5],has_lp,has_lp?strtod(ts[6],NULL):0.,v[7],&geo,&blk,&lpr);
    }else if(mode=='C'&&nv>=6){
      int base=v[0],a=v[1],b=v[2],c=v[3],enc=v[4],nfix=v[5],L=a+b+c,ops[8],k,okc=1;
      if(base<0||base>=NBASES||L>6||nfix>L||nfix<0||nv<6+nfix)okc=0;
      for(k=0;okc&&k<nfix;k++){ ops[k]=v[6+k]; if(ops[k]<0||ops[k]>=NOPS)okc=0; }
      if(!okc){ printf("%ld BADCASE\n",idx); fflush(stdout); continue; }
      for(k=nfix;k<L;k++)ops[k]=0;
      while(1){
        one_history(&A,base,a,b,c,ops,enc,&states);
        for(k=L-1;k>=nfix;k--){ if(++ops[k]<NOPS_ENUM)break; ops[k]=0; }
        if(k<nfix)break;
      }
    }else{ printf("%ld BADCASE\n",idx); fflush(stdout); continue; }
    memset(&it,0,sizeof(it)); setitimer(ITIMER_PROF,&it,NULL);
    sb_add(&out,"ok n=%ld",A.n);
    cs_emit(&A.cls,&out,"cls",",");
    cs_emit(&A.succ,&out,"succ",",");
    cs_emit(&A.enc,&out,"enc",",");
    cs_emit(&states,&out,"st",",");
    if(mode=='L'){ cs_emit(&geo,&out,"geo",","); cs_emit(&blk,&out,"blk",","); sb_add(&out," lpr=%.17g",lpr); }
    cs_emit(&A.leak,&out,"leak",",");
    sb_raw(&out," bad="); if(A.bad.s)sb_raw(&out,A.bad.s);
    if(wa_overflow)sb_add(&out," WAOVERFLOW");
    printf("%ld %s\n",idx,out.s); fflush(stdout);
    cs_free(&A.cls); cs_free(&A.succ); cs_free(&A.leak); cs_free(&A.enc); cs_free(&states); cs_free(&geo); cs_free(&blk); __real_free(A.bad.s); __real_free(out.s);
  }
  return 0;
}
