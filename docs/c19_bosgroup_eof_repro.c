/* C19 finding eof_before_foreign_bos_page_of_own_link: reproducer.
 * usage: repro <multiplexed.ogg>   (a seekable file whose first link has a foreign BOS page BEHIND the Vorbis BOS page)
 * The handle is put on the first byte of the file (ov_raw_seek(vf,0)): it has consumed the Vorbis BOS page, has no decoder yet, and the next
 * page is the BOS page of the other logical stream of the same BOS group.  A plain seek from there works; every lapped seek (and ov_crosslap
 * with this handle as the first one) reports OV_EOF (-2) although the whole stream follows. */
#include <stdio.h>
#include <vorbis/vorbisfile.h>
int main(int argc,char **argv){
  OggVorbis_File a,b; float **pcm; int bs,rc; long n;
  if(argc<2||ov_fopen(argv[1],&a)||ov_fopen(argv[1],&b)){ fprintf(stderr,"open failed\n"); return 2; }
  printf("ov_raw_seek(a,0)=%d ov_raw_seek(b,0)=%d\n",ov_raw_seek(&a,0),ov_raw_seek(&b,0));
  rc=ov_pcm_seek(&a,1500);
  printf("plain  ov_pcm_seek(a,1500)     = %d, tell %ld\n",rc,(long)ov_pcm_tell(&a));
  rc=ov_pcm_seek_lap(&b,1500);
  printf("lapped ov_pcm_seek_lap(b,1500) = %d, tell %ld   (expected 0 / 1500; OV_EOF is -2)\n",rc,(long)ov_pcm_tell(&b));
  n=ov_read_float(&b,&pcm,4096,&bs); printf("next read on b: %ld samples at tell %ld\n",n,(long)ov_pcm_tell(&b));
  ov_clear(&a); ov_clear(&b); return 0;
}
