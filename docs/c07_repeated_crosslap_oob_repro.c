/* Reproducer: heap overflow in _ov_splice when one decoded block is exposed to vorbis_synthesis_lapout
 * several times (found by the C07 history family, checks/c07.py + pylib/c07_hist.py, thorough tier).
 *
 * ov_crosslap(vf1,vf2) and the *_lap seeks call vorbis_synthesis_lapout(&vd,&pcm) and then splice
 * n = min(blocksize0/2 of the two streams) samples into pcm[] WITHOUT looking at the count lapout returns.
 * vorbis_synthesis_lapout is not idempotent on a stream with two block sizes: every call on the same decoded
 * block (no vorbis_synthesis_blockin in between) consolidates the buffer again and adds (n1-n0) resp. (n1-n0)/2
 * to pcm_returned.  On a 256/2048 stream (every 44.1 kHz file) pcm_returned grows by 896 per call when the handle sits
 * between two short blocks (third exposure: pcm_returned = 2688 with pcm_storage = 2048, zoo file c07_K / link kind K) and by
 * 448 per call between a long and a short block (this file: fifth exposure, pcm_returned = 2240): _ov_splice reads and WRITES
 * 128 floats per channel behind the end of v->pcm[c].
 * (The second exposure stays inside the buffer and "only" delivers wrong lap audio: known finding C19
 * XL:second_handle_block_exposed_twice.)
 *
 * An application that crosslaps several sounds into the same receiving handle before it reads from it (three
 * one-shot samples faded into a loop), or that repeats ov_crosslap / a lapped seek after a lapped seek, corrupts its heap.
 *
 * build:  gcc -g -fsanitize=address -I/repo/include c07_repeated_crosslap_oob_repro.c <libvorbisfile+libvorbis+libvorbisenc from /repo> -logg -lm
 *   e.g.  cd /verif && bin/build.sh asan && clang -g -fsanitize=address -I/repo/include -I/repo/lib docs/c07_repeated_crosslap_oob_repro.c build/asan/libvorbisall.a /usr/lib/x86_64-linux-gnu/libogg.a -lm -o /tmp/repro && /tmp/repro
 * result on the unchanged tree: AddressSanitizer: heap-buffer-overflow in _ov_splice vorbisfile.c:2256, called from ov_crosslap:2392
 *   (without ASan: "free(): invalid next size" / "munmap_chunk(): invalid pointer" at ov_clear, or silent corruption)
 */
#include <stdio.h>
#include <stdlib.h>
#include <string.h>
#include <math.h>
#include <vorbis/codec.h>
#include <vorbis/vorbisenc.h>
#include <vorbis/vorbisfile.h>

typedef struct { unsigned char *d; long len, cap, pos; } mem_t;
static void mem_put(mem_t *m,const void *p,long n){ if(m->len+n>m->cap){ m->cap=(m->len+n)*2+65536; m->d=realloc(m->d,m->cap); } memcpy(m->d+m->len,p,n); m->len+=n; }
static size_t cb_read(void *ptr,size_t sz,size_t nm,void *ds){ mem_t *m=ds; long want=(long)(sz*nm); if(want>m->len-m->pos)want=m->len-m->pos; if(want<0)want=0; memcpy(ptr,m->d+m->pos,want); m->pos+=want; return sz?want/sz:0; }
static int cb_seek(void *ds,ogg_int64_t off,int wh){ mem_t *m=ds; long np=wh==SEEK_SET?off:wh==SEEK_CUR?m->pos+off:m->len+off; if(np<0||np>m->len)return -1; m->pos=np; return 0; }
static long cb_tell(void *ds){ return ((mem_t*)ds)->pos; }
static ov_callbacks CB={cb_read,cb_seek,NULL,cb_tell};

static void encode(mem_t *out){            /* 1 s of 44.1 kHz mono: block sizes 256/2048 */
  vorbis_info vi; vorbis_comment vc; vorbis_dsp_state vd; vorbis_block vb; ogg_stream_state os; ogg_page og; ogg_packet op,h1,h2,h3;
  long total=44100,done=0;
  vorbis_info_init(&vi); if(vorbis_encode_init_vbr(&vi,1,44100,0.3f))exit(2);
  vorbis_comment_init(&vc); vorbis_analysis_init(&vd,&vi); vorbis_block_init(&vd,&vb); ogg_stream_init(&os,1);
  vorbis_analysis_headerout(&vd,&vc,&h1,&h2,&h3); ogg_stream_packetin(&os,&h1); ogg_stream_packetin(&os,&h2); ogg_stream_packetin(&os,&h3);
  while(ogg_stream_flush(&os,&og)){ mem_put(out,og.header,og.header_len); mem_put(out,og.body,og.body_len); }
  for(;;){
    long n=total-done,i; if(n>1024)n=1024;
    if(n>0){ float **b=vorbis_analysis_buffer(&vd,n); for(i=0;i<n;i++)b[0][i]=0.5f*sin(2*M_PI*440*(done+i)/44100.); vorbis_analysis_wrote(&vd,n); done+=n; }
    else vorbis_analysis_wrote(&vd,0);
    while(vorbis_analysis_blockout(&vd,&vb)==1){ vorbis_analysis(&vb,NULL); vorbis_bitrate_addblock(&vb);
      while(vorbis_bitrate_flushpacket(&vd,&op)){ ogg_stream_packetin(&os,&op); while(ogg_stream_pageout(&os,&og)){ mem_put(out,og.header,og.header_len); mem_put(out,og.body,og.body_len); } } }
    if(n<=0)break;
  }
  while(ogg_stream_flush(&os,&og)){ mem_put(out,og.header,og.header_len); mem_put(out,og.body,og.body_len); }
  ogg_stream_clear(&os); vorbis_block_clear(&vb); vorbis_dsp_clear(&vd); vorbis_comment_clear(&vc); vorbis_info_clear(&vi);
}

int main(void){
  mem_t file={0,0,0,0},sa,sb; OggVorbis_File A,B; int i;
  encode(&file);
  sa=file; sa.pos=0; sb=file; sb.pos=0;
  if(ov_open_callbacks(&sa,&A,NULL,0,CB)||ov_open_callbacks(&sb,&B,NULL,0,CB))return 2;
  for(i=0;i<6;i++){
    int rc=ov_crosslap(&A,&B);        /* B receives the lap; nothing is read from B in between */
    printf("ov_crosslap #%d -> %d   (B.vd: pcm_returned=%d pcm_storage=%d)\n",i+1,rc,B.vd.pcm_returned,B.vd.pcm_storage);
  }
  ov_clear(&A); ov_clear(&B);
  puts("no sanitizer report: rebuild with -fsanitize=address");
  return 0;
}
